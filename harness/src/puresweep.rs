//! `harness puresweep`: direct calls into deltio's pure functions.

use crate::util::{hexs, panic_message, Toks};
use deltio::paging::Paging;
use deltio::subscriptions::{AckDeadline, SubscriptionName};
use deltio::topics::{MessageId, TopicName};
use deltio::verif;
use std::io::Write;
use std::time::Duration;

fn exec(line: &str) -> Result<String, String> {
    let mut t = Toks::new(line);
    let op = t.next()?;
    match op {
        "TN" => {
            let s = t.str()?;
            t.end()?;
            Ok(match TopicName::try_parse(&s) {
                None => "TN 0".to_string(),
                Some(n) => format!("TN 1 {} {}", hexs(n.topic_id()), hexs(&n.to_string())),
            })
        }
        "SN" => {
            let s = t.str()?;
            t.end()?;
            Ok(match SubscriptionName::try_parse(&s) {
                None => "SN 0".to_string(),
                Some(n) => format!(
                    "SN 1 {} {} {}",
                    hexs(n.project_id()),
                    hexs(n.subscription_id()),
                    hexs(&n.to_string())
                ),
            })
        }
        "AI" => {
            let s = t.str()?;
            t.end()?;
            Ok(match verif::parse_ack_id(&s) {
                Err(_) => "AI 0".to_string(),
                Ok(id) => format!("AI 1 {}", id),
            })
        }
        "DL" => {
            let ns: u64 = t.num()?;
            t.end()?;
            let epoch = deltio::subscriptions::verif_epoch();
            let deadline = AckDeadline::new(&(epoch + Duration::from_nanos(ns)));
            Ok(format!(
                "DL {}",
                deadline.time().duration_since(epoch).as_nanos()
            ))
        }
        "PE" => {
            let n: usize = t.num()?;
            t.end()?;
            Ok(format!("PE {}", hexs(&verif::page_token_encode(n))))
        }
        "PD" => {
            let s = t.str()?;
            t.end()?;
            Ok(match verif::page_token_try_decode(&s) {
                None => "PD 0".to_string(),
                Some(n) => format!("PD 1 {}", n),
            })
        }
        "PG" => {
            let size: i32 = t.num()?;
            let token = t.str()?;
            t.end()?;
            Ok(match verif::parse_paging(size, &token) {
                Err(status) => format!("PG {}", status.code() as i32),
                Ok(p) => format!("PG 0 {} {}", p.size(), p.to_skip()),
            })
        }
        "PP" => {
            let count: usize = t.num()?;
            let size: usize = t.num()?;
            let off_tok = t.next()?;
            let off = if off_tok == "-" {
                None
            } else {
                Some(
                    off_tok
                        .parse::<usize>()
                        .map_err(|_| format!("bad offset '{}'", off_tok))?,
                )
            };
            t.end()?;
            let paging = Paging::new(size, off);
            let page: Vec<usize> = (0..count)
                .skip(paging.to_skip())
                .take(paging.size())
                .collect();
            let next = paging.next_page_from_slice_result(&page);
            let first = page
                .first()
                .map(|v| v.to_string())
                .unwrap_or_else(|| "-".to_string());
            let next_off = next
                .offset()
                .map(|v| v.to_string())
                .unwrap_or_else(|| "-".to_string());
            Ok(format!("PP {} {} {}", page.len(), first, next_off))
        }
        "DX" => {
            let v: i32 = t.num()?;
            t.end()?;
            Ok(match verif::parse_deadline_extension_duration(v) {
                Err(status) => format!("DX {}", status.code() as i32),
                Ok(None) => "DX 0 -".to_string(),
                Ok(Some(d)) => format!("DX 0 {}", d.as_secs()),
            })
        }
        "PJ" => {
            let s = t.str()?;
            t.end()?;
            Ok(match verif::parse_project_id(&s) {
                Err(status) => format!("PJ {}", status.code() as i32),
                Ok(p) => format!("PJ 0 {}", hexs(&p)),
            })
        }
        "PC" => {
            let s = t.str()?;
            t.end()?;
            let proto = deltio::pubsub_proto::PushConfig {
                push_endpoint: s,
                attributes: Default::default(),
                authentication_method: None,
            };
            Ok(match verif::parse_push_config(&proto) {
                Err(status) => format!("PC {}", status.code() as i32),
                Ok(pc) => format!("PC 0 {}", hexs(&pc.endpoint)),
            })
        }
        "MI" => {
            let tid: u32 = t.num()?;
            let ctr: u32 = t.num()?;
            t.end()?;
            Ok(format!("MI {}", MessageId::new(tid, ctr).value))
        }
        other => Err(format!("unknown op '{}'", other)),
    }
}

/// Entry point of the `puresweep` sub-command.
pub fn main_puresweep(args: &[String]) -> i32 {
    if args.len() != 2 {
        eprintln!("usage: harness puresweep <ops-file> <results-file>");
        return 2;
    }
    let text = match std::fs::read_to_string(&args[0]) {
        Ok(t) => t,
        Err(e) => {
            eprintln!("puresweep: cannot read {}: {}", args[0], e);
            return 2;
        }
    };
    // Keep panics quiet; they are reported in the result line.
    std::panic::set_hook(Box::new(|_| {}));
    // Initialise the epoch up front so that it does not depend on the ops.
    let _ = deltio::subscriptions::verif_epoch();

    let mut out = String::new();
    for raw in text.lines() {
        let line = raw.strip_suffix('\r').unwrap_or(raw);
        if line.is_empty() {
            continue;
        }
        let result = std::panic::catch_unwind(|| exec(line));
        let result_line = match result {
            Ok(Ok(l)) => l,
            Ok(Err(msg)) => format!("!PANIC {}", hexs(&format!("bad op: {}", msg))),
            Err(payload) => format!("!PANIC {}", hexs(&panic_message(payload.as_ref()))),
        };
        out.push_str(&result_line);
        out.push('\n');
    }
    let write = std::fs::File::create(&args[1]).and_then(|mut f| {
        f.write_all(out.as_bytes())?;
        f.flush()
    });
    if let Err(e) = write {
        eprintln!("puresweep: cannot write {}: {}", args[1], e);
        return 2;
    }
    0
}
