//! `harness seqcase`: runs one case (text on stdin) against an in-process
//! deltio gRPC server on a paused `current_thread` runtime (push mode, see
//! /verif/docs/FORMAT-push.md: real clock plus a scripted local HTTP endpoint).

use crate::util::{hex, hexs, panic_message, Toks};
use deltio::pubsub_proto::publisher_client::PublisherClient;
use deltio::pubsub_proto::subscriber_client::SubscriberClient;
use deltio::pubsub_proto::{
    AcknowledgeRequest, DeleteSubscriptionRequest, DeleteTopicRequest, GetSubscriptionRequest,
    GetTopicRequest, ListSubscriptionsRequest, ListTopicSubscriptionsRequest, ListTopicsRequest,
    ModifyAckDeadlineRequest, PublishRequest, PubsubMessage, PullRequest, PushConfig,
    ReceivedMessage, StreamingPullRequest, StreamingPullResponse, Subscription, Topic,
};
use deltio::subscriptions::SubscriptionName;
use deltio::Deltio;
use std::collections::{BTreeMap, BTreeSet, HashMap, VecDeque};
use std::future::Future;
use std::panic::AssertUnwindSafe;
use std::sync::{Arc, Mutex};
use std::time::Duration;
use tokio::sync::mpsc;
use tokio_stream::wrappers::UnboundedReceiverStream;
use tonic::transport::{Channel, Endpoint};
use tonic::Status;

/// The virtual time after which a pending call counts as hung.
const HANG_AFTER: Duration = Duration::from_secs(3600);

/// A parsed case: the id and the raw op lines.
pub struct Case {
    pub id: String,
    pub ops: Vec<String>,
}

/// Splits a cases file into cases. Blank lines between cases are tolerated.
pub fn parse_cases(text: &str) -> Result<Vec<Case>, String> {
    let mut cases = Vec::new();
    let mut current: Option<Case> = None;
    for (no, raw) in text.lines().enumerate() {
        let line = raw.strip_suffix('\r').unwrap_or(raw);
        match &mut current {
            None => {
                if line.is_empty() {
                    continue;
                }
                match line.strip_prefix("CASE ") {
                    Some(id) if !id.is_empty() && !id.contains(' ') => {
                        current = Some(Case {
                            id: id.to_string(),
                            ops: Vec::new(),
                        })
                    }
                    _ => return Err(format!("line {}: expected 'CASE <id>'", no + 1)),
                }
            }
            Some(case) => {
                if line == "END" {
                    cases.push(current.take().unwrap());
                } else {
                    case.ops.push(line.to_string());
                }
            }
        }
    }
    if let Some(case) = current {
        return Err(format!("case {}: missing END", case.id));
    }
    Ok(cases)
}

/// Renders a case back to text (used to feed the child process).
pub fn case_text(case: &Case) -> String {
    let mut s = format!("CASE {}\n", case.id);
    for op in &case.ops {
        s.push_str(op);
        s.push('\n');
    }
    s.push_str("END\n");
    s
}

/// Why a case stops early.
enum Fail {
    Hang,
    Transport(String),
    Panic(String),
}

impl Fail {
    fn line(&self) -> String {
        match self {
            Fail::Hang => "!HANG".to_string(),
            Fail::Transport(m) => format!("!TRANSPORT {}", hexs(m)),
            Fail::Panic(m) => format!("!PANIC {}", hexs(m)),
        }
    }
}

type OpResult = Result<String, Fail>;

/// Panics observed by the panic hook (any thread / task of this process).
static PANICS: Mutex<Vec<String>> = Mutex::new(Vec::new());

fn take_background_panic() -> Option<String> {
    let mut p = PANICS.lock().unwrap_or_else(|e| e.into_inner());
    if p.is_empty() {
        None
    } else {
        let first = p[0].clone();
        p.clear();
        Some(first)
    }
}

fn install_panic_hook() {
    let debug = std::env::var_os("HARNESS_DEBUG").is_some();
    std::panic::set_hook(Box::new(move |info| {
        let loc = info
            .location()
            .map(|l| format!("{}:{}", l.file(), l.line()))
            .unwrap_or_else(|| "?".to_string());
        let msg = format!("{} at {}", panic_message(info.payload()), loc);
        if debug {
            eprintln!("panic: {}", msg);
        }
        PANICS
            .lock()
            .unwrap_or_else(|e| e.into_inner())
            .push(msg);
    }));
}

/// Entry point of the `seqcase` sub-command.
pub fn main_seqcase() -> i32 {
    use std::io::{Read, Write};
    let mut text = String::new();
    if std::io::stdin().read_to_string(&mut text).is_err() {
        eprintln!("seqcase: cannot read stdin");
        return 2;
    }
    let cases = match parse_cases(&text) {
        Ok(c) => c,
        Err(e) => {
            eprintln!("seqcase: {}", e);
            return 2;
        }
    };
    if cases.len() != 1 {
        eprintln!("seqcase: expected exactly one case on stdin");
        return 2;
    }
    // Test hooks for the parent's failure handling.
    match std::env::var("HARNESS_TEST_CHILD").as_deref() {
        Ok("abort") => std::process::abort(),
        Ok("exit3") => return 3,
        Ok("sleep") => std::thread::sleep(Duration::from_secs(100_000)),
        Ok("panic") => panic!("test panic outside the case"),
        _ => {}
    }
    let lines = run_case(&cases[0]);
    let mut out = String::new();
    out.push_str(&format!("CASE {}\n", cases[0].id));
    for l in &lines {
        out.push_str(l);
        out.push('\n');
    }
    out.push_str("END\n");
    let stdout = std::io::stdout();
    let mut lock = stdout.lock();
    if lock.write_all(out.as_bytes()).is_err() || lock.flush().is_err() {
        return 2;
    }
    0
}

/// Runs one case and returns its result lines (without the CASE/END frame).
pub fn run_case(case: &Case) -> Vec<String> {
    install_panic_hook();
    let report_bg = std::env::var("HARNESS_BG_PANIC")
        .map(|v| v != "ignore")
        .unwrap_or(true);
    let lines: Arc<Mutex<Vec<String>>> = Arc::new(Mutex::new(Vec::new()));

    // Push mode (first op line `MODE push`): real clock; the SEED line, if any, follows it.
    let push_mode = case.ops.first().map(|l| l == "MODE push").unwrap_or(false);
    let seed_line = if push_mode {
        case.ops.get(1)
    } else {
        case.ops.first()
    };
    let seed: Option<u64> = seed_line
        .and_then(|l| l.strip_prefix("SEED "))
        .and_then(|n| n.parse::<u64>().ok());

    let result = std::panic::catch_unwind(AssertUnwindSafe(|| {
        let mut builder = tokio::runtime::Builder::new_current_thread();
        builder.enable_all();
        if !push_mode {
            builder.start_paused(true);
        }
        if let Some(seed) = seed {
            builder.rng_seed(tokio::runtime::RngSeed::from_bytes(&seed.to_le_bytes()));
        }
        let rt = builder.build().expect("runtime");
        rt.block_on(run_ops(case, Arc::clone(&lines), report_bg, push_mode));
    }));

    let mut lines = lines.lock().unwrap_or_else(|e| e.into_inner()).clone();
    if let Err(payload) = result {
        let msg = take_background_panic().unwrap_or_else(|| panic_message(payload.as_ref()));
        lines.push(Fail::Panic(msg).line());
    }
    lines
}

/// What a stream has produced so far.
#[derive(Default)]
struct StreamBuf {
    responses: Vec<StreamingPullResponse>,
    /// The final status code (0 = clean end) once the response side ended.
    terminal: Option<i32>,
    /// Set when the stream ended with a client-side transport error.
    transport: Option<String>,
}

struct StreamState {
    tx: Option<mpsc::UnboundedSender<StreamingPullRequest>>,
    buf: Arc<Mutex<StreamBuf>>,
}

/// A call left running in the background by a `BG` op.
enum BgOut {
    Line(OpResult),
    Pull(Result<Result<deltio::pubsub_proto::PullResponse, i32>, Fail>),
}

/// What the scripted HTTP endpoint does with one POST.
#[derive(Clone, Copy)]
enum Outcome {
    Status(u16),
    Reset,
    Hang,
    /// the status, sent 11 s (real time) after the request arrived
    Slow(u16),
    /// the status, sent 700 ms (real time) after the request arrived
    Late(u16),
}

impl Outcome {
    fn text(&self) -> String {
        match self {
            Outcome::Status(s) => s.to_string(),
            Outcome::Reset => "reset".to_string(),
            Outcome::Hang => "hang".to_string(),
            Outcome::Slow(s) => format!("slow{}", s),
            Outcome::Late(s) => format!("late{}", s),
        }
    }
}

/// One POST received by the scripted endpoint.
struct PostRec {
    k: usize,
    body: Vec<u8>,
    answer: Outcome,
}

#[derive(Default)]
struct PushShared {
    /// Per endpoint `/e<k>`: the outcomes still to be given (empty = 200).
    scripts: [VecDeque<Outcome>; 10],
    /// The POSTs received since the previous ROUND / LOOP, in arrival order.
    posts: Vec<PostRec>,
}

/// Push mode state: the local endpoint and the HTTP client of the case.
#[derive(Clone)]
struct PushMode {
    port: u16,
    shared: Arc<Mutex<PushShared>>,
    client: reqwest::Client,
}

const EP_PREFIX: &str = "http://ep/e";
const REFUSED_CANON: &str = "http://refused/";
const REFUSED_LOCAL: &str = "http://127.0.0.1:1/";

fn single_digit(s: &str) -> bool {
    s.len() == 1 && s.as_bytes()[0].is_ascii_digit()
}

impl PushMode {
    /// Canonical endpoint (case text) to the local URL.
    fn to_local(&self, endpoint: &str) -> String {
        if endpoint == REFUSED_CANON {
            return REFUSED_LOCAL.to_string();
        }
        match endpoint.strip_prefix(EP_PREFIX) {
            Some(k) if single_digit(k) => format!("http://127.0.0.1:{}/e{}", self.port, k),
            _ => endpoint.to_string(),
        }
    }

    /// Local URL back to the canonical endpoint.
    fn to_canonical(&self, endpoint: &str) -> String {
        if endpoint == REFUSED_LOCAL {
            return REFUSED_CANON.to_string();
        }
        let local = format!("http://127.0.0.1:{}/e", self.port);
        match endpoint.strip_prefix(&local[..]) {
            Some(k) if single_digit(k) => format!("{}{}", EP_PREFIX, k),
            _ => endpoint.to_string(),
        }
    }
}

/// Translates a printed endpoint back when in push mode.
fn canon_endpoint(push: Option<&PushMode>, endpoint: &str) -> String {
    match push {
        Some(p) => p.to_canonical(endpoint),
        None => endpoint.to_string(),
    }
}

type EpResponse = hyper::Response<http_body_util::Empty<hyper::body::Bytes>>;

/// Serves one request of the scripted endpoint.
async fn serve_endpoint(
    shared: Arc<Mutex<PushShared>>,
    conn: usize,
    req: hyper::Request<hyper::body::Incoming>,
) -> Result<EpResponse, std::io::Error> {
    use http_body_util::BodyExt;
    let k = req
        .uri()
        .path()
        .strip_prefix("/e")
        .filter(|k| single_digit(k))
        .map(|k| (k.as_bytes()[0] - b'0') as usize);
    let is_post = req.method() == hyper::Method::POST;
    let body = req
        .into_body()
        .collect()
        .await
        .map_err(|e| std::io::Error::new(std::io::ErrorKind::Other, e.to_string()))?
        .to_bytes()
        .to_vec();
    let respond = |status: u16| {
        let mut r = hyper::Response::new(http_body_util::Empty::<hyper::body::Bytes>::new());
        *r.status_mut() = hyper::StatusCode::from_u16(status)
            .unwrap_or(hyper::StatusCode::INTERNAL_SERVER_ERROR);
        Ok::<_, std::io::Error>(r)
    };
    let k = match (k, is_post) {
        (Some(k), true) => k,
        (Some(_), false) => return respond(405),
        (None, _) => return respond(404),
    };
    let outcome = {
        let mut sh = shared.lock().unwrap();
        let outcome = sh.scripts[k].pop_front().unwrap_or(Outcome::Status(200));
        sh.posts.push(PostRec {
            k,
            body,
            answer: outcome,
        });
        outcome
    };
    if std::env::var_os("HARNESS_DEBUG").is_some() {
        eprintln!("push endpoint: POST /e{} on connection {} -> {}", k, conn, outcome.text());
    }
    match outcome {
        Outcome::Status(s) => respond(s),
        Outcome::Reset => Err(std::io::Error::new(
            std::io::ErrorKind::ConnectionReset,
            "scripted reset",
        )),
        Outcome::Hang => {
            std::future::pending::<()>().await;
            respond(500)
        }
        Outcome::Slow(s) => {
            tokio::time::sleep(Duration::from_secs(11)).await;
            respond(s)
        }
        Outcome::Late(s) => {
            tokio::time::sleep(Duration::from_millis(700)).await;
            respond(s)
        }
    }
}

/// Starts the scripted endpoint on 127.0.0.1:0 (one task per connection).
async fn start_push_mode() -> Result<PushMode, Fail> {
    let listener = tokio::net::TcpListener::bind("127.0.0.1:0")
        .await
        .map_err(|e| Fail::Transport(format!("push endpoint bind: {}", e)))?;
    let port = listener
        .local_addr()
        .map_err(|e| Fail::Transport(format!("push endpoint addr: {}", e)))?
        .port();
    let shared = Arc::new(Mutex::new(PushShared::default()));
    let accept_shared = Arc::clone(&shared);
    if std::env::var_os("HARNESS_DEBUG").is_some() {
        eprintln!("push endpoint: listening on 127.0.0.1:{}", port);
    }
    tokio::spawn(async move {
        let mut conn = 0usize;
        loop {
            let stream = match listener.accept().await {
                Ok((stream, _)) => stream,
                Err(_) => {
                    tokio::time::sleep(Duration::from_millis(10)).await;
                    continue;
                }
            };
            let shared = Arc::clone(&accept_shared);
            conn += 1;
            tokio::spawn(async move {
                let service = hyper::service::service_fn(move |req| {
                    serve_endpoint(Arc::clone(&shared), conn, req)
                });
                let _ = hyper::server::conn::http1::Builder::new()
                    .serve_connection(hyper_util::rt::TokioIo::new(stream), service)
                    .await;
            });
        }
    });
    Ok(PushMode {
        port,
        shared,
        client: reqwest::Client::new(),
    })
}

/// The fields of a push payload that the result lines print.
struct ParsedPost {
    subscription: String,
    message_id: String,
    ids_equal: bool,
    /// Already in output form (hex, `-`, or `!<hex of the undecodable string>`).
    data: String,
    attrs: Vec<(String, String)>,
}

fn parse_post(body: &[u8]) -> Option<ParsedPost> {
    use base64::Engine;
    let v: serde_json::Value = serde_json::from_slice(body).ok()?;
    let subscription = v.get("subscription")?.as_str()?.to_string();
    let m = v.get("message")?;
    let message_id = m.get("messageId")?.as_str()?.to_string();
    let raw = m.get("data")?.as_str()?;
    let ids_equal = m.get("message_id").is_some()
        && m.get("message_id") == m.get("messageId")
        && m.get("publish_time").is_some()
        && m.get("publish_time") == m.get("publishTime");
    let data = match base64::engine::general_purpose::STANDARD.decode(raw) {
        Ok(bytes) => hex(&bytes),
        Err(_) => format!("!{}", hexs(raw)),
    };
    let mut attrs: Vec<(String, String)> = match m.get("attributes").and_then(|a| a.as_object()) {
        None => Vec::new(),
        Some(o) => o
            .iter()
            .map(|(k, v)| {
                let val = match v.as_str() {
                    Some(s) => s.to_string(),
                    None => v.to_string(),
                };
                (k.clone(), val)
            })
            .collect(),
    };
    attrs.sort_by(|a, b| a.0.as_bytes().cmp(b.0.as_bytes()));
    Some(ParsedPost {
        subscription,
        message_id,
        ids_equal,
        data,
        attrs,
    })
}

/// One `(..)` group of a ROUND result line.
fn fmt_post(rec: &PostRec) -> String {
    match parse_post(&rec.body) {
        None => format!("{} !badjson {} {}", rec.k, hex(&rec.body), rec.answer.text()),
        Some(p) => {
            let mut s = format!(
                "{} {} {} {} {} {}",
                rec.k,
                hexs(&p.subscription),
                hexs(&p.message_id),
                if p.ids_equal { 1 } else { 0 },
                p.data,
                p.attrs.len()
            );
            for (k, v) in &p.attrs {
                s.push_str(&format!(" {} {}", hexs(k), hexs(v)));
            }
            s.push(' ');
            s.push_str(&rec.answer.text());
            s
        }
    }
}

struct Ctx {
    app: Arc<Deltio>,
    /// Push mode state (`MODE push` cases only).
    push: Option<PushMode>,
    /// Background calls (`BG <id> <op>`), joined by `JOIN <id>`.
    bg: BTreeMap<String, tokio::task::JoinHandle<BgOut>>,
    publisher: PublisherClient<Channel>,
    subscriber: SubscriberClient<Channel>,
    streams: BTreeMap<String, StreamState>,
    /// Distinct publish times in order of first appearance in the output.
    ptimes: Vec<(i64, i32)>,
    /// Ack ids delivered so far (PULL / SR results), in output order.
    acks: Vec<String>,
    /// Handler futures driven poll by poll (`XH` / `XP`, `XN` / `XQ` / `XD`).
    held: BTreeMap<String, (HeldPull, Arc<deltio::subscriptions::Subscription>)>,
    /// StreamingPull handlers driven poll by poll (`XS` / `XQ` / `XD`): the response stream and the sender
    /// side of the request body (kept open: the client sends nothing after the initial request).
    held_streams: BTreeMap<String, (HeldStream, mpsc::UnboundedSender<Result<http_body::Frame<bytes::Bytes>, Status>>)>,
    /// Requests put into a mailbox by `XF` and not yet awaited (they finish at the next `XT`).
    fillers: Vec<std::pin::Pin<Box<dyn Future<Output = ()> + Send>>>,
}

type HeldStream = std::pin::Pin<
    Box<dyn tokio_stream::Stream<Item = Result<deltio::pubsub_proto::StreamingPullResponse, Status>> + Send>,
>;

type HeldPull = std::pin::Pin<
    Box<dyn Future<Output = Result<tonic::Response<deltio::pubsub_proto::PullResponse>, Status>> + Send>,
>;

async fn run_ops(
    case: &Case,
    lines: Arc<Mutex<Vec<String>>>,
    report_bg: bool,
    push_mode: bool,
) {
    // Force the lazily initialised EPOCH before anything else happens.
    let _ = deltio::subscriptions::AckDeadline::new(&tokio::time::Instant::now());

    let push = |l: String| lines.lock().unwrap().push(l);

    let mut ctx = match start(push_mode).await {
        Ok(ctx) => ctx,
        Err(fail) => {
            if !case.ops.is_empty() {
                push(fail.line());
            }
            return;
        }
    };

    if std::env::var("HARNESS_TEST_CHILD").as_deref() == Ok("bgpanic") {
        tokio::spawn(async { panic!("test background panic") });
    }

    let op_timing = push_mode && std::env::var_os("HARNESS_DEBUG").is_some();
    for line in &case.ops {
        let started = std::time::Instant::now();
        let res = exec(&mut ctx, line).await;
        if op_timing {
            eprintln!(
                "op {}: {:?}",
                line.split(' ').next().unwrap_or(""),
                started.elapsed()
            );
        }
        let stop = res.is_err();
        // BG / CANCEL / YIELD are scheduling directives: the next op starts without
        // letting the runtime settle first.
        let directive = matches!(
            line.split(' ').next(),
            Some("BG") | Some("CANCEL") | Some("YIELD") | Some("XN") | Some("XS") | Some("XQ") | Some("XD") | Some("XF")
        );
        if !stop && !directive {
            quiesce(&ctx).await;
        }
        let bg = if report_bg {
            take_background_panic()
        } else {
            None
        };
        match (res, bg) {
            (_, Some(msg)) => {
                push(Fail::Panic(msg).line());
                return;
            }
            (Ok(l), None) => push(l),
            (Err(f), None) => push(f.line()),
        }
        if stop {
            return;
        }
    }
}

/// Starts the in-process server and connects the clients.
async fn start(push_mode: bool) -> Result<Ctx, Fail> {
    let push = if push_mode {
        Some(start_push_mode().await?)
    } else {
        None
    };
    let app = Deltio::new();
    let (tx, rx) =
        mpsc::unbounded_channel::<Result<tokio::io::DuplexStream, std::io::Error>>();
    let router = app.server_builder();
    tokio::spawn(async move {
        let _ = router
            .serve_with_incoming(UnboundedReceiverStream::new(rx))
            .await;
    });

    let endpoint = Endpoint::try_from("http://in.proc")
        .map_err(|e| Fail::Transport(format!("endpoint: {}", e)))?;
    let connect = endpoint.connect_with_connector(tower::service_fn(move |_: tonic::transport::Uri| {
        let (client, server) = tokio::io::duplex(1 << 20);
        let sent = tx.send(Ok(server));
        async move {
            match sent {
                Ok(()) => Ok::<_, std::io::Error>(hyper_util::rt::TokioIo::new(client)),
                Err(_) => Err(std::io::Error::new(
                    std::io::ErrorKind::ConnectionRefused,
                    "in-process server is gone",
                )),
            }
        }
    }));
    let channel = match tokio::time::timeout(HANG_AFTER, connect).await {
        Err(_) => return Err(Fail::Hang),
        Ok(Err(e)) => return Err(Fail::Transport(format!("connect: {}", e))),
        Ok(Ok(c)) => c,
    };
    Ok(Ctx {
        app: Arc::new(app),
        push,
        bg: BTreeMap::new(),
        publisher: PublisherClient::new(channel.clone()),
        subscriber: SubscriberClient::new(channel),
        streams: BTreeMap::new(),
        ptimes: Vec::new(),
        acks: Vec::new(),
        held: BTreeMap::new(),
        held_streams: BTreeMap::new(),
        fillers: Vec::new(),
    })
}

/// Lets the runtime settle after an op.
async fn quiesce(ctx: &Ctx) {
    let any_open = ctx
        .streams
        .values()
        .any(|s| s.buf.lock().unwrap().terminal.is_none());
    let rounds = if any_open { 256 } else { 64 };
    for _ in 0..rounds {
        tokio::task::yield_now().await;
    }
}

/// Describes a client-side (transport) failure, if the status is one.
fn transport_failure(status: &Status) -> Option<String> {
    use std::error::Error;
    status.source().map(|src| {
        format!(
            "code {} {}: {}",
            status.code() as i32,
            status.message(),
            src
        )
    })
}

/// Awaits a unary call under the hang timeout. `Ok(Err(code))` is a status
/// returned by the server.
async fn call<T, F>(fut: F) -> Result<Result<T, i32>, Fail>
where
    F: Future<Output = Result<tonic::Response<T>, Status>>,
{
    match tokio::time::timeout(HANG_AFTER, fut).await {
        Err(_) => Err(Fail::Hang),
        Ok(Ok(resp)) => Ok(Ok(resp.into_inner())),
        Ok(Err(status)) => match transport_failure(&status) {
            Some(msg) => Err(Fail::Transport(msg)),
            None => Ok(Err(status.code() as i32)),
        },
    }
}

fn bad(msg: String) -> Fail {
    Fail::Panic(format!("bad op: {}", msg))
}

fn fmt_subscription(s: &Subscription, push: Option<&PushMode>) -> String {
    let endpoint = match &s.push_config {
        None => "~".to_string(),
        Some(pc) => hexs(&canon_endpoint(push, &pc.push_endpoint)),
    };
    format!(
        "{} {} {} {}",
        hexs(&s.name),
        hexs(&s.topic),
        s.ack_deadline_seconds,
        endpoint
    )
}

impl Ctx {
    fn ptrank(&mut self, t: &Option<prost_types::Timestamp>) -> String {
        match t {
            None => "-".to_string(),
            Some(t) => {
                let key = (t.seconds, t.nanos);
                let idx = match self.ptimes.iter().position(|k| *k == key) {
                    Some(i) => i,
                    None => {
                        self.ptimes.push(key);
                        self.ptimes.len() - 1
                    }
                };
                idx.to_string()
            }
        }
    }

    /// Resolves the ack-id references `@k` (k-th most recent) and `^k` (k-th
    /// delivered), modulo the number delivered; "0" when nothing was delivered.
    fn resolve_refs(&self, line: &str) -> String {
        line.split(' ')
            .map(|tok| {
                let (from_end, rest) = if let Some(r) = tok.strip_prefix('@') {
                    (true, r)
                } else if let Some(r) = tok.strip_prefix('^') {
                    (false, r)
                } else {
                    return tok.to_string();
                };
                match rest.parse::<u64>() {
                    Err(_) => tok.to_string(),
                    Ok(k) => {
                        if self.acks.is_empty() {
                            hexs("0")
                        } else {
                            let n = self.acks.len() as u64;
                            let i = k % n;
                            let idx = if from_end { n - 1 - i } else { i };
                            hexs(&self.acks[idx as usize])
                        }
                    }
                }
            })
            .collect::<Vec<_>>()
            .join(" ")
    }

    fn fmt_msg(&mut self, m: &ReceivedMessage) -> String {
        self.acks.push(m.ack_id.clone());
        let empty = PubsubMessage::default();
        let (msg, has) = match &m.message {
            Some(msg) => (msg, true),
            None => (&empty, false),
        };
        let mut attrs: Vec<(&String, &String)> = msg.attributes.iter().collect();
        attrs.sort_by(|a, b| a.0.as_bytes().cmp(b.0.as_bytes()));
        let mut s = format!(
            "{} {} {} {}",
            hexs(&m.ack_id),
            hexs(&msg.message_id),
            hex(&msg.data),
            attrs.len()
        );
        for (k, v) in attrs {
            s.push(' ');
            s.push_str(&hexs(k));
            s.push(' ');
            s.push_str(&hexs(v));
        }
        let rank = if has {
            self.ptrank(&msg.publish_time)
        } else {
            "-".to_string()
        };
        s.push_str(&format!(" {} {}", rank, m.delivery_attempt));
        s
    }

    fn fmt_msgs(&mut self, msgs: &[ReceivedMessage]) -> String {
        let mut s = msgs.len().to_string();
        for m in msgs {
            s.push(' ');
            s.push_str(&self.fmt_msg(m));
        }
        s
    }
}

/// `exec` for a spawned background call (boxed: `exec` mentions itself through `BG`).
fn exec_boxed<'a>(
    ctx: &'a mut Ctx,
    line: String,
) -> std::pin::Pin<Box<dyn std::future::Future<Output = OpResult> + Send + 'a>> {
    Box::pin(async move { exec(ctx, &line).await })
}

/// Executes one op line.
async fn exec(ctx: &mut Ctx, line: &str) -> OpResult {
    let resolved = ctx.resolve_refs(line);
    let line: &str = &resolved;
    let mut t = Toks::new(line);
    let op = t.next().map_err(bad)?;
    match op {
        "BG" => {
            let id = t.next().map_err(bad)?.to_string();
            let inner: String = line.splitn(3, ' ').nth(2).unwrap_or("").to_string();
            let kind = inner.split(' ').next().unwrap_or("").to_string();
            let handle = if kind == "PULL" {
                let mut it = Toks::new(&inner);
                let _ = it.next();
                let subscription = it.str().map_err(bad)?;
                let max_messages: i32 = it.num().map_err(bad)?;
                let ri: i32 = it.num().map_err(bad)?;
                it.end().map_err(bad)?;
                let mut client = ctx.subscriber.clone();
                tokio::spawn(async move {
                    #[allow(deprecated)]
                    let req = PullRequest {
                        subscription,
                        max_messages,
                        return_immediately: ri != 0,
                    };
                    BgOut::Pull(call(client.pull(req)).await)
                })
            } else {
                let mut sub = Ctx {
                    app: Arc::clone(&ctx.app),
                    push: ctx.push.clone(),
                    bg: BTreeMap::new(),
                    publisher: ctx.publisher.clone(),
                    subscriber: ctx.subscriber.clone(),
                    streams: BTreeMap::new(),
                    ptimes: Vec::new(),
                    acks: ctx.acks.clone(),
                    held: BTreeMap::new(),
                    held_streams: BTreeMap::new(),
                    fillers: Vec::new(),
                };
                tokio::spawn(async move { BgOut::Line(exec_boxed(&mut sub, inner).await) })
            };
            ctx.bg.insert(id, handle);
            Ok("BG".to_string())
        }
        "JOIN" => {
            let id = t.next().map_err(bad)?.to_string();
            t.end().map_err(bad)?;
            let finished = ctx.bg.get(&id).map(|h| h.is_finished());
            match finished {
                None | Some(false) => Ok(format!("JOIN {} -", id)),
                Some(true) => {
                    let h = ctx.bg.remove(&id).unwrap();
                    match h.await {
                        Err(e) if e.is_cancelled() => Ok(format!("JOIN {} cancelled", id)),
                        Err(e) => Err(Fail::Panic(format!("background call panicked: {}", e))),
                        Ok(BgOut::Line(r)) => Ok(format!("JOIN {} {}", id, r?)),
                        Ok(BgOut::Pull(r)) => Ok(match r? {
                            Ok(resp) => format!("JOIN {} PULL 0 {}", id, ctx.fmt_msgs(&resp.received_messages)),
                            Err(code) => format!("JOIN {} PULL {}", id, code),
                        }),
                    }
                }
            }
        }
        "CANCEL" => {
            let id = t.next().map_err(bad)?.to_string();
            t.end().map_err(bad)?;
            if let Some(h) = ctx.bg.get(&id) {
                h.abort();
            }
            Ok("CANCEL".to_string())
        }
        "YIELD" => {
            let k: usize = t.num().map_err(bad)?;
            t.end().map_err(bad)?;
            for _ in 0..k {
                tokio::task::yield_now().await;
            }
            Ok("YIELD".to_string())
        }
        "Q" => {
            t.end().map_err(bad)?;
            Ok("Q".to_string())
        }
        "SEQ" => {
            // SEQ <op> ;; <op> ;; ... : the ops one after the other in this task, without letting the
            // runtime settle in between (a client that acts on a response at once).
            let rest = line.splitn(2, ' ').nth(1).unwrap_or("");
            let mut out = Vec::new();
            for part in rest.split(" ;; ") {
                out.push(exec_boxed(ctx, part.to_string()).await?);
            }
            Ok(format!("SEQ {}", out.join(" ;; ")))
        }
        // The push-mode ops do not exist outside push mode (they are unknown ops there).
        "MODE" if ctx.push.is_some() => {
            let mode = t.next().map_err(bad)?;
            t.end().map_err(bad)?;
            if mode != "push" {
                return Err(bad(format!("unknown mode '{}'", mode)));
            }
            Ok("MODE".to_string())
        }
        "EP" if ctx.push.is_some() => {
            let push = ctx
                .push
                .as_ref()
                .ok_or_else(|| bad("EP: push mode only".into()))?;
            let k: usize = t.num().map_err(bad)?;
            if k > 9 {
                return Err(bad(format!("EP: no endpoint {}", k)));
            }
            let n: usize = t.num().map_err(bad)?;
            let mut outcomes = Vec::with_capacity(n);
            for _ in 0..n {
                let tok = t.next().map_err(bad)?;
                outcomes.push(match tok {
                    "reset" => Outcome::Reset,
                    "hang" => Outcome::Hang,
                    _ if tok.starts_with("slow") => match tok[4..].parse::<u16>() {
                        Ok(s) if (200..1000).contains(&s) => Outcome::Slow(s),
                        _ => return Err(bad(format!("EP: bad outcome '{}'", tok))),
                    },
                    _ if tok.starts_with("late") => match tok[4..].parse::<u16>() {
                        Ok(s) if (200..1000).contains(&s) => Outcome::Late(s),
                        _ => return Err(bad(format!("EP: bad outcome '{}'", tok))),
                    },
                    _ => match tok.parse::<u16>() {
                        // hyper cannot send a 1xx status as the final answer (it would
                        // put a 500 on the wire), so those are not accepted.
                        Ok(s) if (200..1000).contains(&s) => Outcome::Status(s),
                        _ => return Err(bad(format!("EP: bad outcome '{}'", tok))),
                    },
                });
            }
            t.end().map_err(bad)?;
            push.shared.lock().unwrap().scripts[k].extend(outcomes);
            Ok("EP".to_string())
        }
        "ROUND" if ctx.push.is_some() => {
            t.end().map_err(bad)?;
            let push = ctx
                .push
                .clone()
                .ok_or_else(|| bad("ROUND: push mode only".into()))?;
            let (_, manager, registry) = ctx.app.verif_parts();
            let mut entries: Vec<(String, _, _)> = registry
                .entries()
                .into_iter()
                .map(|(name, pc)| (name.to_string(), name, pc))
                .collect();
            entries.sort_by(|a, b| a.0.as_bytes().cmp(b.0.as_bytes()));
            for (_, name, push_config) in entries {
                let subscription = match manager.get_subscription(&name) {
                    Ok(s) => s,
                    Err(_) => continue,
                };
                // A pass that does not finish (a `hang` outcome) is abandoned.
                let _ = tokio::time::timeout(
                    Duration::from_secs(20),
                    deltio::push::push_loop::verif_pull_and_dispatch(
                        subscription,
                        push_config,
                        push.client.clone(),
                    ),
                )
                .await;
            }
            for _ in 0..16 {
                tokio::task::yield_now().await;
            }
            let posts = std::mem::take(&mut push.shared.lock().unwrap().posts);
            let mut s = format!("ROUND {}", posts.len());
            for rec in &posts {
                s.push(' ');
                s.push_str(&fmt_post(rec));
            }
            Ok(s)
        }
        "LOOP" if ctx.push.is_some() => {
            let interval_ms: u64 = t.num().map_err(bad)?;
            let rounds: u64 = t.num().map_err(bad)?;
            t.end().map_err(bad)?;
            let push = ctx
                .push
                .clone()
                .ok_or_else(|| bad("LOOP: push mode only".into()))?;
            let lp = ctx.app.push_loop(Duration::from_millis(interval_ms));
            let h = tokio::spawn(lp.run());
            tokio::time::sleep(Duration::from_millis(
                interval_ms.saturating_mul(rounds).saturating_add(interval_ms / 2),
            ))
            .await;
            h.abort();
            // dispatches the loop has started are detached tasks: give them (real) time to finish, so that their
            // POSTs and acknowledgements belong to this LOOP and not to whatever comes next
            tokio::time::sleep(Duration::from_millis(150)).await;
            for _ in 0..16 {
                tokio::task::yield_now().await;
            }
            let posts = std::mem::take(&mut push.shared.lock().unwrap().posts);
            // per subscription: number of POSTs and the distinct message ids
            let mut groups: BTreeMap<String, (usize, BTreeSet<String>)> = BTreeMap::new();
            let mut badjson = 0usize;
            for rec in &posts {
                match parse_post(&rec.body) {
                    None => badjson += 1,
                    Some(p) => {
                        let g = groups.entry(p.subscription).or_default();
                        g.0 += 1;
                        g.1.insert(p.message_id);
                    }
                }
            }
            let n = groups.len() + if badjson > 0 { 1 } else { 0 };
            let mut s = format!("LOOP {}", n);
            for (name, (count, ids)) in &groups {
                s.push_str(&format!(" {} {} {}", hexs(name), count, ids.len()));
                for id in ids {
                    s.push(' ');
                    s.push_str(&hexs(id));
                }
            }
            if badjson > 0 {
                s.push_str(&format!(" !badjson {} 0", badjson));
            }
            Ok(s)
        }
        "LOOPDEL" if ctx.push.is_some() => {
            // LOOPDEL <interval_ms> <subscription> <after_posts> <grace_ms>: the real push loop runs; once
            // <after_posts> POSTs have arrived the subscription is deleted over gRPC; the POSTs that arrive after
            // the deletion was answered are counted for <grace_ms> more.
            let interval_ms: u64 = t.num().map_err(bad)?;
            let subscription = t.str().map_err(bad)?;
            let after_posts: usize = t.num().map_err(bad)?;
            let grace_ms: u64 = t.num().map_err(bad)?;
            t.end().map_err(bad)?;
            let push = ctx
                .push
                .clone()
                .ok_or_else(|| bad("LOOPDEL: push mode only".into()))?;
            let lp = ctx.app.push_loop(Duration::from_millis(interval_ms));
            let h = tokio::spawn(lp.run());
            let started = std::time::Instant::now();
            while push.shared.lock().unwrap().posts.len() < after_posts
                && started.elapsed() < Duration::from_secs(5)
            {
                tokio::time::sleep(Duration::from_millis(1)).await;
            }
            let status = match call(
                ctx.subscriber
                    .delete_subscription(DeleteSubscriptionRequest { subscription }),
            )
            .await?
            {
                Ok(()) => 0,
                Err(code) => code,
            };
            let before = push.shared.lock().unwrap().posts.len();
            tokio::time::sleep(Duration::from_millis(grace_ms)).await;
            h.abort();
            for _ in 0..16 {
                tokio::task::yield_now().await;
            }
            let posts = std::mem::take(&mut push.shared.lock().unwrap().posts);
            Ok(format!("LOOPDEL {} {} {}", status, before, posts.len() - before))
        }
        "SEED" => {
            let _: u64 = t.num().map_err(bad)?;
            t.end().map_err(bad)?;
            Ok("SEED".to_string())
        }
        "CT" => {
            let name = t.str().map_err(bad)?;
            t.end().map_err(bad)?;
            let req = Topic {
                name,
                ..Default::default()
            };
            Ok(match call(ctx.publisher.create_topic(req)).await? {
                Ok(topic) => format!("CT 0 {}", hexs(&topic.name)),
                Err(code) => format!("CT {}", code),
            })
        }
        "GT" => {
            let topic = t.str().map_err(bad)?;
            t.end().map_err(bad)?;
            Ok(
                match call(ctx.publisher.get_topic(GetTopicRequest { topic })).await? {
                    Ok(topic) => format!("GT 0 {}", hexs(&topic.name)),
                    Err(code) => format!("GT {}", code),
                },
            )
        }
        "DT" => {
            let topic = t.str().map_err(bad)?;
            t.end().map_err(bad)?;
            Ok(
                match call(ctx.publisher.delete_topic(DeleteTopicRequest { topic })).await? {
                    Ok(()) => "DT 0".to_string(),
                    Err(code) => format!("DT {}", code),
                },
            )
        }
        "LT" => {
            let project = t.str().map_err(bad)?;
            let page_size: i32 = t.num().map_err(bad)?;
            let page_token = t.str().map_err(bad)?;
            t.end().map_err(bad)?;
            let req = ListTopicsRequest {
                project,
                page_size,
                page_token,
            };
            Ok(match call(ctx.publisher.list_topics(req)).await? {
                Ok(resp) => {
                    let mut s = format!("LT 0 {}", resp.topics.len());
                    for topic in &resp.topics {
                        s.push(' ');
                        s.push_str(&hexs(&topic.name));
                    }
                    s.push(' ');
                    s.push_str(&hexs(&resp.next_page_token));
                    s
                }
                Err(code) => format!("LT {}", code),
            })
        }
        "LTS" => {
            let topic = t.str().map_err(bad)?;
            let page_size: i32 = t.num().map_err(bad)?;
            let page_token = t.str().map_err(bad)?;
            t.end().map_err(bad)?;
            let req = ListTopicSubscriptionsRequest {
                topic,
                page_size,
                page_token,
            };
            Ok(
                match call(ctx.publisher.list_topic_subscriptions(req)).await? {
                    Ok(resp) => {
                        let mut s = format!("LTS 0 {}", resp.subscriptions.len());
                        for name in &resp.subscriptions {
                            s.push(' ');
                            s.push_str(&hexs(name));
                        }
                        s.push(' ');
                        s.push_str(&hexs(&resp.next_page_token));
                        s
                    }
                    Err(code) => format!("LTS {}", code),
                },
            )
        }
        "CS" => {
            let name = t.str().map_err(bad)?;
            let topic = t.str().map_err(bad)?;
            let ack_deadline_seconds: i32 = t.num().map_err(bad)?;
            let endpoint_tok = t.next().map_err(bad)?;
            let push_config = if endpoint_tok == "~" {
                None
            } else {
                let given = crate::util::unhexs(endpoint_tok).map_err(bad)?;
                Some(PushConfig {
                    push_endpoint: match &ctx.push {
                        Some(p) => p.to_local(&given),
                        None => given,
                    },
                    attributes: HashMap::new(),
                    authentication_method: None,
                })
            };
            t.end().map_err(bad)?;
            let req = Subscription {
                name,
                topic,
                ack_deadline_seconds,
                push_config,
                ..Default::default()
            };
            Ok(match call(ctx.subscriber.create_subscription(req)).await? {
                Ok(sub) => format!("CS 0 {}", fmt_subscription(&sub, ctx.push.as_ref())),
                Err(code) => format!("CS {}", code),
            })
        }
        "GS" => {
            let subscription = t.str().map_err(bad)?;
            t.end().map_err(bad)?;
            let req = GetSubscriptionRequest { subscription };
            Ok(match call(ctx.subscriber.get_subscription(req)).await? {
                Ok(sub) => format!("GS 0 {}", fmt_subscription(&sub, ctx.push.as_ref())),
                Err(code) => format!("GS {}", code),
            })
        }
        "DS" => {
            let subscription = t.str().map_err(bad)?;
            t.end().map_err(bad)?;
            let req = DeleteSubscriptionRequest { subscription };
            Ok(match call(ctx.subscriber.delete_subscription(req)).await? {
                Ok(()) => "DS 0".to_string(),
                Err(code) => format!("DS {}", code),
            })
        }
        "LS" => {
            let project = t.str().map_err(bad)?;
            let page_size: i32 = t.num().map_err(bad)?;
            let page_token = t.str().map_err(bad)?;
            t.end().map_err(bad)?;
            let req = ListSubscriptionsRequest {
                project,
                page_size,
                page_token,
            };
            Ok(match call(ctx.subscriber.list_subscriptions(req)).await? {
                Ok(resp) => {
                    let mut s = format!("LS 0 {}", resp.subscriptions.len());
                    for sub in &resp.subscriptions {
                        s.push(' ');
                        s.push_str(&fmt_subscription(sub, ctx.push.as_ref()));
                    }
                    s.push(' ');
                    s.push_str(&hexs(&resp.next_page_token));
                    s
                }
                Err(code) => format!("LS {}", code),
            })
        }
        "PUB" => {
            let topic = t.str().map_err(bad)?;
            let k: usize = t.num().map_err(bad)?;
            let mut messages = Vec::new();
            for _ in 0..k {
                let data = t.bytes().map_err(bad)?;
                let na: usize = t.num().map_err(bad)?;
                let mut attributes = HashMap::new();
                for _ in 0..na {
                    let key = t.str().map_err(bad)?;
                    let val = t.str().map_err(bad)?;
                    attributes.insert(key, val);
                }
                messages.push(PubsubMessage {
                    data,
                    attributes,
                    message_id: String::new(),
                    publish_time: None,
                    ordering_key: String::new(),
                });
            }
            t.end().map_err(bad)?;
            let req = PublishRequest { topic, messages };
            Ok(match call(ctx.publisher.publish(req)).await? {
                Ok(resp) => {
                    let mut s = format!("PUB 0 {}", resp.message_ids.len());
                    for id in &resp.message_ids {
                        s.push(' ');
                        s.push_str(&hexs(id));
                    }
                    s
                }
                Err(code) => format!("PUB {}", code),
            })
        }
        "PUBN" => {
            let topic = t.str().map_err(bad)?;
            let k: usize = t.num().map_err(bad)?;
            let data = t.bytes().map_err(bad)?;
            t.end().map_err(bad)?;
            let messages = (0..k)
                .map(|_| PubsubMessage {
                    data: data.clone(),
                    attributes: HashMap::new(),
                    message_id: String::new(),
                    publish_time: None,
                    ordering_key: String::new(),
                })
                .collect();
            let req = PublishRequest { topic, messages };
            Ok(match call(ctx.publisher.publish(req)).await? {
                Ok(resp) => {
                    let mut s = format!("PUB 0 {}", resp.message_ids.len());
                    for id in &resp.message_ids {
                        s.push(' ');
                        s.push_str(&hexs(id));
                    }
                    s
                }
                Err(code) => format!("PUB {}", code),
            })
        }
        "PUBK" => {
            // PUBK <topic> <k> (<data> <ordering key>){k}: Publish of k messages that carry ordering keys
            let topic = t.str().map_err(bad)?;
            let k: usize = t.num().map_err(bad)?;
            let mut messages = Vec::with_capacity(k);
            for _ in 0..k {
                let data = t.bytes().map_err(bad)?;
                let key = t.str().map_err(bad)?;
                messages.push(PubsubMessage {
                    data,
                    attributes: HashMap::new(),
                    message_id: String::new(),
                    publish_time: None,
                    ordering_key: key,
                });
            }
            t.end().map_err(bad)?;
            let req = PublishRequest { topic, messages };
            Ok(match call(ctx.publisher.publish(req)).await? {
                Ok(resp) => {
                    let mut s = format!("PUB 0 {}", resp.message_ids.len());
                    for id in &resp.message_ids {
                        s.push(' ');
                        s.push_str(&hexs(id));
                    }
                    s
                }
                Err(code) => format!("PUB {}", code),
            })
        }
        "PULL" => {
            let subscription = t.str().map_err(bad)?;
            let max_messages: i32 = t.num().map_err(bad)?;
            let ri: i32 = t.num().map_err(bad)?;
            t.end().map_err(bad)?;
            #[allow(deprecated)]
            let req = PullRequest {
                subscription,
                max_messages,
                return_immediately: ri != 0,
            };
            Ok(match call(ctx.subscriber.pull(req)).await? {
                Ok(resp) => format!("PULL 0 {}", ctx.fmt_msgs(&resp.received_messages)),
                Err(code) => format!("PULL {}", code),
            })
        }
        "ACK" => {
            let subscription = t.str().map_err(bad)?;
            let n: usize = t.num().map_err(bad)?;
            let ack_ids = t.strs(n).map_err(bad)?;
            t.end().map_err(bad)?;
            let req = AcknowledgeRequest {
                subscription,
                ack_ids,
            };
            Ok(match call(ctx.subscriber.acknowledge(req)).await? {
                Ok(()) => "ACK 0".to_string(),
                Err(code) => format!("ACK {}", code),
            })
        }
        "LACK" => {
            // LACK <sub> <adv_ns> <n> <ackid>{n}: library level: one acknowledge_messages call per id, each awaited until
            // it has returned; then, with nothing run in between, the clock is advanced by adv_ns.
            let sub_name = t.str().map_err(bad)?;
            let ns: u64 = t.num().map_err(bad)?;
            let n: usize = t.num().map_err(bad)?;
            let ids = t.strs(n).map_err(bad)?;
            t.end().map_err(bad)?;
            let (_, sm, _) = ctx.app.verif_parts();
            let sub = SubscriptionName::try_parse(&sub_name)
                .and_then(|n| sm.get_subscription(&n).ok())
                .ok_or_else(|| bad("LACK: no such subscription".into()))?;
            let mut ok = 0usize;
            for id in ids {
                let ack = deltio::subscriptions::AckId::parse(&id).map_err(|_| bad("LACK: bad ack id".into()))?;
                if sub.acknowledge_messages(vec![ack]).await.is_ok() {
                    ok += 1;
                }
            }
            tokio::time::advance(Duration::from_nanos(ns)).await;
            Ok(format!("LACK {}", ok))
        }
        "MOD" => {
            let subscription = t.str().map_err(bad)?;
            let ack_deadline_seconds: i32 = t.num().map_err(bad)?;
            let n: usize = t.num().map_err(bad)?;
            let ack_ids = t.strs(n).map_err(bad)?;
            t.end().map_err(bad)?;
            let req = ModifyAckDeadlineRequest {
                subscription,
                ack_ids,
                ack_deadline_seconds,
            };
            Ok(match call(ctx.subscriber.modify_ack_deadline(req)).await? {
                Ok(()) => "MOD 0".to_string(),
                Err(code) => format!("MOD {}", code),
            })
        }
        "ADV" => {
            let ns: u64 = t.num().map_err(bad)?;
            t.end().map_err(bad)?;
            if ctx.push.is_some() {
                // real clock in push mode
                tokio::time::sleep(Duration::from_nanos(ns)).await;
            } else {
                tokio::time::advance(Duration::from_nanos(ns)).await;
            }
            Ok("ADV".to_string())
        }
        "STATS" => {
            let name = t.str().map_err(bad)?;
            t.end().map_err(bad)?;
            let parsed = match SubscriptionName::try_parse(&name) {
                None => return Ok("STATS 3".to_string()),
                Some(n) => n,
            };
            let (_, manager, _) = ctx.app.verif_parts();
            let sub = match manager.get_subscription(&parsed) {
                Err(_) => return Ok("STATS 5".to_string()),
                Ok(s) => s,
            };
            match tokio::time::timeout(HANG_AFTER, sub.get_stats()).await {
                Err(_) => Err(Fail::Hang),
                Ok(Err(_)) => Ok("STATS 9".to_string()),
                Ok(Ok(stats)) => Ok(format!(
                    "STATS 0 {} {} {}",
                    stats.outstanding_messages_count,
                    stats.backlog_messages_count,
                    hexs(&stats.topic_name.to_string())
                )),
            }
        }
        "XC" => {
            // XC <kind> <k> <y> <fill> <args..>: a library-level call whose future is polled k times
            // (y yields in between) and then dropped, with the target actor's mailbox pre-filled by
            // `fill` pending requests (each polled once, so it sits in the mailbox or waits for room).
            use deltio::subscriptions::{AckId, SubscriptionInfo};
            use deltio::topics::{TopicMessage, TopicName};
            use std::pin::Pin;
            type Fut = Pin<Box<dyn Future<Output = ()> + Send>>;
            let kind = t.next().map_err(bad)?.to_string();
            let k: usize = t.num().map_err(bad)?;
            let y: usize = t.num().map_err(bad)?;
            let fill: usize = t.num().map_err(bad)?;
            let (tm, sm, _) = ctx.app.verif_parts();
            let get_topic = |n: &str| TopicName::try_parse(n).and_then(|n| tm.get_topic(&n).ok());
            let get_sub = |n: &str| SubscriptionName::try_parse(n).and_then(|n| sm.get_subscription(&n).ok());
            // what to call, and whose mailbox to saturate
            let (target, fill_topic, fill_sub): (Fut, _, _) = match kind.as_str() {
                "CS" => {
                    let sub_name = t.str().map_err(bad)?;
                    let topic_name = t.str().map_err(bad)?;
                    let ackdl: u64 = t.num().map_err(bad)?;
                    // optional: a push endpoint (the subscription is created as a push subscription)
                    let push_config = match t.opt_str().map_err(bad)? {
                        None => None,
                        Some(ep) => Some(
                            deltio::verif::parse_push_config(&deltio::pubsub_proto::PushConfig {
                                push_endpoint: ep,
                                ..Default::default()
                            })
                            .map_err(|_| bad("XC: bad endpoint".into()))?,
                        ),
                    };
                    let topic = get_topic(&topic_name).ok_or_else(|| bad("XC: no such topic".into()))?;
                    let name = SubscriptionName::try_parse(&sub_name).ok_or_else(|| bad("XC: bad name".into()))?;
                    let info = SubscriptionInfo::new(name, Duration::from_secs(ackdl.max(10)), push_config);
                    let sm2 = Arc::clone(&sm);
                    let topic2 = Arc::clone(&topic);
                    (Box::pin(async move { let _ = sm2.create_subscription(info, topic2).await; }), Some(topic), None)
                }
                "PUB" | "DT" | "PUBS" => {
                    let topic_name = t.str().map_err(bad)?;
                    let topic = get_topic(&topic_name).ok_or_else(|| bad("XC: no such topic".into()))?;
                    let topic2 = Arc::clone(&topic);
                    let fut: Fut = if kind != "DT" {
                        let data = t.bytes().map_err(bad)?;
                        Box::pin(async move {
                            let _ = topic2.publish_messages(vec![TopicMessage::new(data.into(), None)]).await;
                        })
                    } else {
                        Box::pin(async move { let _ = topic2.delete().await; })
                    };
                    if kind == "PUBS" {
                        // the Publish meets a saturated mailbox of ONE of the topic's subscriptions
                        let sub_name = t.str().map_err(bad)?;
                        let sub = get_sub(&sub_name).ok_or_else(|| bad("XC: no such subscription".into()))?;
                        (fut, None, Some(sub))
                    } else {
                        (fut, Some(topic), None)
                    }
                }
                "DST" => {
                    // DeleteSubscription with the mailbox of its TOPIC saturated (the deletion waits for the topic)
                    let sub_name = t.str().map_err(bad)?;
                    let topic_name = t.str().map_err(bad)?;
                    let sub = get_sub(&sub_name).ok_or_else(|| bad("XC: no such subscription".into()))?;
                    let topic = get_topic(&topic_name).ok_or_else(|| bad("XC: no such topic".into()))?;
                    (Box::pin(async move { let _ = sub.delete().await; }), Some(topic), None)
                }
                "ACKN" => {
                    // Acknowledge of the ack ids <from> .. <from>+<n>-1 in ONE call (a request too large for any
                    // internal batching to hide)
                    let sub_name = t.str().map_err(bad)?;
                    let from: u64 = t.num().map_err(bad)?;
                    let n: u64 = t.num().map_err(bad)?;
                    let sub = get_sub(&sub_name).ok_or_else(|| bad("XC: no such subscription".into()))?;
                    let sub2 = Arc::clone(&sub);
                    let mut ids = Vec::new();
                    for v in from..from + n {
                        ids.push(AckId::parse(&v.to_string()).map_err(|_| bad("XC: bad ack id".into()))?);
                    }
                    (Box::pin(async move { let _ = sub2.acknowledge_messages(ids).await; }), None, Some(sub))
                }
                "DS" | "PULL" | "ACK" => {
                    let sub_name = t.str().map_err(bad)?;
                    let sub = get_sub(&sub_name).ok_or_else(|| bad("XC: no such subscription".into()))?;
                    let sub2 = Arc::clone(&sub);
                    let fut: Fut = match kind.as_str() {
                        "DS" => Box::pin(async move { let _ = sub2.delete().await; }),
                        "PULL" => {
                            let max: u16 = t.num().map_err(bad)?;
                            Box::pin(async move { let _ = sub2.pull_messages(max).await; })
                        }
                        _ => {
                            let id = t.str().map_err(bad)?;
                            let ack = AckId::parse(&id).map_err(|_| bad("XC: bad ack id".into()))?;
                            Box::pin(async move { let _ = sub2.acknowledge_messages(vec![ack]).await; })
                        }
                    };
                    (fut, None, Some(sub))
                }
                other => return Err(bad(format!("XC: unknown kind {}", other))),
            };
            t.end().map_err(bad)?;
            let mut fillers: Vec<Fut> = Vec::new();
            for _ in 0..fill {
                if let Some(topic) = &fill_topic {
                    let topic = Arc::clone(topic);
                    fillers.push(Box::pin(async move {
                        let _ = topic.list_subscriptions(deltio::paging::Paging::start(1)).await;
                    }));
                }
                if let Some(sub) = &fill_sub {
                    let sub = Arc::clone(sub);
                    fillers.push(Box::pin(async move { let _ = sub.get_stats().await; }));
                }
            }
            for f in fillers.iter_mut() {
                let _ = futures::poll!(f.as_mut());
            }
            let mut target = target;
            let mut done = false;
            for i in 0..k {
                if futures::poll!(target.as_mut()).is_ready() {
                    done = true;
                    break;
                }
                if i + 1 < k {
                    for _ in 0..y {
                        tokio::task::yield_now().await;
                    }
                }
            }
            drop(target);
            // the fillers are ordinary requests: let them finish
            for mut f in fillers {
                let _ = tokio::time::timeout(HANG_AFTER, f.as_mut()).await;
            }
            Ok(format!("XC {}", if done { "done" } else { "dropped" }))
        }
        "XDT" => {
            // XDT <topic>: library level: two holders of the topic's handle (two DeleteTopic handlers that have both
            // looked the name up); the first deletes, the name is created again, then the second deletes.
            use deltio::topics::TopicName;
            let topic_name = t.str().map_err(bad)?;
            t.end().map_err(bad)?;
            let (tm, _, _) = ctx.app.verif_parts();
            let name = TopicName::try_parse(&topic_name).ok_or_else(|| bad("XDT: bad name".into()))?;
            let h1 = tm.get_topic(&name).map_err(|_| bad("XDT: no such topic".into()))?;
            let h2 = tm.get_topic(&name).map_err(|_| bad("XDT: no such topic".into()))?;
            let r1 = tokio::time::timeout(HANG_AFTER, h1.delete()).await.map_err(|_| Fail::Hang)?.is_ok();
            let c = tm.create_topic(name.clone()).is_ok();
            let r2 = tokio::time::timeout(HANG_AFTER, h2.delete()).await.map_err(|_| Fail::Hang)?.is_ok();
            let f = |b: bool| if b { "ok" } else { "err" };
            Ok(format!("XDT {} {} {}", f(r1), f(c), f(r2)))
        }
        "XD2" => {
            // XD2 <k> <y> <fill> <sub> <topic>: two overlapping DeleteSubscription calls at library level. The topic's
            // mailbox is pre-filled with `fill` pending requests; delete #1 is polled k times with y scheduler rounds
            // after each poll (so that the subscription's actor has started the deletion and waits for the topic);
            // then delete #2 is polled ONCE. Reported: whether #2 has answered already, and whether the manager
            // still has the subscription at that very moment. Then both run to completion.
            use deltio::topics::TopicName;
            use std::pin::Pin;
            type Fut = Pin<Box<dyn Future<Output = bool> + Send>>;
            let k: usize = t.num().map_err(bad)?;
            let y: usize = t.num().map_err(bad)?;
            let fill: usize = t.num().map_err(bad)?;
            let sub_name = t.str().map_err(bad)?;
            let topic_name = t.str().map_err(bad)?;
            t.end().map_err(bad)?;
            let (tm, sm, _) = ctx.app.verif_parts();
            let parsed = SubscriptionName::try_parse(&sub_name).ok_or_else(|| bad("XD2: bad name".into()))?;
            let sub = sm.get_subscription(&parsed).map_err(|_| bad("XD2: no such subscription".into()))?;
            let topic = TopicName::try_parse(&topic_name)
                .and_then(|n| tm.get_topic(&n).ok())
                .ok_or_else(|| bad("XD2: no such topic".into()))?;
            let mut fillers: Vec<Pin<Box<dyn Future<Output = ()> + Send>>> = Vec::new();
            for _ in 0..fill {
                let topic = Arc::clone(&topic);
                fillers.push(Box::pin(async move {
                    let _ = topic.list_subscriptions(deltio::paging::Paging::start(1)).await;
                }));
            }
            for f in fillers.iter_mut() {
                let _ = futures::poll!(f.as_mut());
            }
            let s1 = Arc::clone(&sub);
            let mut d1: Fut = Box::pin(async move { s1.delete().await.is_ok() });
            let mut first_done = None;
            for _ in 0..k {
                if let std::task::Poll::Ready(ok) = futures::poll!(d1.as_mut()) {
                    first_done = Some(ok);
                    break;
                }
                for _ in 0..y {
                    tokio::task::yield_now().await;
                }
            }
            let s2 = Arc::clone(&sub);
            let mut d2: Fut = Box::pin(async move { s2.delete().await.is_ok() });
            let second = futures::poll!(d2.as_mut());
            let present = sm.get_subscription(&parsed).is_ok();
            let second_txt = match second {
                std::task::Poll::Ready(true) => "ok",
                std::task::Poll::Ready(false) => "err",
                std::task::Poll::Pending => "pending",
            };
            if first_done.is_none() {
                let _ = tokio::time::timeout(HANG_AFTER, d1.as_mut()).await;
            }
            if second.is_pending() {
                let _ = tokio::time::timeout(HANG_AFTER, d2.as_mut()).await;
            }
            for mut f in fillers {
                let _ = tokio::time::timeout(HANG_AFTER, f.as_mut()).await;
            }
            Ok(format!(
                "XD2 first={} second={} {}",
                match first_done {
                    Some(true) => "ok",
                    Some(false) => "err",
                    None => "pending",
                },
                second_txt,
                if present { "present" } else { "gone" }
            ))
        }
        "XS" => {
            // XS <id> <sub> <max>: the server's own StreamingPull handler, called without the transport: the request
            // body is a channel into which the initial request is put as one gRPC frame; the handler is awaited
            // (it only reads that frame) and the response stream is kept, not polled.
            use deltio::pubsub_proto::subscriber_server::Subscriber;
            use prost::Message;
            use tonic::codec::Codec;
            let id = t.next().map_err(bad)?.to_string();
            let sub_name = t.str().map_err(bad)?;
            let max: i64 = t.num().map_err(bad)?;
            t.end().map_err(bad)?;
            let (tm, sm, _) = ctx.app.verif_parts();
            let svc = deltio::verif::subscriber_service(tm, sm);
            let first = StreamingPullRequest {
                subscription: sub_name,
                max_outstanding_messages: max,
                stream_ack_deadline_seconds: 10,
                ..Default::default()
            };
            let payload = first.encode_to_vec();
            let mut frame = Vec::with_capacity(5 + payload.len());
            frame.push(0u8);
            frame.extend_from_slice(&(payload.len() as u32).to_be_bytes());
            frame.extend_from_slice(&payload);
            let (tx, rx) = mpsc::unbounded_channel::<Result<http_body::Frame<bytes::Bytes>, Status>>();
            let _ = tx.send(Ok(http_body::Frame::data(bytes::Bytes::from(frame))));
            let body = http_body_util::StreamBody::new(UnboundedReceiverStream::new(rx));
            let mut codec =
                tonic::codec::ProstCodec::<deltio::pubsub_proto::StreamingPullResponse, StreamingPullRequest>::default();
            let streaming = tonic::Streaming::new_request(codec.decoder(), body, None, None);
            let mut call = Box::pin(async move { svc.streaming_pull(tonic::Request::new(streaming)).await });
            let mut opened = None;
            for _ in 0..8 {
                if let std::task::Poll::Ready(r) = futures::poll!(call.as_mut()) {
                    opened = Some(r);
                    break;
                }
            }
            match opened {
                Some(Ok(resp)) => {
                    let stream: HeldStream = Box::pin(resp.into_inner());
                    ctx.held_streams.insert(id, (stream, tx));
                    Ok("XS".to_string())
                }
                Some(Err(st)) => Ok(format!("XS {}", st.code() as i32)),
                None => Err(bad("XS: the handler did not return its stream".into())),
            }
        }
        "XN" => {
            // XN <id> <sub> <max>: the unary Pull handler (blocking form) is created, not polled.
            use deltio::pubsub_proto::subscriber_server::Subscriber;
            let id = t.next().map_err(bad)?.to_string();
            let sub_name = t.str().map_err(bad)?;
            let max: i32 = t.num().map_err(bad)?;
            t.end().map_err(bad)?;
            let (tm, sm, _) = ctx.app.verif_parts();
            let sub = SubscriptionName::try_parse(&sub_name)
                .and_then(|n| sm.get_subscription(&n).ok())
                .ok_or_else(|| bad("XN: no such subscription".into()))?;
            let svc = deltio::verif::subscriber_service(tm, sm);
            #[allow(deprecated)]
            let req = PullRequest {
                subscription: sub_name,
                max_messages: max,
                return_immediately: false,
            };
            let fut: HeldPull = Box::pin(async move { svc.pull(tonic::Request::new(req)).await });
            ctx.held.insert(id, (fut, sub));
            Ok("XN".to_string())
        }
        "XQ" => {
            // XQ <id>: one poll of the held handler; nothing else runs.
            let id = t.next().map_err(bad)?.to_string();
            t.end().map_err(bad)?;
            if let Some((stream, _)) = ctx.held_streams.get_mut(&id) {
                use tokio_stream::StreamExt;
                let mut next = std::pin::pin!(stream.next());
                return Ok(match futures::poll!(next.as_mut()) {
                    std::task::Poll::Pending => "XQ pending".to_string(),
                    std::task::Poll::Ready(Some(Ok(resp))) => format!("XQ batch {}", resp.received_messages.len()),
                    std::task::Poll::Ready(Some(Err(_))) | std::task::Poll::Ready(None) => {
                        ctx.held_streams.remove(&id);
                        "XQ done err".to_string()
                    }
                });
            }
            let (fut, _) = match ctx.held.get_mut(&id) {
                Some(x) => x,
                None => return Ok("XQ gone".to_string()),
            };
            match futures::poll!(fut.as_mut()) {
                std::task::Poll::Pending => Ok("XQ pending".to_string()),
                std::task::Poll::Ready(r) => {
                    ctx.held.remove(&id);
                    Ok(match r {
                        Ok(resp) => format!("XQ done 0 {}", resp.into_inner().received_messages.len()),
                        Err(_) => "XQ done err".to_string(),
                    })
                }
            }
        }
        "XD" => {
            // XD <id>: the held handler is dropped where it stands.
            let id = t.next().map_err(bad)?.to_string();
            t.end().map_err(bad)?;
            if ctx.held_streams.remove(&id).is_some() {
                return Ok("XD".to_string());
            }
            Ok(match ctx.held.remove(&id) {
                Some(_) => "XD".to_string(),
                None => "XD gone".to_string(),
            })
        }
        "XF" => {
            // XF <sub> <n>: n GetStats requests are put into the subscription's mailbox (each polled once);
            // they are answered when the runtime runs (XT or any op that settles).
            let sub_name = t.str().map_err(bad)?;
            let n: usize = t.num().map_err(bad)?;
            t.end().map_err(bad)?;
            let (_, sm, _) = ctx.app.verif_parts();
            let sub = SubscriptionName::try_parse(&sub_name)
                .and_then(|n| sm.get_subscription(&n).ok())
                .ok_or_else(|| bad("XF: no such subscription".into()))?;
            for _ in 0..n {
                let sub = Arc::clone(&sub);
                let mut f: std::pin::Pin<Box<dyn Future<Output = ()> + Send>> =
                    Box::pin(async move { let _ = sub.get_stats().await; });
                let _ = futures::poll!(f.as_mut());
                ctx.fillers.push(f);
            }
            Ok("XF".to_string())
        }
        "XT" => {
            // XT: the runtime runs until it is idle (the loop in run_ops settles after this op); the
            // fillers are ordinary requests and finish here.
            t.end().map_err(bad)?;
            for _ in 0..64 {
                tokio::task::yield_now().await;
            }
            for mut f in std::mem::take(&mut ctx.fillers) {
                let _ = tokio::time::timeout(HANG_AFTER, f.as_mut()).await;
            }
            Ok("XT".to_string())
        }
        "XH" => {
            // XH <id> <sub> <max>: the server's own unary Pull handler (blocking form), called without the
            // transport and polled by this task until it waits; it stays suspended until `XP`.
            use deltio::pubsub_proto::subscriber_server::Subscriber;
            let id = t.next().map_err(bad)?.to_string();
            let sub_name = t.str().map_err(bad)?;
            let max: i32 = t.num().map_err(bad)?;
            t.end().map_err(bad)?;
            let (tm, sm, _) = ctx.app.verif_parts();
            let sub = SubscriptionName::try_parse(&sub_name)
                .and_then(|n| sm.get_subscription(&n).ok())
                .ok_or_else(|| bad("XH: no such subscription".into()))?;
            let svc = deltio::verif::subscriber_service(tm, sm);
            #[allow(deprecated)]
            let req = PullRequest {
                subscription: sub_name,
                max_messages: max,
                return_immediately: false,
            };
            let mut fut: HeldPull = Box::pin(async move { svc.pull(tonic::Request::new(req)).await });
            let mut ready = false;
            for _ in 0..4 {
                if futures::poll!(fut.as_mut()).is_ready() {
                    ready = true;
                    break;
                }
                for _ in 0..32 {
                    tokio::task::yield_now().await;
                }
            }
            if !ready {
                ctx.held.insert(id, (fut, sub));
            }
            Ok(format!("XH {}", if ready { "done" } else { "waiting" }))
        }
        "XP" => {
            // XP <id> <fill> <k>: with `fill` requests put into the subscription's mailbox (each polled once, so
            // it is queued or waits for room) the held handler is polled k times in a row - nothing else runs in
            // between - and then dropped (the caller went away).
            let id = t.next().map_err(bad)?.to_string();
            let fill: usize = t.num().map_err(bad)?;
            let k: usize = t.num().map_err(bad)?;
            t.end().map_err(bad)?;
            let (mut fut, sub) = ctx.held.remove(&id).ok_or_else(|| bad("XP: nothing held".into()))?;
            type Fut = std::pin::Pin<Box<dyn Future<Output = ()> + Send>>;
            let mut fillers: Vec<Fut> = Vec::new();
            for _ in 0..fill {
                let sub = Arc::clone(&sub);
                fillers.push(Box::pin(async move { let _ = sub.get_stats().await; }));
            }
            for f in fillers.iter_mut() {
                let _ = futures::poll!(f.as_mut());
            }
            let mut done = None;
            for _ in 0..k {
                if let std::task::Poll::Ready(r) = futures::poll!(fut.as_mut()) {
                    done = Some(r);
                    break;
                }
            }
            drop(fut);
            for mut f in fillers {
                let _ = tokio::time::timeout(HANG_AFTER, f.as_mut()).await;
            }
            Ok(match done {
                None => "XP dropped".to_string(),
                Some(Ok(resp)) => format!("XP done 0 {}", resp.into_inner().received_messages.len()),
                Some(Err(st)) => format!("XP done {}", st.code() as i32),
            })
        }
        "REG" => {
            t.end().map_err(bad)?;
            let (_, _, registry) = ctx.app.verif_parts();
            let mut entries: Vec<(String, String)> = registry
                .entries()
                .into_iter()
                .map(|(name, pc)| {
                    (
                        name.to_string(),
                        canon_endpoint(ctx.push.as_ref(), &pc.endpoint),
                    )
                })
                .collect();
            entries.sort_by(|a, b| a.0.as_bytes().cmp(b.0.as_bytes()));
            let mut s = format!("REG {}", entries.len());
            for (name, endpoint) in &entries {
                s.push_str(&format!(" {} {}", hexs(name), hexs(endpoint)));
            }
            Ok(s)
        }
        "SO" => {
            let sid = t.next().map_err(bad)?.to_string();
            let subscription = t.str().map_err(bad)?;
            let max_outstanding_messages: i64 = t.num().map_err(bad)?;
            let max_outstanding_bytes: i64 = t.num().map_err(bad)?;
            let stream_ack_deadline_seconds: i32 = t.num().map_err(bad)?;
            t.end().map_err(bad)?;
            let initial = StreamingPullRequest {
                subscription,
                ack_ids: Vec::new(),
                modify_deadline_seconds: Vec::new(),
                modify_deadline_ack_ids: Vec::new(),
                stream_ack_deadline_seconds,
                client_id: String::new(),
                max_outstanding_messages,
                max_outstanding_bytes,
            };
            let (tx, rx) = mpsc::unbounded_channel::<StreamingPullRequest>();
            let _ = tx.send(initial);
            // A previous stream with the same sid is dropped.
            ctx.streams.remove(&sid);
            let opened = tokio::time::timeout(
                HANG_AFTER,
                ctx.subscriber
                    .streaming_pull(UnboundedReceiverStream::new(rx)),
            )
            .await;
            match opened {
                Err(_) => Err(Fail::Hang),
                Ok(Err(status)) => match transport_failure(&status) {
                    Some(msg) => Err(Fail::Transport(msg)),
                    None => Ok(format!("SO {}", status.code() as i32)),
                },
                Ok(Ok(resp)) => {
                    let mut stream = resp.into_inner();
                    let buf = Arc::new(Mutex::new(StreamBuf::default()));
                    let task_buf = Arc::clone(&buf);
                    tokio::spawn(async move {
                        loop {
                            let item = stream.message().await;
                            let mut b = task_buf.lock().unwrap();
                            match item {
                                Ok(Some(r)) => b.responses.push(r),
                                Ok(None) => {
                                    b.terminal = Some(0);
                                    break;
                                }
                                Err(status) => {
                                    b.terminal = Some(status.code() as i32);
                                    b.transport = transport_failure(&status);
                                    break;
                                }
                            }
                        }
                    });
                    ctx.streams
                        .insert(sid, StreamState { tx: Some(tx), buf });
                    Ok("SO 0".to_string())
                }
            }
        }
        "SS" => {
            let sid = t.next().map_err(bad)?.to_string();
            let subscription = t.str().map_err(bad)?;
            let max_outstanding_messages: i64 = t.num().map_err(bad)?;
            let max_outstanding_bytes: i64 = t.num().map_err(bad)?;
            let na: usize = t.num().map_err(bad)?;
            let ack_ids = t.strs(na).map_err(bad)?;
            let nm: usize = t.num().map_err(bad)?;
            let modify_deadline_ack_ids = t.strs(nm).map_err(bad)?;
            let ns: usize = t.num().map_err(bad)?;
            let mut modify_deadline_seconds = Vec::with_capacity(ns);
            for _ in 0..ns {
                modify_deadline_seconds.push(t.num::<i32>().map_err(bad)?);
            }
            t.end().map_err(bad)?;
            let req = StreamingPullRequest {
                subscription,
                ack_ids,
                modify_deadline_seconds,
                modify_deadline_ack_ids,
                stream_ack_deadline_seconds: 0,
                client_id: String::new(),
                max_outstanding_messages,
                max_outstanding_bytes,
            };
            let sent = match ctx.streams.get(&sid).and_then(|s| s.tx.as_ref()) {
                Some(tx) => tx.send(req).is_ok(),
                None => false,
            };
            Ok(format!("SS {}", if sent { 1 } else { 0 }))
        }
        "SC" => {
            let sid = t.next().map_err(bad)?;
            t.end().map_err(bad)?;
            if let Some(s) = ctx.streams.get_mut(sid) {
                s.tx = None;
            }
            Ok("SC".to_string())
        }
        "SR" => {
            let sid = t.next().map_err(bad)?;
            t.end().map_err(bad)?;
            let (responses, terminal, transport) = match ctx.streams.get(sid) {
                None => return Ok("SR 0 -".to_string()),
                Some(s) => {
                    let mut b = s.buf.lock().unwrap();
                    (
                        std::mem::take(&mut b.responses),
                        b.terminal,
                        b.transport.clone(),
                    )
                }
            };
            if let Some(msg) = transport {
                return Err(Fail::Transport(msg));
            }
            let mut s = format!("SR {}", responses.len());
            for r in &responses {
                s.push(' ');
                s.push_str(&ctx.fmt_msgs(&r.received_messages));
            }
            match terminal {
                None => s.push_str(" -"),
                Some(code) => s.push_str(&format!(" {}", code)),
            }
            Ok(s)
        }
        other => Err(bad(format!("unknown op '{}'", other))),
    }
}
