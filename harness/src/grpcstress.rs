//! harness grpcstress <rounds> <workers>
//!
//! Multi-thread runtime, real time, the real gRPC handlers over an in-process transport.  Per round: a fresh
//! subscription; several StreamingPull streams (request side kept open) and blocked Pulls on it; a few messages;
//! then TWO DeleteSubscription calls at the same time, with GetSubscription / Acknowledge / Pull calls racing them.
//! Read afterwards (C12, C07, C10):
//!   * every call has an answer within 15 s (none hangs);
//!   * every stream ends, and ends with NOT_FOUND; every blocked Pull returns (messages, or an error status);
//!   * exactly one of the two deletions answers OK, the other NOT_FOUND;
//!   * after both have returned GetSubscription answers NOT_FOUND.
//! Prints: GRPCSTRESS rounds=<n> hung=<n> stream_not_ended=<n> stream_wrong_status=<n> pull_not_released=<n> delete_answers_bad=<n> still_there=<n>
use deltio::pubsub_proto::publisher_client::PublisherClient;
use deltio::pubsub_proto::subscriber_client::SubscriberClient;
use deltio::pubsub_proto::{
    AcknowledgeRequest, DeleteSubscriptionRequest, GetSubscriptionRequest, PublishRequest, PubsubMessage, PullRequest,
    StreamingPullRequest, Subscription, Topic,
};
use deltio::Deltio;
use std::time::Duration;
use tokio::sync::mpsc;
use tokio_stream::wrappers::UnboundedReceiverStream;
use tonic::transport::Endpoint;
use tonic::Code;

const WAIT: Duration = Duration::from_secs(15);

pub fn main_grpcstress(args: &[String]) -> i32 {
    let rounds: usize = args.first().and_then(|s| s.parse().ok()).unwrap_or(100);
    let workers: usize = args.get(1).and_then(|s| s.parse().ok()).unwrap_or(8);
    let rt = tokio::runtime::Builder::new_multi_thread().worker_threads(workers).enable_all().build().unwrap();
    let (mut hung, mut not_ended, mut wrong_status, mut pull_stuck, mut del_bad, mut still_there) = (0usize, 0, 0, 0, 0, 0);
    rt.block_on(async {
        let app = Deltio::new();
        let (tx, rx) = mpsc::unbounded_channel::<Result<tokio::io::DuplexStream, std::io::Error>>();
        let router = app.server_builder();
        tokio::spawn(async move {
            let _ = router.serve_with_incoming(UnboundedReceiverStream::new(rx)).await;
        });
        let endpoint = Endpoint::try_from("http://in.proc").unwrap();
        // several connections, so that the calls really run on different worker threads
        let mut chans = Vec::new();
        for _ in 0..4 {
            let tx = tx.clone();
            let c = endpoint
                .connect_with_connector(tower::service_fn(move |_: tonic::transport::Uri| {
                    let (client, server) = tokio::io::duplex(1 << 20);
                    let sent = tx.send(Ok(server));
                    async move {
                        match sent {
                            Ok(()) => Ok::<_, std::io::Error>(hyper_util::rt::TokioIo::new(client)),
                            Err(_) => Err(std::io::Error::new(std::io::ErrorKind::ConnectionRefused, "gone")),
                        }
                    }
                }))
                .await
                .expect("connect");
            chans.push(c);
        }
        let mut publisher = PublisherClient::new(chans[0].clone());
        let topic = "projects/p/topics/t".to_string();
        publisher.create_topic(Topic { name: topic.clone(), ..Default::default() }).await.expect("create topic");
        for r in 0..rounds {
            let name = format!("projects/p/subscriptions/s{}", r);
            let mut sub0 = SubscriberClient::new(chans[0].clone());
            sub0.create_subscription(Subscription { name: name.clone(), topic: topic.clone(), ..Default::default() })
                .await
                .expect("create subscription");
            // consumers
            let mut streams = Vec::new();
            for k in 0..(1 + r % 3) {
                let mut c = SubscriberClient::new(chans[(k + 1) % 4].clone());
                let (stx, srx) = mpsc::unbounded_channel::<StreamingPullRequest>();
                let _ = stx.send(StreamingPullRequest {
                    subscription: name.clone(),
                    stream_ack_deadline_seconds: 10,
                    max_outstanding_messages: 10,
                    ..Default::default()
                });
                match tokio::time::timeout(WAIT, c.streaming_pull(UnboundedReceiverStream::new(srx))).await {
                    Ok(Ok(resp)) => {
                        let mut s = resp.into_inner();
                        // the request side (stx) stays open for as long as the reader task lives
                        streams.push(tokio::spawn(async move {
                            let _keep = stx;
                            loop {
                                match s.message().await {
                                    Ok(Some(_)) => continue,
                                    Ok(None) => return Code::Ok,
                                    Err(st) => return st.code(),
                                }
                            }
                        }));
                    }
                    _ => hung += 1,
                }
            }
            let mut pulls = Vec::new();
            for k in 0..(r % 3) {
                let mut c = SubscriberClient::new(chans[(k + 2) % 4].clone());
                let n = name.clone();
                #[allow(deprecated)]
                pulls.push(tokio::spawn(async move {
                    c.pull(PullRequest { subscription: n, max_messages: 5, return_immediately: false }).await.map(|_| ())
                }));
            }
            if r % 2 == 0 {
                let _ = publisher
                    .publish(PublishRequest {
                        topic: topic.clone(),
                        messages: vec![PubsubMessage { data: b"x".to_vec(), ..Default::default() }],
                    })
                    .await;
            }
            tokio::time::sleep(Duration::from_millis(2)).await;
            // two deletions at once, and calls racing them
            let mut dels = Vec::new();
            for k in 0..2 {
                let mut c = SubscriberClient::new(chans[(k * 2 + 1) % 4].clone());
                let n = name.clone();
                dels.push(tokio::spawn(async move {
                    c.delete_subscription(DeleteSubscriptionRequest { subscription: n }).await.map(|_| ())
                }));
            }
            let mut racers = Vec::new();
            for k in 0..4 {
                let mut c = SubscriberClient::new(chans[k % 4].clone());
                let n = name.clone();
                racers.push(tokio::spawn(async move {
                    if k % 2 == 0 {
                        c.get_subscription(GetSubscriptionRequest { subscription: n }).await.map(|_| ())
                    } else {
                        c.acknowledge(AcknowledgeRequest { subscription: n, ack_ids: vec!["1".to_string()] }).await.map(|_| ())
                    }
                }));
            }
            let mut codes = Vec::new();
            for d in dels {
                match tokio::time::timeout(WAIT, d).await {
                    Ok(Ok(Ok(()))) => codes.push(Code::Ok),
                    Ok(Ok(Err(st))) => codes.push(st.code()),
                    _ => hung += 1,
                }
            }
            if codes.len() == 2 {
                let oks = codes.iter().filter(|c| **c == Code::Ok).count();
                let nfs = codes.iter().filter(|c| **c == Code::NotFound).count();
                if !(oks == 1 && nfs == 1) {
                    del_bad += 1;
                    if del_bad <= 3 {
                        eprintln!("round {}: the two racing DeleteSubscription calls answered {:?}", r, codes);
                    }
                }
            }
            for t in racers {
                if tokio::time::timeout(WAIT, t).await.is_err() {
                    hung += 1;
                    eprintln!("round {}: a Get/Acknowledge racing the deletion has no answer", r);
                }
            }
            for s in streams {
                match tokio::time::timeout(WAIT, s).await {
                    Ok(Ok(Code::NotFound)) => {}
                    Ok(Ok(code)) => {
                        wrong_status += 1;
                        if wrong_status <= 3 {
                            eprintln!("round {}: a stream ended with {:?} after its subscription was deleted", r, code);
                        }
                    }
                    _ => {
                        not_ended += 1;
                        if not_ended <= 3 {
                            eprintln!("round {}: a stream is still open 15 s after its subscription was deleted", r);
                        }
                    }
                }
            }
            for p in pulls {
                if tokio::time::timeout(WAIT, p).await.is_err() {
                    pull_stuck += 1;
                    if pull_stuck <= 3 {
                        eprintln!("round {}: a blocked Pull is still waiting 15 s after its subscription was deleted", r);
                    }
                }
            }
            match tokio::time::timeout(WAIT, sub0.get_subscription(GetSubscriptionRequest { subscription: name.clone() })).await {
                Ok(Err(st)) if st.code() == Code::NotFound => {}
                Ok(_) => still_there += 1,
                Err(_) => hung += 1,
            }
            if hung + not_ended + pull_stuck > 5 {
                break;
            }
        }
    });
    println!(
        "GRPCSTRESS rounds={} hung={} stream_not_ended={} stream_wrong_status={} pull_not_released={} delete_answers_bad={} still_there={}",
        rounds, hung, not_ended, wrong_status, pull_stuck, del_bad, still_there
    );
    // tasks of hung calls would keep the runtime from shutting down
    std::process::exit(0);
}
