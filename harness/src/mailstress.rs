//! harness mailstress <millis> <workers>
//!
//! Multi-thread runtime, real time.  Four lanes, each round after round: a topic with one subscription; six tasks, each holding
//! the subscription handle (so the mailbox's sending side stays alive whatever the server forgets), call get_stats /
//! pull / acknowledge on it in a closed loop until a call fails; in their midst the subscription is deleted.  The
//! property (C07): every one of those calls is answered - also the one that reserved its place in the mailbox at
//! the very moment the actor shut it.  A watchdog OUTSIDE the runtime reports a round in which a call was still
//! without an answer 15 s after the deletion had returned.
//! Prints: MAILSTRESS rounds=<n> calls=<n> hung=<0|1> pending=<n>
use deltio::subscriptions::{SubscriptionInfo, SubscriptionName};
use deltio::topics::TopicName;
use deltio::Deltio;
use std::sync::atomic::{AtomicU64, AtomicUsize, Ordering};
use std::sync::Arc;
use std::time::{Duration, Instant};

pub fn main_mailstress(args: &[String]) -> i32 {
    let millis: u64 = args.first().and_then(|s| s.parse().ok()).unwrap_or(1500);
    let workers: usize = args.get(1).and_then(|s| s.parse().ok()).unwrap_or(8);
    let (lanes, senders) = (4usize, 6usize);
    let rt = tokio::runtime::Builder::new_multi_thread().worker_threads(workers).enable_all().build().unwrap();
    let rounds = Arc::new(AtomicU64::new(0));
    let calls = Arc::new(AtomicU64::new(0));
    // per lane: the sender tasks of its current round that have not finished, and since when (ms, 0 = not waiting)
    // the lane has been waiting for them after its deletion returned
    let pending: Vec<Arc<AtomicUsize>> = (0..lanes).map(|_| Arc::new(AtomicUsize::new(0))).collect();
    let waiting_since: Vec<Arc<AtomicU64>> = (0..lanes).map(|_| Arc::new(AtomicU64::new(0))).collect();
    let done = Arc::new(AtomicU64::new(0));
    let t0 = Instant::now();
    {
        let (pending, waiting_since, done, rounds, calls) =
            (pending.clone(), waiting_since.clone(), Arc::clone(&done), Arc::clone(&rounds), Arc::clone(&calls));
        std::thread::spawn(move || loop {
            std::thread::sleep(Duration::from_millis(100));
            if done.load(Ordering::SeqCst) == 1 {
                return;
            }
            for l in 0..pending.len() {
                let since = waiting_since[l].load(Ordering::SeqCst);
                if since != 0 && t0.elapsed().as_millis() as u64 > since + 15_000 {
                    println!(
                        "MAILSTRESS rounds={} calls={} hung=1 pending={}",
                        rounds.load(Ordering::SeqCst),
                        calls.load(Ordering::SeqCst),
                        pending[l].load(Ordering::SeqCst)
                    );
                    std::process::exit(0);
                }
            }
        });
    }
    rt.block_on(async {
        let app = Deltio::new();
        let (tm, sm, _) = app.verif_parts();
        let until = Instant::now() + Duration::from_millis(millis);
        let mut lane_tasks = Vec::new();
        for l in 0..lanes {
            let (tm, sm) = (tm.clone(), sm.clone());
            let (pending, waiting_since, rounds, calls) =
                (Arc::clone(&pending[l]), Arc::clone(&waiting_since[l]), Arc::clone(&rounds), Arc::clone(&calls));
            lane_tasks.push(tokio::spawn(async move {
                let mut r = 0u64;
                while Instant::now() < until {
                    let topic = tm.create_topic(TopicName::try_parse(&format!("projects/p/topics/t{}-{}", l, r)).unwrap()).unwrap();
                    let name = SubscriptionName::try_parse(&format!("projects/p/subscriptions/s{}-{}", l, r)).unwrap();
                    let info = SubscriptionInfo::new(name, Duration::from_secs(600), None);
                    let sub = sm.create_subscription(info, Arc::clone(&topic)).await.ok().unwrap();
                    pending.store(senders, Ordering::SeqCst);
                    let mut tasks = Vec::new();
                    for s in 0..senders {
                        let (sub, calls, pending) = (Arc::clone(&sub), Arc::clone(&calls), Arc::clone(&pending));
                        tasks.push(tokio::spawn(async move {
                            let mut j = 0u64;
                            loop {
                                let failed = match (s + j as usize) % 3 {
                                    0 => sub.get_stats().await.is_err(),
                                    1 => sub.pull_messages(1).await.is_err(),
                                    _ => sub.acknowledge_messages(Vec::new()).await.is_err(),
                                };
                                calls.fetch_add(1, Ordering::Relaxed);
                                if failed {
                                    break;
                                }
                                j += 1;
                                if j % 4 == 0 {
                                    tokio::task::yield_now().await;
                                }
                            }
                            pending.fetch_sub(1, Ordering::SeqCst);
                        }));
                    }
                    // let the senders get going, a different stretch every round
                    for _ in 0..(1 + r % 7) {
                        tokio::task::yield_now().await;
                    }
                    let _ = sub.delete().await;
                    waiting_since.store(t0.elapsed().as_millis() as u64 + 1, Ordering::SeqCst);
                    for t in tasks {
                        let _ = t.await;
                    }
                    waiting_since.store(0, Ordering::SeqCst);
                    let _ = topic.delete().await;
                    rounds.fetch_add(1, Ordering::SeqCst);
                    r += 1;
                }
            }));
        }
        for t in lane_tasks {
            let _ = t.await;
        }
    });
    done.store(1, Ordering::SeqCst);
    println!(
        "MAILSTRESS rounds={} calls={} hung=0 pending=0",
        rounds.load(Ordering::SeqCst),
        calls.load(Ordering::SeqCst)
    );
    0
}
