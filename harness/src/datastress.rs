//! harness datastress <millis> <workers>
//!
//! Multi-thread runtime, real time (run shorter than the 10 s ack deadline, so no lease ever expires): publishers
//! publish numbered messages to one topic with two subscriptions; per subscription several consumers pull batches
//! of random size and, per delivery, acknowledge it, nack it (ModifyAckDeadline 0) or extend it; everything is
//! time-stamped with one global logical clock (an atomic counter read before a call is issued and after it returned).
//! Read afterwards, per subscription:
//!   C01  every message whose Publish returned is delivered at least once (after a final drain);
//!   C03  ack ids are never reused, and a message is handed out again only after its previous delivery was nacked
//!        (the nack had been issued before the new delivery returned) - never while a lease is simply running;
//!   C02  no delivery of a message starts after an acknowledgement of it has returned;
//!   C09  the message delivered under an id carries the payload published under that id.
//! Prints: DATASTRESS published=<n> deliveries=<n> lost=<n> dup_ack_ids=<n> double_lease=<n> after_ack=<n> wrong_payload=<n>
use deltio::subscriptions::{AckDeadline, DeadlineModification, SubscriptionInfo, SubscriptionName};
use deltio::topics::{TopicMessage, TopicName};
use deltio::Deltio;
use std::collections::{HashMap, HashSet};
use std::sync::atomic::{AtomicU64, AtomicUsize, Ordering};
use std::sync::{Arc, Mutex};
use std::time::{Duration, Instant};

#[derive(Clone, Debug)]
struct Delivery {
    ack: u64,
    returned_at: u64,
    /// logical time at which a nack / ack of this delivery was issued / had returned
    nack_issued: Option<u64>,
    ack_returned: Option<u64>,
}

fn ackv(a: deltio::subscriptions::AckId) -> u64 {
    a.to_string().parse().unwrap_or(0)
}

pub fn main_datastress(args: &[String]) -> i32 {
    let millis: u64 = args.first().and_then(|s| s.parse().ok()).unwrap_or(1500);
    let workers: usize = args.get(1).and_then(|s| s.parse().ok()).unwrap_or(8);
    let rt = tokio::runtime::Builder::new_multi_thread().worker_threads(workers).enable_all().build().unwrap();
    let clock = Arc::new(AtomicU64::new(1));
    let published: Arc<Mutex<HashMap<u64, Vec<u8>>>> = Arc::new(Mutex::new(HashMap::new()));
    let n_deliveries = Arc::new(AtomicUsize::new(0));
    let (mut lost, mut dup_ack, mut double_lease, mut after_ack, mut wrong_payload) = (0usize, 0usize, 0usize, 0usize, 0usize);
    rt.block_on(async {
        let app = Deltio::new();
        let (tm, sm, _) = app.verif_parts();
        let topic = tm.create_topic(TopicName::try_parse("projects/p/topics/data").unwrap()).unwrap();
        let mut subs = Vec::new();
        for s in ["a", "b"] {
            let name = SubscriptionName::try_parse(&format!("projects/p/subscriptions/{}", s)).unwrap();
            let info = SubscriptionInfo::new(name, Duration::from_secs(10), None);
            subs.push(sm.create_subscription(info, Arc::clone(&topic)).await.ok().unwrap());
        }
        // per subscription: message id -> deliveries in the order they were recorded
        let logs: Vec<Arc<Mutex<HashMap<u64, Vec<Delivery>>>>> = (0..subs.len()).map(|_| Arc::new(Mutex::new(HashMap::new()))).collect();
        let datas: Vec<Arc<Mutex<HashMap<u64, Vec<u8>>>>> = (0..subs.len()).map(|_| Arc::new(Mutex::new(HashMap::new()))).collect();
        let started = Instant::now();
        let until = Instant::now() + Duration::from_millis(millis);
        let mut tasks = Vec::new();
        for p in 0..3u64 {
            let (topic, published) = (Arc::clone(&topic), Arc::clone(&published));
            tasks.push(tokio::spawn(async move {
                let mut j = 0u64;
                while Instant::now() < until {
                    let k = 1 + (j % 4) as usize;
                    let payloads: Vec<Vec<u8>> = (0..k).map(|i| format!("p{}-{}-{}", p, j, i).into_bytes()).collect();
                    let msgs = payloads.iter().map(|d| TopicMessage::new(d.clone().into(), None)).collect();
                    if let Ok(r) = topic.publish_messages(msgs).await {
                        let mut g = published.lock().unwrap();
                        for (id, d) in r.message_ids.iter().zip(payloads) {
                            g.insert(id.value, d);
                        }
                    }
                    j += 1;
                    if j % 8 == 0 {
                        tokio::task::yield_now().await;
                    }
                }
            }));
        }
        for (si, sub) in subs.iter().enumerate() {
            for c in 0..3u64 {
                let (sub, log, clock, n_deliveries) = (Arc::clone(sub), Arc::clone(&logs[si]), Arc::clone(&clock), Arc::clone(&n_deliveries));
                let data = Arc::clone(&datas[si]);
                tasks.push(tokio::spawn(async move {
                    let mut x: u64 = 0x9e3779b97f4a7c15u64.wrapping_mul(c + 1 + 10 * si as u64);
                    let mut next = move || { x ^= x << 13; x ^= x >> 7; x ^= x << 17; x };
                    while Instant::now() < until {
                        let max = [1u16, 2, 5, 50, 1000][(next() % 5) as usize];
                        let got = sub.pull_messages(max).await.unwrap_or_default();
                        let t_ret = clock.fetch_add(1, Ordering::SeqCst);
                        if got.is_empty() {
                            tokio::task::yield_now().await;
                            continue;
                        }
                        n_deliveries.fetch_add(got.len(), Ordering::SeqCst);
                        {
                            let mut g = log.lock().unwrap();
                            let mut dg = data.lock().unwrap();
                            for m in &got {
                                g.entry(m.message().id.value).or_insert_with(Vec::new).push(Delivery {
                                    ack: ackv(m.ack_id()), returned_at: t_ret, nack_issued: None, ack_returned: None,
                                });
                                let d = m.message().data.to_vec();
                                match dg.get(&m.message().id.value) {
                                    None => {
                                        dg.insert(m.message().id.value, d);
                                    }
                                    Some(first) if *first != d => {
                                        // two deliveries of one id with different payloads: remembered as an empty payload
                                        dg.insert(m.message().id.value, Vec::new());
                                    }
                                    _ => {}
                                }
                            }
                        }
                        let mut acks = Vec::new();
                        let mut nacks = Vec::new();
                        let mut exts = Vec::new();
                        for m in &got {
                            match next() % 10 {
                                0 | 1 => nacks.push(m),
                                2 => exts.push(m),
                                _ => acks.push(m),
                            }
                        }
                        if !nacks.is_empty() {
                            let t_issue = clock.fetch_add(1, Ordering::SeqCst);
                            {
                                let mut g = log.lock().unwrap();
                                for m in &nacks {
                                    if let Some(v) = g.get_mut(&m.message().id.value) {
                                        if let Some(d) = v.iter_mut().find(|d| d.ack == ackv(m.ack_id())) {
                                            d.nack_issued = Some(t_issue);
                                        }
                                    }
                                }
                            }
                            let mut mods: Vec<DeadlineModification> = nacks.iter().map(|m| DeadlineModification::nack(m.ack_id())).collect();
                            if next() % 3 == 0 {
                                // the same id twice in one request: must not put the message back twice
                                mods.push(DeadlineModification::nack(nacks[0].ack_id()));
                            }
                            let _ = sub.modify_ack_deadlines(mods).await;
                        }
                        if !exts.is_empty() {
                            let now = tokio::time::Instant::now();
                            let mods = exts
                                .iter()
                                .map(|m| DeadlineModification::new(m.ack_id(), AckDeadline::new(&(now + Duration::from_secs(30)))))
                                .collect();
                            let _ = sub.modify_ack_deadlines(mods).await;
                        }
                        if !acks.is_empty() {
                            let ids = acks.iter().map(|m| m.ack_id()).collect();
                            let _ = sub.acknowledge_messages(ids).await;
                            let t_done = clock.fetch_add(1, Ordering::SeqCst);
                            let mut g = log.lock().unwrap();
                            for m in &acks {
                                if let Some(v) = g.get_mut(&m.message().id.value) {
                                    if let Some(d) = v.iter_mut().find(|d| d.ack == ackv(m.ack_id())) {
                                        d.ack_returned = Some(t_done);
                                    }
                                }
                            }
                        }
                    }
                }));
            }
        }
        for t in tasks {
            let _ = t.await;
        }
        // final drain: everything still queued is pulled (and acknowledged)
        for (si, sub) in subs.iter().enumerate() {
            loop {
                let got = sub.pull_messages(1000).await.unwrap_or_default();
                if got.is_empty() {
                    break;
                }
                let t_ret = clock.fetch_add(1, Ordering::SeqCst);
                let mut g = logs[si].lock().unwrap();
                for m in &got {
                    g.entry(m.message().id.value).or_insert_with(Vec::new).push(Delivery {
                        ack: ackv(m.ack_id()), returned_at: t_ret, nack_issued: None, ack_returned: None,
                    });
                }
                drop(g);
                let _ = sub.acknowledge_messages(got.iter().map(|m| m.ack_id()).collect()).await;
            }
        }
        let inconclusive = started.elapsed() > Duration::from_secs(8);
        if inconclusive {
            // the machine stalled for so long that leases may have run out: re-deliveries prove nothing then
            println!("DATASTRESS inconclusive: the run took {:?}, leases (10 s) may have expired", started.elapsed());
        }
        let pubs = published.lock().unwrap();
        for (si, data) in datas.iter().enumerate() {
            for (id, d) in data.lock().unwrap().iter() {
                if let Some(p) = pubs.get(id) {
                    if p != d {
                        wrong_payload += 1;
                        if wrong_payload <= 3 {
                            eprintln!("subscription {}: message {} was published as {:?} and delivered as {:?}", si, id, p, d);
                        }
                    }
                }
            }
        }
        for (si, log) in logs.iter().enumerate() {
            let g = log.lock().unwrap();
            let mut seen_acks = HashSet::new();
            for id in pubs.keys() {
                if !g.contains_key(id) {
                    lost += 1;
                    if lost <= 3 {
                        eprintln!("subscription {}: message {} was published and never delivered", si, id);
                    }
                }
            }
            for (id, ds) in g.iter() {
                if !pubs.contains_key(id) {
                    wrong_payload += 1;
                    eprintln!("subscription {}: delivered message id {} that no Publish returned", si, id);
                }
                let mut ds = ds.clone();
                ds.sort_by_key(|d| d.ack);
                for d in &ds {
                    if !seen_acks.insert(d.ack) {
                        dup_ack += 1;
                    }
                }
                for w in ds.windows(2) {
                    let (prev, next) = (&w[0], &w[1]);
                    // handed out again: the previous delivery must have been nacked, and before this one came back
                    match prev.nack_issued {
                        Some(t) if t < next.returned_at => {}
                        _ if inconclusive => {}
                        _ => {
                            double_lease += 1;
                            if double_lease <= 3 {
                                eprintln!("subscription {}: message {} handed out under ack id {} and again under {} without a nack in between ({:?})", si, id, prev.ack, next.ack, prev);
                            }
                        }
                    }
                    if let Some(t) = prev.ack_returned {
                        if t < next.returned_at {
                            after_ack += 1;
                            eprintln!("subscription {}: message {} delivered again (ack id {}) after its acknowledgement had returned", si, id, next.ack);
                        }
                    }
                }
            }
        }
    });
    println!(
        "DATASTRESS published={} deliveries={} lost={} dup_ack_ids={} double_lease={} after_ack={} wrong_payload={}",
        published.lock().unwrap().len(), n_deliveries.load(Ordering::SeqCst), lost, dup_ack, double_lease, after_ack, wrong_payload
    );
    0
}
