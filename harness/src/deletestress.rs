//! harness deletestress <rounds> <publishers>
//!
//! Current-thread runtime (deterministic scheduling), no clock: `publishers` tasks publish to one topic in a closed
//! loop (each `per` messages one after the other); after a while a subscription of that topic is deleted.  Counted:
//! how many Publish calls complete between the moment DeleteSubscription is issued and the moment it returns.  The
//! property (C07) asks for a bounded amount of server work: what is queued ahead of the deletion may have to be
//! served first - the topic's mailbox (16), one Publish per publisher already waiting, the subscription's mailbox
//! (16) - but not an unbounded share of what arrives later.
//! Prints: DELETESTRESS rounds=<n> publishers=<n> max_overtaken=<n> bound=<n> unfinished=<n>
use deltio::subscriptions::{SubscriptionInfo, SubscriptionName};
use deltio::topics::{TopicMessage, TopicName};
use deltio::Deltio;
use std::sync::atomic::{AtomicUsize, Ordering};
use std::sync::Arc;
use std::time::Duration;

pub fn main_deletestress(args: &[String]) -> i32 {
    let rounds: usize = args.first().and_then(|s| s.parse().ok()).unwrap_or(20);
    let publishers: usize = args.get(1).and_then(|s| s.parse().ok()).unwrap_or(24);
    let per = 150usize;
    let bound = 3 * (publishers + 32) + 16;
    let rt = tokio::runtime::Builder::new_current_thread().enable_all().build().unwrap();
    let (mut max_overtaken, mut unfinished) = (0usize, 0usize);
    rt.block_on(async {
        for r in 0..rounds {
            let app = Deltio::new();
            let (tm, sm, _) = app.verif_parts();
            let topic = tm.create_topic(TopicName::try_parse("projects/p/topics/busy").unwrap()).unwrap();
            let mut subs = Vec::new();
            for s in 0..(1 + r % 3) {
                let name = SubscriptionName::try_parse(&format!("projects/p/subscriptions/s{}", s)).unwrap();
                let info = SubscriptionInfo::new(name, Duration::from_secs(600), None);
                subs.push(sm.create_subscription(info, Arc::clone(&topic)).await.ok().unwrap());
            }
            let completed = Arc::new(AtomicUsize::new(0));
            let mut tasks = Vec::new();
            for p in 0..publishers {
                let (topic, completed) = (Arc::clone(&topic), Arc::clone(&completed));
                tasks.push(tokio::spawn(async move {
                    for j in 0..per {
                        let msg = TopicMessage::new(vec![p as u8, j as u8].into(), None);
                        let _ = topic.publish_messages(vec![msg]).await;
                        completed.fetch_add(1, Ordering::SeqCst);
                    }
                }));
            }
            // let the publishers get going
            while completed.load(Ordering::SeqCst) < publishers * (2 + r % 5) {
                tokio::task::yield_now().await;
            }
            let before = completed.load(Ordering::SeqCst);
            let victim = subs.remove(0);
            let deletion = tokio::spawn(async move { victim.delete().await });
            let mut returned_at = None;
            let total = publishers * per;
            let mut deletion = deletion;
            let give_up = std::time::Instant::now() + Duration::from_secs(10);
            loop {
                tokio::select! {
                    biased;
                    _ = &mut deletion => { returned_at = Some(completed.load(Ordering::SeqCst)); break; }
                    _ = tokio::task::yield_now() => {
                        if std::time::Instant::now() > give_up {
                            // neither the publishers nor the deletion get anywhere: wedged
                            break;
                        }
                        if completed.load(Ordering::SeqCst) >= total {
                            // every publisher is done: give the deletion a last chance
                            for _ in 0..2000 { tokio::task::yield_now().await; }
                            if deletion.is_finished() { returned_at = Some(total); }
                            break;
                        }
                    }
                }
            }
            match returned_at {
                Some(n) => max_overtaken = max_overtaken.max(n - before),
                None => unfinished += 1,
            }
            for t in tasks {
                if returned_at.is_none() {
                    t.abort();
                }
                let _ = t.await;
            }
            if unfinished > 0 {
                break;
            }
        }
    });
    println!(
        "DELETESTRESS rounds={} publishers={} max_overtaken={} bound={} unfinished={}",
        rounds, publishers, max_overtaken, bound, unfinished
    );
    0
}
