//! harness pushstress <millis> <workers>
//!
//! Multi-thread runtime, real time: the real push loop ticking every millisecond while several tasks create and
//! delete push subscriptions (and get / pull them).  A watchdog OUTSIDE the runtime watches a progress counter: if
//! nothing completes for 15 s although the tasks are not finished, requests are waiting for ever (C07: e.g. a lock taken
//! in opposite orders by the push loop and by CreateSubscription).
//! Prints: PUSHSTRESS completed=<n> hung=<0|1>
use deltio::subscriptions::{PushConfig, SubscriptionInfo, SubscriptionName};
use deltio::topics::TopicName;
use deltio::Deltio;
use std::sync::atomic::{AtomicBool, AtomicUsize, Ordering};
use std::sync::Arc;
use std::time::{Duration, Instant};

pub fn main_pushstress(args: &[String]) -> i32 {
    let millis: u64 = args.first().and_then(|s| s.parse().ok()).unwrap_or(2000);
    let workers: usize = args.get(1).and_then(|s| s.parse().ok()).unwrap_or(4);
    let done = Arc::new(AtomicUsize::new(0));
    let finished = Arc::new(AtomicBool::new(false));
    {
        let done = Arc::clone(&done);
        let finished = Arc::clone(&finished);
        std::thread::spawn(move || {
            let rt = tokio::runtime::Builder::new_multi_thread()
                .worker_threads(workers)
                .enable_all()
                .build()
                .unwrap();
            rt.block_on(async move {
                let app = Arc::new(Deltio::new());
                let (tm, sm, _) = app.verif_parts();
                let topic = tm
                    .create_topic(TopicName::try_parse("projects/p/topics/push").unwrap())
                    .unwrap();
                let lp = app.push_loop(Duration::from_millis(1));
                let loop_task = tokio::spawn(lp.run());
                let until = Instant::now() + Duration::from_millis(millis);
                let mut tasks = Vec::new();
                for w in 0..4usize {
                    let (sm, topic, done) = (Arc::clone(&sm), Arc::clone(&topic), Arc::clone(&done));
                    tasks.push(tokio::spawn(async move {
                        let mut i = 0usize;
                        while Instant::now() < until {
                            let name = SubscriptionName::try_parse(&format!("projects/p/subscriptions/w{}-{}", w, i % 7)).unwrap();
                            let push = PushConfig::new("http://127.0.0.1:1/".to_string(), None, None);
                            let info = SubscriptionInfo::new(name.clone(), Duration::from_secs(10), Some(push));
                            let _ = sm.create_subscription(info, Arc::clone(&topic)).await;
                            if let Ok(sub) = sm.get_subscription(&name) {
                                let _ = sub.pull_messages(1).await;
                                let _ = sub.delete().await;
                            }
                            done.fetch_add(1, Ordering::SeqCst);
                            i += 1;
                            if i % 16 == 0 {
                                tokio::task::yield_now().await;
                            }
                        }
                    }));
                }
                for t in tasks {
                    let _ = t.await;
                }
                loop_task.abort();
            });
            finished.store(true, Ordering::SeqCst);
        });
    }
    // watchdog
    let mut last = (0usize, Instant::now());
    loop {
        std::thread::sleep(Duration::from_millis(100));
        if finished.load(Ordering::SeqCst) {
            println!("PUSHSTRESS completed={} hung=0", done.load(Ordering::SeqCst));
            return 0;
        }
        let now = done.load(Ordering::SeqCst);
        if now != last.0 {
            last = (now, Instant::now());
        } else if last.1.elapsed() > Duration::from_secs(15) {
            println!("PUSHSTRESS completed={} hung=1", now);
            std::process::exit(0);
        }
    }
}
