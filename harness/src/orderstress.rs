//! harness orderstress <rounds> <workers>
//!
//! Multi-thread runtime, real scheduling: per round several tasks publish small batches to one topic with two
//! subscriptions at the same time; then each subscription is drained.  Checked on every round (C08): each Publish
//! got one id per message, consecutive and increasing; on each subscription the first deliveries come in id order
//! (= the order in which the topic accepted the messages), so the messages of one Publish stay contiguous.
//! Prints: ORDERSTRESS rounds=<n> publishes=<n> bad_ids=<n> inversions=<n>
use deltio::subscriptions::{SubscriptionInfo, SubscriptionName};
use deltio::topics::{TopicMessage, TopicName};
use deltio::Deltio;
use std::sync::Arc;
use std::time::Duration;

pub fn main_orderstress(args: &[String]) -> i32 {
    let rounds: usize = args.first().and_then(|s| s.parse().ok()).unwrap_or(1000);
    let workers: usize = args.get(1).and_then(|s| s.parse().ok()).unwrap_or(4);
    let rt = tokio::runtime::Builder::new_multi_thread()
        .worker_threads(workers)
        .enable_all()
        .build()
        .unwrap();
    let (mut publishes, mut bad_ids, mut inversions) = (0usize, 0usize, 0usize);
    rt.block_on(async {
        let app = Deltio::new();
        let (tm, sm, _) = app.verif_parts();
        let tname = TopicName::try_parse("projects/p/topics/order").unwrap();
        let topic = tm.create_topic(tname).unwrap();
        let mut subs = Vec::new();
        for s in ["a", "b"] {
            let name = SubscriptionName::try_parse(&format!("projects/p/subscriptions/{}", s)).unwrap();
            let info = SubscriptionInfo::new(name, Duration::from_secs(600), None);
            subs.push(sm.create_subscription(info, Arc::clone(&topic)).await.ok().unwrap());
        }
        for r in 0..rounds {
            let n_pub = 2 + r % 5;
            let mut tasks = Vec::new();
            for p in 0..n_pub {
                let t = Arc::clone(&topic);
                let k = 1 + (r + p) % 3;
                tasks.push(tokio::spawn(async move {
                    let msgs = (0..k)
                        .map(|j| TopicMessage::new(vec![p as u8, j as u8].into(), None))
                        .collect::<Vec<_>>();
                    (k, t.publish_messages(msgs).await.map(|r| r.message_ids))
                }));
            }
            for t in tasks {
                if let Ok((k, Ok(ids))) = t.await {
                    publishes += 1;
                    let vals: Vec<u64> = ids.iter().map(|i| i.value).collect();
                    if vals.len() != k || vals.windows(2).any(|w| w[1] != w[0] + 1) {
                        bad_ids += 1;
                    }
                } else {
                    bad_ids += 1;
                }
            }
            for sub in &subs {
                let mut seq: Vec<u64> = Vec::new();
                loop {
                    let got = sub.pull_messages(1000).await.unwrap_or_default();
                    if got.is_empty() {
                        break;
                    }
                    let acks = got.iter().map(|m| m.ack_id()).collect::<Vec<_>>();
                    seq.extend(got.iter().map(|m| m.message().id.value));
                    let _ = sub.acknowledge_messages(acks).await;
                }
                if seq.windows(2).any(|w| w[1] <= w[0]) {
                    inversions += 1;
                    if inversions <= 3 {
                        eprintln!("round {}: first deliveries out of publish order: {:?}", r, seq);
                    }
                }
            }
        }
    });
    println!(
        "ORDERSTRESS rounds={} publishes={} bad_ids={} inversions={}",
        rounds, publishes, bad_ids, inversions
    );
    0
}
