//! Hex helpers and the token reader shared by all sub-commands.

/// Hex-encodes bytes (lower case); the empty input is written `-`.
pub fn hex(bytes: &[u8]) -> String {
    if bytes.is_empty() {
        return "-".to_string();
    }
    const DIGITS: &[u8; 16] = b"0123456789abcdef";
    let mut out = String::with_capacity(bytes.len() * 2);
    for b in bytes {
        out.push(DIGITS[(b >> 4) as usize] as char);
        out.push(DIGITS[(b & 15) as usize] as char);
    }
    out
}

/// Hex-encodes a string.
pub fn hexs(s: &str) -> String {
    hex(s.as_bytes())
}

/// Decodes a hex token (`-` = empty).
pub fn unhex(tok: &str) -> Result<Vec<u8>, String> {
    if tok == "-" {
        return Ok(Vec::new());
    }
    let b = tok.as_bytes();
    if b.is_empty() || b.len() % 2 != 0 {
        return Err(format!("bad hex token '{}'", tok));
    }
    fn nib(c: u8) -> Option<u8> {
        match c {
            b'0'..=b'9' => Some(c - b'0'),
            b'a'..=b'f' => Some(c - b'a' + 10),
            b'A'..=b'F' => Some(c - b'A' + 10),
            _ => None,
        }
    }
    let mut out = Vec::with_capacity(b.len() / 2);
    for pair in b.chunks(2) {
        match (nib(pair[0]), nib(pair[1])) {
            (Some(h), Some(l)) => out.push((h << 4) | l),
            _ => return Err(format!("bad hex token '{}'", tok)),
        }
    }
    Ok(out)
}

/// Decodes a hex token into a string (lossy when it is not UTF-8).
pub fn unhexs(tok: &str) -> Result<String, String> {
    let bytes = unhex(tok)?;
    Ok(match String::from_utf8(bytes) {
        Ok(s) => s,
        Err(e) => String::from_utf8_lossy(e.as_bytes()).into_owned(),
    })
}

/// Reads the tokens of one op line (single-space separated).
pub struct Toks<'a> {
    it: std::str::Split<'a, char>,
    line: &'a str,
}

impl<'a> Toks<'a> {
    pub fn new(line: &'a str) -> Self {
        Self {
            it: line.split(' '),
            line,
        }
    }

    pub fn next(&mut self) -> Result<&'a str, String> {
        match self.it.next() {
            Some(t) if !t.is_empty() => Ok(t),
            Some(_) => Err(format!("empty token in line '{}'", self.line)),
            None => Err(format!("missing token in line '{}'", self.line)),
        }
    }

    pub fn str(&mut self) -> Result<String, String> {
        unhexs(self.next()?)
    }

    /// The next token as a string if there is one.
    pub fn opt_str(&mut self) -> Result<Option<String>, String> {
        match self.it.next() {
            None => Ok(None),
            Some(t) if !t.is_empty() => unhexs(t).map(Some),
            Some(_) => Err(format!("empty token in line '{}'", self.line)),
        }
    }

    pub fn bytes(&mut self) -> Result<Vec<u8>, String> {
        unhex(self.next()?)
    }

    pub fn num<T: std::str::FromStr>(&mut self) -> Result<T, String> {
        let t = self.next()?;
        t.parse::<T>()
            .map_err(|_| format!("bad integer '{}' in line '{}'", t, self.line))
    }

    pub fn strs(&mut self, n: usize) -> Result<Vec<String>, String> {
        (0..n).map(|_| self.str()).collect()
    }

    /// Fails when there are tokens left.
    pub fn end(&mut self) -> Result<(), String> {
        match self.it.next() {
            None => Ok(()),
            Some(_) => Err(format!("trailing tokens in line '{}'", self.line)),
        }
    }
}

/// Extracts a printable message from a panic payload.
pub fn panic_message(payload: &(dyn std::any::Any + Send)) -> String {
    if let Some(s) = payload.downcast_ref::<&str>() {
        s.to_string()
    } else if let Some(s) = payload.downcast_ref::<String>() {
        s.clone()
    } else {
        "panic (non-string payload)".to_string()
    }
}
