//! harness nsstress <millis> <workers>
//!
//! Multi-thread runtime, real scheduling: several tasks create and delete topics and subscriptions over small pools
//! of names, and look them up, all at the same time (library API, no transport).  A name is a resource from the
//! completion of its create to the completion of its delete, so however the calls interleave (C10, C11):
//!   * per name, (#successful creates) - (#successful deletes) is 0 or 1 at the end and says whether the name exists;
//!   * at quiescence a topic lists exactly the subscriptions that exist on it, ListSubscriptions/ListTopics list
//!     exactly what exists, each once;
//!   * a Publish on every surviving topic reaches every surviving subscription of it, with an id no other topic
//!     has issued (C09).
//! Prints: NSSTRESS ops=<n> count_mismatch=<n> listing_mismatch=<n> not_delivered=<n> duplicate_ids=<n>
use deltio::paging::Paging;
use deltio::subscriptions::{SubscriptionInfo, SubscriptionName};
use deltio::topics::{TopicMessage, TopicName};
use deltio::Deltio;
use std::collections::{BTreeMap, BTreeSet, HashMap};
use std::sync::atomic::{AtomicI64, AtomicUsize, Ordering};
use std::sync::Arc;
use std::time::{Duration, Instant};

pub fn main_nsstress(args: &[String]) -> i32 {
    let millis: u64 = args.first().and_then(|s| s.parse().ok()).unwrap_or(1500);
    let workers: usize = args.get(1).and_then(|s| s.parse().ok()).unwrap_or(8);
    let rt = tokio::runtime::Builder::new_multi_thread()
        .worker_threads(workers)
        .enable_all()
        .build()
        .unwrap();
    let n_topics = 3usize;
    let n_subs = 5usize;
    let topic_balance: Arc<Vec<AtomicI64>> = Arc::new((0..n_topics).map(|_| AtomicI64::new(0)).collect());
    let sub_balance: Arc<Vec<AtomicI64>> = Arc::new((0..n_subs).map(|_| AtomicI64::new(0)).collect());
    let ops = Arc::new(AtomicUsize::new(0));
    let inflight: Arc<Vec<AtomicI64>> = Arc::new((0..9).map(|_| AtomicI64::new(0)).collect());
    let phase = Arc::new(AtomicUsize::new(0));
    {
        let (ops, inflight, phase) = (Arc::clone(&ops), Arc::clone(&inflight), Arc::clone(&phase));
        std::thread::spawn(move || {
            let mut last = (usize::MAX, Instant::now());
            loop {
                std::thread::sleep(Duration::from_millis(200));
                let now = ops.load(Ordering::SeqCst) + 1_000_000 * phase.load(Ordering::SeqCst);
                if now != last.0 {
                    last = (now, Instant::now());
                } else if last.1.elapsed() > Duration::from_secs(15) {
                    let fl: Vec<i64> = inflight.iter().map(|a| a.load(Ordering::SeqCst)).collect();
                    println!(
                        "NSSTRESS hung=1 phase={} ops={} in_flight(create_topic,create_topic,delete_topic,create_sub,create_sub,delete_sub,get_info,list,final)={:?}",
                        phase.load(Ordering::SeqCst), ops.load(Ordering::SeqCst), fl
                    );
                    std::process::exit(0);
                }
            }
        });
    }
    let (mut count_mismatch, mut listing_mismatch, mut not_delivered, mut duplicate_ids) = (0usize, 0usize, 0usize, 0usize);
    rt.block_on(async {
        let app = Arc::new(Deltio::new());
        let (tm, sm, _) = app.verif_parts();
        let tname = |i: usize| TopicName::try_parse(&format!("projects/p/topics/t{}", i)).unwrap();
        let sname = |i: usize| SubscriptionName::try_parse(&format!("projects/p/subscriptions/s{}", i)).unwrap();
        // topic 0 is never deleted (so that subscriptions always have a live topic to be created on)
        let _ = tm.create_topic(tname(0));
        topic_balance[0].fetch_add(1, Ordering::SeqCst);
        let until = Instant::now() + Duration::from_millis(millis);
        let mut tasks = Vec::new();
        for w in 0..(workers * 2) {
            let (tm, sm, tb, sb, ops) = (Arc::clone(&tm), Arc::clone(&sm), Arc::clone(&topic_balance), Arc::clone(&sub_balance), Arc::clone(&ops));
            let inflight = Arc::clone(&inflight);
            tasks.push(tokio::spawn(async move {
                let mut x: u64 = 0x9e3779b97f4a7c15u64.wrapping_mul(w as u64 + 1);
                let mut next = move || {
                    x ^= x << 13;
                    x ^= x >> 7;
                    x ^= x << 17;
                    x
                };
                while Instant::now() < until {
                    let r = next();
                    let ti = (r >> 8) as usize % n_topics;
                    let si = (r >> 16) as usize % n_subs;
                    let kind = (r % 8) as usize;
                    inflight[kind].fetch_add(1, Ordering::SeqCst);
                    match r % 8 {
                        0 | 1 => {
                            if tm.create_topic(tname(ti)).is_ok() {
                                tb[ti].fetch_add(1, Ordering::SeqCst);
                            }
                        }
                        2 if ti != 0 => {
                            if let Ok(t) = tm.get_topic(&tname(ti)) {
                                if t.delete().await.is_ok() {
                                    tb[ti].fetch_sub(1, Ordering::SeqCst);
                                }
                            }
                        }
                        3 | 4 => {
                            // subscriptions are created on topic 0 only: a subscription of a deleted topic keeps
                            // existing, which would blur the listing comparison below
                            if let Ok(t) = tm.get_topic(&tname(0)) {
                                let info = SubscriptionInfo::new(sname(si), Duration::from_secs(600), None);
                                if sm.create_subscription(info, t).await.is_ok() {
                                    sb[si].fetch_add(1, Ordering::SeqCst);
                                }
                            }
                        }
                        5 => {
                            if let Ok(s) = sm.get_subscription(&sname(si)) {
                                if s.delete().await.is_ok() {
                                    sb[si].fetch_sub(1, Ordering::SeqCst);
                                }
                            }
                        }
                        6 => {
                            if let Ok(s) = sm.get_subscription(&sname(si)) {
                                let _ = s.get_info().await;
                            }
                        }
                        _ => {
                            if let Ok(t) = tm.get_topic(&tname(0)) {
                                let _ = t.list_subscriptions(Paging::start(100)).await;
                            }
                        }
                    }
                    inflight[kind].fetch_sub(1, Ordering::SeqCst);
                    ops.fetch_add(1, Ordering::SeqCst);
                    if r % 5 == 0 {
                        tokio::task::yield_now().await;
                    }
                }
            }));
        }
        for t in tasks {
            let _ = t.await;
        }
        phase.store(1, Ordering::SeqCst);
        inflight[8].fetch_add(1, Ordering::SeqCst);
        // quiescent: compare
        for i in 0..n_topics {
            let bal = topic_balance[i].load(Ordering::SeqCst);
            let present = tm.get_topic(&tname(i)).is_ok();
            if !(bal == 0 || bal == 1) || (bal == 1) != present {
                count_mismatch += 1;
                eprintln!("topic t{}: creates - deletes = {}, present = {}", i, bal, present);
            }
        }
        let mut live_subs = BTreeSet::new();
        for i in 0..n_subs {
            let bal = sub_balance[i].load(Ordering::SeqCst);
            let present = sm.get_subscription(&sname(i)).is_ok();
            if !(bal == 0 || bal == 1) || (bal == 1) != present {
                count_mismatch += 1;
                eprintln!("subscription s{}: creates - deletes = {}, present = {}", i, bal, present);
            }
            if present {
                live_subs.insert(sname(i).to_string());
            }
        }
        phase.store(2, Ordering::SeqCst);
        if let Ok(t0) = tm.get_topic(&tname(0)) {
            let listed: Vec<String> = t0
                .list_subscriptions(Paging::start(100))
                .await
                .map(|p| p.subscriptions.iter().map(|s| s.name.to_string()).collect())
                .unwrap_or_default();
            let set: BTreeSet<String> = listed.iter().cloned().collect();
            if set.len() != listed.len() || set != live_subs {
                listing_mismatch += 1;
                eprintln!("topic t0 lists {:?}, the subscriptions that exist are {:?}", listed, live_subs);
            }
        }
        if let Ok(page) = sm.list_subscriptions_in_project("p".into(), Paging::start(100)) {
            let listed: Vec<String> = page.subscriptions.iter().map(|s| s.name.to_string()).collect();
            let set: BTreeSet<String> = listed.iter().cloned().collect();
            if set.len() != listed.len() || set != live_subs {
                listing_mismatch += 1;
                eprintln!("ListSubscriptions gives {:?}, the subscriptions that exist are {:?}", listed, live_subs);
            }
        }
        phase.store(3, Ordering::SeqCst);
        // every surviving topic publishes; ids are globally distinct; topic 0 reaches every surviving subscription
        let mut seen: HashMap<u64, String> = HashMap::new();
        let mut expect: BTreeMap<String, u64> = BTreeMap::new();
        for i in 0..n_topics {
            if let Ok(t) = tm.get_topic(&tname(i)) {
                let msg = TopicMessage::new(format!("final {}", i).into_bytes().into(), None);
                if let Ok(r) = t.publish_messages(vec![msg]).await {
                    for id in r.message_ids {
                        if let Some(other) = seen.insert(id.value, t.name.to_string()) {
                            duplicate_ids += 1;
                            eprintln!("message id {} issued by {} and by {}", id.value, other, t.name);
                        }
                        if i == 0 {
                            expect.insert("t0".into(), id.value);
                        }
                    }
                }
            }
        }
        phase.store(4, Ordering::SeqCst);
        if let Some(want) = expect.get("t0") {
            for i in 0..n_subs {
                if let Ok(s) = sm.get_subscription(&sname(i)) {
                    let mut got_it = false;
                    loop {
                        let got = s.pull_messages(1000).await.unwrap_or_default();
                        if got.is_empty() {
                            break;
                        }
                        got_it |= got.iter().any(|m| m.message().id.value == *want);
                    }
                    if !got_it {
                        not_delivered += 1;
                        eprintln!("subscription s{} exists on t0 and did not receive the final message", i);
                    }
                }
            }
        }
    });
    println!(
        "NSSTRESS ops={} count_mismatch={} listing_mismatch={} not_delivered={} duplicate_ids={}",
        ops.load(Ordering::SeqCst), count_mismatch, listing_mismatch, not_delivered, duplicate_ids
    );
    0
}
