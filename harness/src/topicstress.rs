//! harness topicstress <rounds> <threads>
//!
//! OS threads, real scheduling: per round `threads` threads, released together from a spinning start line, each
//! create six topics of their own in a tight loop (TopicManager::create_topic is a synchronous function); then a
//! subscription is created on every topic, one message is published on it and pulled.  Checked (C09): the ids Publish returned are pairwise distinct over all topics of the
//! run, and each subscription receives exactly the id its own Publish returned.
//! Prints: TOPICSTRESS rounds=<n> topics=<n> duplicate_ids=<n> wrong_delivery=<n>
use deltio::subscriptions::{SubscriptionInfo, SubscriptionName};
use deltio::topics::{TopicMessage, TopicName};
use deltio::Deltio;
use std::collections::HashMap;
use std::sync::atomic::{AtomicBool, AtomicUsize, Ordering};
use std::sync::Arc;
use std::time::Duration;

pub fn main_topicstress(args: &[String]) -> i32 {
    let rounds: usize = args.first().and_then(|s| s.parse().ok()).unwrap_or(200);
    let threads: usize = args.get(1).and_then(|s| s.parse().ok()).unwrap_or(8);
    let rt = tokio::runtime::Builder::new_multi_thread()
        .worker_threads(4)
        .enable_all()
        .build()
        .unwrap();
    let app = Arc::new(rt.block_on(async { Deltio::new() }));
    let (tm, sm, _) = app.verif_parts();
    let mut seen: HashMap<u64, String> = HashMap::new();
    let (mut topics, mut dup, mut wrong) = (0usize, 0usize, 0usize);
    for r in 0..rounds {
        // a spinning start line (a futex barrier wakes the threads microseconds apart, longer than a create takes),
        // and several creates per thread in a tight loop
        let (ready, go) = (Arc::new(AtomicUsize::new(0)), Arc::new(AtomicBool::new(false)));
        let mut handles = Vec::new();
        for t in 0..threads {
            let (tm, ready, go, handle) = (Arc::clone(&tm), Arc::clone(&ready), Arc::clone(&go), rt.handle().clone());
            handles.push(std::thread::spawn(move || {
                let _guard = handle.enter();
                let names: Vec<_> = (0..6)
                    .map(|j| TopicName::try_parse(&format!("projects/p/topics/r{}-t{}-{}", r, t, j)).unwrap())
                    .collect();
                ready.fetch_add(1, Ordering::SeqCst);
                while !go.load(Ordering::Acquire) {
                    std::hint::spin_loop();
                }
                names.into_iter().filter_map(|n| tm.create_topic(n).ok()).collect::<Vec<_>>()
            }));
        }
        while ready.load(Ordering::SeqCst) < threads {
            std::hint::spin_loop();
        }
        go.store(true, Ordering::Release);
        let created: Vec<_> = handles.into_iter().filter_map(|h| h.join().ok()).flatten().collect();
        topics += created.len();
        rt.block_on(async {
            for (i, topic) in created.iter().enumerate() {
                let sname = SubscriptionName::try_parse(&format!("projects/p/subscriptions/r{}-s{}", r, i)).unwrap();
                let info = SubscriptionInfo::new(sname, Duration::from_secs(600), None);
                let sub = match sm.create_subscription(info, Arc::clone(topic)).await {
                    Ok(s) => s,
                    Err(_) => continue,
                };
                let payload = format!("payload {}", topic.name);
                let msg = TopicMessage::new(payload.clone().into_bytes().into(), None);
                let ids = match topic.publish_messages(vec![msg]).await {
                    Ok(r) => r.message_ids,
                    Err(_) => continue,
                };
                for id in &ids {
                    if let Some(other) = seen.insert(id.value, topic.name.to_string()) {
                        dup += 1;
                        if dup <= 3 {
                            eprintln!("message id {} returned for {} and for {}", id.value, other, topic.name);
                        }
                    }
                }
                let got = sub.pull_messages(10).await.unwrap_or_default();
                if got.len() != 1 || got[0].message().id.value != ids[0].value || got[0].message().data.as_ref() != payload.as_bytes() {
                    wrong += 1;
                }
                let _ = sub.delete().await;
                let _ = topic.delete().await;
            }
        });
    }
    println!("TOPICSTRESS rounds={} topics={} duplicate_ids={} wrong_delivery={}", rounds, topics, dup, wrong);
    0
}
