//! `harness seqdiff`: runs every case of a file in a fresh child process.

use crate::seqcase::{case_text, parse_cases, Case};
use crate::util::hexs;
use std::io::{Read, Write};
use std::process::{Command, Stdio};
use std::sync::atomic::{AtomicUsize, Ordering};
use std::sync::{mpsc, Arc, Mutex};
use std::time::Duration;

/// Real-time limit per case (seconds); `HARNESS_CHILD_LIMIT_SECS` overrides it.
fn child_limit() -> Duration {
    let secs = std::env::var("HARNESS_CHILD_LIMIT_SECS")
        .ok()
        .and_then(|v| v.parse::<u64>().ok())
        .unwrap_or(60);
    Duration::from_secs(secs)
}

fn failure_result(id: &str, description: &str) -> String {
    format!("CASE {}\n!PANIC {}\nEND\n", id, hexs(description))
}

/// Checks that the child's output is a well-formed result for the case.
fn well_formed(id: &str, out: &str) -> bool {
    let mut lines = out.lines();
    let first_ok = lines.next() == Some(&format!("CASE {}", id)[..]);
    first_ok && out.ends_with("END\n") && out.lines().filter(|l| *l == "END").count() == 1
}

fn run_child(exe: &std::path::Path, case: &Case) -> String {
    let debug = std::env::var_os("HARNESS_DEBUG").is_some();
    let mut child = match Command::new(exe)
        .arg("seqcase")
        .stdin(Stdio::piped())
        .stdout(Stdio::piped())
        .stderr(if debug {
            Stdio::inherit()
        } else {
            Stdio::null()
        })
        .spawn()
    {
        Ok(c) => c,
        Err(e) => return failure_result(&case.id, &format!("cannot spawn child: {}", e)),
    };

    // The child reads all of stdin before it writes anything, so feeding the
    // whole case first cannot deadlock.
    if let Some(mut stdin) = child.stdin.take() {
        let _ = stdin.write_all(case_text(case).as_bytes());
    }

    let mut stdout = child.stdout.take().expect("child stdout");
    let (tx, rx) = mpsc::channel::<Vec<u8>>();
    let reader = std::thread::spawn(move || {
        let mut buf = Vec::new();
        let _ = stdout.read_to_end(&mut buf);
        let _ = tx.send(buf);
    });

    let limit = child_limit();
    let output = match rx.recv_timeout(limit) {
        Ok(buf) => buf,
        Err(_) => {
            let _ = child.kill();
            let _ = child.wait();
            let _ = reader.join();
            return failure_result(
                &case.id,
                &format!("child timed out after {} s", limit.as_secs()),
            );
        }
    };
    let _ = reader.join();
    let status = match child.wait() {
        Ok(s) => s,
        Err(e) => return failure_result(&case.id, &format!("cannot wait for child: {}", e)),
    };
    if !status.success() {
        #[cfg(unix)]
        let description = {
            use std::os::unix::process::ExitStatusExt;
            match (status.code(), status.signal()) {
                (Some(c), _) => format!("child exited with code {}", c),
                (None, Some(s)) => format!("child killed by signal {}", s),
                _ => "child died".to_string(),
            }
        };
        #[cfg(not(unix))]
        let description = format!("child died: {:?}", status.code());
        return failure_result(&case.id, &description);
    }
    match String::from_utf8(output) {
        Ok(s) if well_formed(&case.id, &s) => s,
        _ => failure_result(&case.id, "child produced malformed output"),
    }
}

/// Entry point of the `seqdiff` sub-command.
pub fn main_seqdiff(args: &[String]) -> i32 {
    let mut files = Vec::new();
    let mut jobs: usize = 16;
    let mut i = 0;
    while i < args.len() {
        if args[i] == "--jobs" {
            match args.get(i + 1).and_then(|v| v.parse::<usize>().ok()) {
                Some(n) if n >= 1 => jobs = n,
                _ => {
                    eprintln!("seqdiff: --jobs needs a positive integer");
                    return 2;
                }
            }
            i += 2;
        } else {
            files.push(args[i].clone());
            i += 1;
        }
    }
    if files.len() != 2 {
        eprintln!("usage: harness seqdiff <cases-file> <results-file> [--jobs N]");
        return 2;
    }

    let text = match std::fs::read_to_string(&files[0]) {
        Ok(t) => t,
        Err(e) => {
            eprintln!("seqdiff: cannot read {}: {}", files[0], e);
            return 2;
        }
    };
    let cases = match parse_cases(&text) {
        Ok(c) => c,
        Err(e) => {
            eprintln!("seqdiff: {}: {}", files[0], e);
            return 2;
        }
    };
    let exe = match std::env::current_exe() {
        Ok(e) => e,
        Err(e) => {
            eprintln!("seqdiff: cannot find own executable: {}", e);
            return 2;
        }
    };

    let cases = Arc::new(cases);
    let results: Arc<Mutex<Vec<Option<String>>>> = Arc::new(Mutex::new(vec![None; cases.len()]));
    let next = Arc::new(AtomicUsize::new(0));
    let workers = jobs.min(cases.len().max(1));
    let mut handles = Vec::new();
    for _ in 0..workers {
        let cases = Arc::clone(&cases);
        let results = Arc::clone(&results);
        let next = Arc::clone(&next);
        let exe = exe.clone();
        handles.push(std::thread::spawn(move || loop {
            let idx = next.fetch_add(1, Ordering::SeqCst);
            if idx >= cases.len() {
                break;
            }
            let result = run_child(&exe, &cases[idx]);
            results.lock().unwrap()[idx] = Some(result);
        }));
    }
    for h in handles {
        let _ = h.join();
    }

    let results = results.lock().unwrap();
    let mut out = String::new();
    for (idx, r) in results.iter().enumerate() {
        match r {
            Some(r) => out.push_str(r),
            None => out.push_str(&failure_result(&cases[idx].id, "worker thread died")),
        }
    }
    let write = std::fs::File::create(&files[1]).and_then(|mut f| {
        f.write_all(out.as_bytes())?;
        f.flush()
    });
    if let Err(e) = write {
        eprintln!("seqdiff: cannot write {}: {}", files[1], e);
        return 2;
    }
    0
}
