//! harness racestress <iterations> <workers>
//!
//! Searches the real code (multi-thread runtime, real time) for the schedule of
//! ConcActorsP.stale_attachment_after_delete: a DeleteSubscription that is handled completely
//! between the two steps of CreateSubscription (store, then attach). Prints one line:
//!   RACESTRESS iterations=<n> deleted_before_attach=<n> stale=<n> publish_failed=<n>
use deltio::subscriptions::{SubscriptionInfo, SubscriptionName};
use deltio::topics::{TopicMessage, TopicName};
use deltio::Deltio;
use std::sync::Arc;
use std::time::Duration;

pub fn main_racestress(args: &[String]) -> i32 {
    let iters: usize = args.first().and_then(|s| s.parse().ok()).unwrap_or(10_000);
    let workers: usize = args.get(1).and_then(|s| s.parse().ok()).unwrap_or(8);
    let rt = tokio::runtime::Builder::new_multi_thread()
        .worker_threads(workers)
        .enable_all()
        .build()
        .unwrap();
    let (mut raced, mut stale, mut pubfail) = (0usize, 0usize, 0usize);
    rt.block_on(async {
        let app = Deltio::new();
        let (tm, sm, _) = app.verif_parts();
        for i in 0..iters {
            let tname = TopicName::try_parse(&format!("projects/p/topics/t{}", i)).unwrap();
            let topic = tm.create_topic(tname.clone()).unwrap();
            let sname = SubscriptionName::try_parse(&format!("projects/p/subscriptions/s{}", i)).unwrap();
            // keep the topic actor busy so that its mailbox order matters
            let noise: Vec<_> = (0..(i % 5))
                .map(|_| {
                    let t = Arc::clone(&topic);
                    tokio::spawn(async move {
                        let _ = t.publish_messages(vec![TopicMessage::new(vec![1u8].into(), None)]).await;
                    })
                })
                .collect();
            let creator = {
                let sm = Arc::clone(&sm);
                let topic = Arc::clone(&topic);
                let info = SubscriptionInfo::new(sname.clone(), Duration::from_secs(10), None);
                tokio::spawn(async move { sm.create_subscription(info, topic).await.is_ok() })
            };
            let deleter = {
                let sm = Arc::clone(&sm);
                let sname = sname.clone();
                tokio::spawn(async move {
                    for _ in 0..200_000 {
                        if let Ok(sub) = sm.get_subscription(&sname) {
                            return sub.delete().await.is_ok();
                        }
                        std::hint::spin_loop();
                    }
                    false
                })
            };
            let _ = creator.await;
            let deleted = deleter.await.unwrap_or(false);
            for n in noise {
                let _ = n.await;
            }
            if !deleted {
                continue;
            }
            raced += 1;
            // quiescent now: the subscription is gone from the manager; is it still attached?
            tokio::time::sleep(Duration::from_millis(1)).await;
            let listed = topic
                .list_subscriptions(deltio::paging::Paging::start(10))
                .await
                .map(|p| p.subscriptions.len())
                .unwrap_or(0);
            if listed > 0 && sm.get_subscription(&sname).is_err() {
                stale += 1;
                let r = topic
                    .publish_messages(vec![TopicMessage::new(vec![2u8].into(), None)])
                    .await;
                if r.is_err() {
                    pubfail += 1;
                }
                if stale <= 3 {
                    eprintln!("stale attachment at iteration {}: topic lists {} subscription(s), manager has none; publish -> {:?}", i, listed, r.is_ok());
                }
            }
            let _ = topic.delete().await;
        }
    });
    println!(
        "RACESTRESS iterations={} deleted_before_attach={} stale={} publish_failed={}",
        iters, raced, stale, pubfail
    );
    0
}
