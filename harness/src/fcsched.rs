//! `harness fcsched` / `harness fccase`: runs the real
//! `deltio::subscriptions::flow_control::FlowControl` under an explicit
//! schedule, one atomic operation per schedule entry (docs/FORMAT-fc.md).
//!
//! The gate callback of `deltio::verif` is process-global, so the parent
//! (`fcsched`) runs every case in a fresh child process (`fccase`).
//!
//! Child: one OS thread per `T` line.  Every thread is held by the scheduler
//! (the main thread) at a synthetic start gate, then at every `fc:*` gate,
//! i.e. immediately before each atomic operation.  "Release thread i for one
//! step" = give it one permit and wait until it reports its next position
//! (next gate / parked / done).  At most one worker thread runs at any time.

use crate::seqcase::{case_text, parse_cases, Case};
use crate::util::{hexs, panic_message};
use deltio::subscriptions::flow_control::{self, FlowControl};
use std::cell::Cell;
use std::future::Future;
use std::io::{Read, Write};
use std::panic::AssertUnwindSafe;
use std::process::{Command, Stdio};
use std::sync::atomic::{AtomicBool, AtomicUsize, Ordering};
use std::sync::{mpsc, Arc, Condvar, Mutex};
use std::task::{Context, Poll, Wake, Waker};
use std::time::Duration;

/// Real-time limit of every wait of the scheduler; `HARNESS_FC_STEP_MS` overrides it.
fn step_limit() -> Duration {
    let ms = std::env::var("HARNESS_FC_STEP_MS")
        .ok()
        .and_then(|v| v.parse::<u64>().ok())
        .unwrap_or(5000);
    Duration::from_millis(ms)
}

// ---------------------------------------------------------------------------
// Case text
// ---------------------------------------------------------------------------

#[derive(Clone, Copy, Debug, PartialEq)]
enum Kind {
    Waiter,
    Inc(u64, u64),
    Dec(u64, u64),
}

struct FcCase {
    max_msgs: u64,
    max_bytes: u64,
    init_msgs: u64,
    init_bytes: u64,
    threads: Vec<Kind>,
    sched: Vec<u64>,
}

fn toks(line: &str) -> Vec<&str> {
    line.split(' ').filter(|t| !t.is_empty()).collect()
}

fn nat(t: &str) -> Option<u64> {
    if t.is_empty() || !t.bytes().all(|b| b.is_ascii_digit()) {
        return None;
    }
    t.parse::<u64>().ok()
}

/// `CFG` line, then `T` lines, then exactly one `SCHED` line (the last line).
/// Anything else is unparsable (the result is the single line `?`).
fn parse_fc(case: &Case) -> Option<FcCase> {
    let lines: Vec<Vec<&str>> = case
        .ops
        .iter()
        .map(|l| toks(l))
        .filter(|t| !t.is_empty())
        .collect();
    let (cfg, rest) = lines.split_first()?;
    if cfg.len() != 5 || cfg[0] != "CFG" {
        return None;
    }
    let (sched_line, tlines) = rest.split_last()?;
    let mut threads = Vec::new();
    for t in tlines {
        match t.as_slice() {
            ["T", "W"] => threads.push(Kind::Waiter),
            ["T", "I", a, b] => threads.push(Kind::Inc(nat(a)?, nat(b)?)),
            ["T", "D", a, b] => threads.push(Kind::Dec(nat(a)?, nat(b)?)),
            _ => return None,
        }
    }
    if sched_line.first() != Some(&"SCHED") {
        return None;
    }
    let mut sched = Vec::new();
    for t in &sched_line[1..] {
        sched.push(nat(t)?);
    }
    Some(FcCase {
        max_msgs: nat(cfg[1])?,
        max_bytes: nat(cfg[2])?,
        init_msgs: nat(cfg[3])?,
        init_bytes: nat(cfg[4])?,
        threads,
        sched,
    })
}

// ---------------------------------------------------------------------------
// Child: threads, gates, scheduler
// ---------------------------------------------------------------------------

/// What a worker thread reports to the scheduler.
#[derive(Clone, Debug, PartialEq)]
enum Pos {
    /// Blocked at this gate = about to perform this atomic operation.
    Gate(&'static str),
    /// The waiter's future returned `Pending`.
    Parked,
    /// The call returned.
    Done,
    /// The thread panicked.
    Panicked(String),
}

impl Pos {
    fn name(&self) -> String {
        match self {
            Pos::Gate(p) => p.strip_prefix("fc:").unwrap_or(p).to_string(),
            Pos::Parked => "parked".to_string(),
            Pos::Done => "done".to_string(),
            Pos::Panicked(_) => "panicked".to_string(),
        }
    }
}

/// One permit slot per worker thread.
struct Ctl {
    permit: Mutex<bool>,
    cv: Condvar,
}

impl Ctl {
    fn new() -> Ctl {
        Ctl {
            permit: Mutex::new(false),
            cv: Condvar::new(),
        }
    }
    /// Worker side: blocks until the scheduler grants a permit and consumes it.
    /// Not timed: the scheduler owns all timeouts, and the process exits (which
    /// ends every blocked worker) as soon as the scheduler is done.
    fn acquire(&self) {
        let mut p = self.permit.lock().unwrap_or_else(|e| e.into_inner());
        while !*p {
            p = self.cv.wait(p).unwrap_or_else(|e| e.into_inner());
        }
        *p = false;
    }
    /// Scheduler side.
    fn grant(&self) {
        *self.permit.lock().unwrap_or_else(|e| e.into_inner()) = true;
        self.cv.notify_all();
    }
}

struct Shared {
    ctls: Vec<Ctl>,
    /// `woken[i]`: the waker of waiter i has fired since it last parked.
    woken: Vec<Arc<AtomicBool>>,
    tx: Mutex<mpsc::Sender<(usize, Pos)>>,
}

impl Shared {
    fn report(&self, idx: usize, pos: Pos) {
        let _ = self
            .tx
            .lock()
            .unwrap_or_else(|e| e.into_inner())
            .send((idx, pos));
    }
}

thread_local! {
    /// Index of the calling worker thread; `None` on every other thread.
    static IDX: Cell<Option<usize>> = const { Cell::new(None) };
}

struct FlagWaker {
    flag: Arc<AtomicBool>,
    /// Number of wake-ups (diagnostics only).
    count: AtomicUsize,
}

impl Wake for FlagWaker {
    fn wake(self: Arc<Self>) {
        self.wake_by_ref()
    }
    fn wake_by_ref(self: &Arc<Self>) {
        self.count.fetch_add(1, Ordering::SeqCst);
        self.flag.store(true, Ordering::SeqCst);
    }
}

fn worker(idx: usize, kind: Kind, fc: Arc<FlowControl>, sh: Arc<Shared>) {
    IDX.with(|c| c.set(Some(idx)));
    // Synthetic start gate: nothing of the call runs before the first permit.
    sh.ctls[idx].acquire();
    let body = std::panic::catch_unwind(AssertUnwindSafe(|| match kind {
        Kind::Inc(db, dm) => fc.inc(db, dm),
        Kind::Dec(db, dm) => fc.dec(db, dm),
        Kind::Waiter => {
            // A hand-written single-future executor.
            let fut = fc.wait_for_available_space();
            let mut fut = std::pin::pin!(fut);
            let waker = Waker::from(Arc::new(FlagWaker {
                flag: Arc::clone(&sh.woken[idx]),
                count: AtomicUsize::new(0),
            }));
            let mut cx = Context::from_waker(&waker);
            loop {
                match fut.as_mut().poll(&mut cx) {
                    Poll::Ready(()) => break,
                    Poll::Pending => {
                        sh.report(idx, Pos::Parked);
                        sh.ctls[idx].acquire();
                        // The scheduler only releases a parked waiter whose
                        // waker has fired (it clears the flag when it does).
                    }
                }
            }
        }
    }));
    match body {
        Ok(()) => sh.report(idx, Pos::Done),
        Err(p) => sh.report(idx, Pos::Panicked(panic_message(p.as_ref()))),
    }
}

/// Why a case stops early.
enum Stop {
    Hang,
    Panic(String),
}

struct Sched {
    sh: Arc<Shared>,
    rx: mpsc::Receiver<(usize, Pos)>,
    pos: Vec<Pos>,
    limit: Duration,
}

impl Sched {
    /// Grants thread i one permit and waits for its next report.
    fn release(&mut self, i: usize) -> Result<(), Stop> {
        self.sh.ctls[i].grant();
        match self.rx.recv_timeout(self.limit) {
            Ok((j, Pos::Panicked(m))) => Err(Stop::Panic(format!("thread {}: {}", j, m))),
            Ok((j, p)) if j == i => {
                self.pos[i] = p;
                Ok(())
            }
            Ok((j, p)) => Err(Stop::Panic(format!(
                "scheduler: released thread {} but thread {} reported {:?}",
                i, j, p
            ))),
            Err(_) => Err(Stop::Hang),
        }
    }

    /// Lets every parked waiter whose waker has fired run up to its next gate,
    /// which must be `fc:notified` (the re-poll of the completed `Notified`
    /// future and the jump to the loop head are not atomic operations of the
    /// model: nothing shared is read or written).  In thread order.
    fn advance_woken(&mut self) -> Result<(), Stop> {
        for j in 0..self.pos.len() {
            if self.pos[j] == Pos::Parked && self.sh.woken[j].swap(false, Ordering::SeqCst) {
                // Wherever the woken task stops next is simply its new position; the
                // comparison with the model decides whether that is the right one.
                self.release(j)?;
            }
        }
        Ok(())
    }
}

/// Checks, through `has_available_space()` only, that the real counters hold
/// `(msgs, bytes)`; `None` when the limits make that unobservable.
///
/// The counters are private and there is no accessor, so the harness keeps a
/// shadow of them (wrapping u64 arithmetic, updated when a mutator performs a
/// fetch step) and confirms the shadow here: shift the counters by wrapping
/// deltas such that the expected values become (max_msgs-1, max_bytes-1); then
/// there must be space, and one more message or one more byte must take the
/// space away.  That pins both counters exactly (mod 2^64).
fn confirm_counters(fc: &FlowControl, c: &FcCase, msgs: u64, bytes: u64) -> Option<bool> {
    if c.max_msgs == 0 || c.max_bytes == 0 {
        return None;
    }
    let dm = (c.max_msgs - 1).wrapping_sub(msgs);
    let db = (c.max_bytes - 1).wrapping_sub(bytes);
    fc.inc(db, dm);
    let a = fc.has_available_space();
    fc.inc(0, 1);
    let b = fc.has_available_space();
    fc.dec(0, 1);
    fc.inc(1, 0);
    let d = fc.has_available_space();
    fc.dec(1, 0);
    fc.dec(db, dm);
    Some(a && !b && !d)
}

fn run_fc(c: &FcCase) -> Vec<String> {
    let mut lines = Vec::new();
    let n = c.threads.len();
    let fc = Arc::new(flow_control::create(c.max_bytes, c.max_msgs));
    // Initial counters, before the gate exists.
    fc.inc(c.init_bytes, c.init_msgs);
    let mut msgs = c.init_msgs;
    let mut bytes = c.init_bytes;

    let (tx, rx) = mpsc::channel();
    let sh = Arc::new(Shared {
        ctls: (0..n).map(|_| Ctl::new()).collect(),
        woken: (0..n).map(|_| Arc::new(AtomicBool::new(false))).collect(),
        tx: Mutex::new(tx),
    });

    {
        let sh = Arc::clone(&sh);
        deltio::verif::set_gate(Some(Arc::new(move |point: &'static str| {
            if let Some(idx) = IDX.with(|c| c.get()) {
                sh.report(idx, Pos::Gate(point));
                sh.ctls[idx].acquire();
            }
        })));
    }

    for (idx, kind) in c.threads.iter().enumerate() {
        let fc = Arc::clone(&fc);
        let sh = Arc::clone(&sh);
        let kind = *kind;
        std::thread::Builder::new()
            .name(format!("fc-{}", idx))
            .spawn(move || worker(idx, kind, fc, sh))
            .expect("spawn worker");
    }

    let mut s = Sched {
        sh: Arc::clone(&sh),
        rx,
        pos: vec![Pos::Gate("start"); n],
        limit: step_limit(),
    };

    let stop_line = |s: Stop| match s {
        Stop::Hang => "!HANG".to_string(),
        Stop::Panic(m) => format!("!PANIC {}", hexs(&m)),
    };

    // Start gate -> first real gate, for every thread, outside the schedule.
    for i in 0..n {
        if let Err(e) = s.release(i) {
            lines.push(stop_line(e));
            return lines;
        }
        // Where a thread stops first is part of the observed trace (the model says: a waiter at fc:load_msgs,
        // an inc / dec at fc:fetch_bytes); it is not enforced here, so that a change of the program order shows
        // up as a disagreement with a full trace instead of stopping the case.
    }

    // For every waiter: was each counter below its limit at some instant since the waiter started?  (It may have
    // loaded the two at different instants - that is allowed - but it cannot have observed a value that never was.)
    let mut saw_msgs = vec![msgs < c.max_msgs; n];
    let mut saw_bytes = vec![bytes < c.max_bytes; n];
    let mut unsafe_reported = vec![false; n];

    for &entry in &c.sched {
        let runnable = entry < n as u64 && matches!(s.pos[entry as usize], Pos::Gate(_));
        if !runnable {
            lines.push(format!("{} -", entry));
            continue;
        }
        let i = entry as usize;
        let at = s.pos[i].clone();
        let r = s.release(i).and_then(|()| {
            // Thread i has performed the operation of the gate it was at.
            match (&at, c.threads[i]) {
                (Pos::Gate("fc:fetch_bytes"), Kind::Inc(db, _)) => bytes = bytes.wrapping_add(db),
                (Pos::Gate("fc:fetch_bytes"), Kind::Dec(db, _)) => bytes = bytes.wrapping_sub(db),
                (Pos::Gate("fc:fetch_msgs"), Kind::Inc(_, dm)) => msgs = msgs.wrapping_add(dm),
                (Pos::Gate("fc:fetch_msgs"), Kind::Dec(_, dm)) => msgs = msgs.wrapping_sub(dm),
                _ => {}
            }
            s.advance_woken()
        });
        match r {
            Ok(()) => lines.push(format!("{} {}", i, s.pos[i].name())),
            Err(e) => {
                lines.push(stop_line(e));
                return lines;
            }
        }
        for w in 0..n {
            if matches!(c.threads[w], Kind::Waiter) {
                let done = s.pos[w].name() == "done";
                if !done {
                    saw_msgs[w] |= msgs < c.max_msgs;
                    saw_bytes[w] |= bytes < c.max_bytes;
                } else if !(saw_msgs[w] && saw_bytes[w]) && !unsafe_reported[w] {
                    unsafe_reported[w] = true;
                    lines.push(format!(
                        "!UNSAFE {} returned although {} never was below its limit while it waited",
                        w,
                        if !saw_bytes[w] { "the byte count" } else { "the message count" }
                    ));
                }
            }
        }
    }

    let states: Vec<String> = s.pos.iter().map(|p| p.name()).collect();
    // The schedule is over: no more gates.  The remaining workers stay blocked
    // and die with the process.
    deltio::verif::set_gate(None);
    if confirm_counters(&fc, c, msgs, bytes) == Some(false) {
        lines.push(format!("!COUNTERS {} {}", msgs, bytes));
    }
    let mut fin = format!("FINAL {} {}", msgs, bytes);
    for st in &states {
        fin.push(' ');
        fin.push_str(st);
    }
    lines.push(fin);
    lines
}

/// Runs one case and returns its result lines (without the CASE/END frame).
fn run_case(case: &Case) -> Vec<String> {
    let debug = std::env::var_os("HARNESS_DEBUG").is_some();
    std::panic::set_hook(Box::new(move |info| {
        if debug {
            eprintln!("panic: {}", info);
        }
    }));
    let c = match parse_fc(case) {
        Some(c) => c,
        None => return vec!["?".to_string()],
    };
    match std::panic::catch_unwind(AssertUnwindSafe(|| run_fc(&c))) {
        Ok(lines) => lines,
        Err(p) => vec![format!("!PANIC {}", hexs(&panic_message(p.as_ref())))],
    }
}

/// Entry point of the `fccase` sub-command (child mode).
pub fn main_fccase() -> i32 {
    let mut text = String::new();
    if std::io::stdin().read_to_string(&mut text).is_err() {
        eprintln!("fccase: cannot read stdin");
        return 2;
    }
    let cases = match parse_cases(&text) {
        Ok(c) => c,
        Err(e) => {
            eprintln!("fccase: {}", e);
            return 2;
        }
    };
    if cases.len() != 1 {
        eprintln!("fccase: expected exactly one case on stdin");
        return 2;
    }
    let lines = run_case(&cases[0]);
    let mut out = format!("CASE {}\n", cases[0].id);
    for l in &lines {
        out.push_str(l);
        out.push('\n');
    }
    out.push_str("END\n");
    let stdout = std::io::stdout();
    let mut lock = stdout.lock();
    if lock.write_all(out.as_bytes()).is_err() || lock.flush().is_err() {
        return 2;
    }
    // main() calls process::exit, which ends the workers still held at a gate.
    0
}

// ---------------------------------------------------------------------------
// Parent (same conventions as seqdiff)
// ---------------------------------------------------------------------------

fn child_limit() -> Duration {
    let secs = std::env::var("HARNESS_CHILD_LIMIT_SECS")
        .ok()
        .and_then(|v| v.parse::<u64>().ok())
        .unwrap_or(60);
    Duration::from_secs(secs)
}

fn failure_result(id: &str, description: &str) -> String {
    format!("CASE {}\n!PANIC {}\nEND\n", id, hexs(description))
}

fn well_formed(id: &str, out: &str) -> bool {
    let mut lines = out.lines();
    let first_ok = lines.next() == Some(&format!("CASE {}", id)[..]);
    first_ok && out.ends_with("END\n") && out.lines().filter(|l| *l == "END").count() == 1
}

fn run_child(exe: &std::path::Path, case: &Case) -> String {
    let debug = std::env::var_os("HARNESS_DEBUG").is_some();
    let mut child = match Command::new(exe)
        .arg("fccase")
        .stdin(Stdio::piped())
        .stdout(Stdio::piped())
        .stderr(if debug {
            Stdio::inherit()
        } else {
            Stdio::null()
        })
        .spawn()
    {
        Ok(c) => c,
        Err(e) => return failure_result(&case.id, &format!("cannot spawn child: {}", e)),
    };
    // The child reads all of stdin before it writes anything.
    if let Some(mut stdin) = child.stdin.take() {
        let _ = stdin.write_all(case_text(case).as_bytes());
    }
    let mut stdout = child.stdout.take().expect("child stdout");
    let (tx, rx) = mpsc::channel::<Vec<u8>>();
    let reader = std::thread::spawn(move || {
        let mut buf = Vec::new();
        let _ = stdout.read_to_end(&mut buf);
        let _ = tx.send(buf);
    });
    let limit = child_limit();
    let output = match rx.recv_timeout(limit) {
        Ok(buf) => buf,
        Err(_) => {
            let _ = child.kill();
            let _ = child.wait();
            let _ = reader.join();
            return failure_result(
                &case.id,
                &format!("child timed out after {} s", limit.as_secs()),
            );
        }
    };
    let _ = reader.join();
    let status = match child.wait() {
        Ok(s) => s,
        Err(e) => return failure_result(&case.id, &format!("cannot wait for child: {}", e)),
    };
    if !status.success() {
        #[cfg(unix)]
        let description = {
            use std::os::unix::process::ExitStatusExt;
            match (status.code(), status.signal()) {
                (Some(c), _) => format!("child exited with code {}", c),
                (None, Some(s)) => format!("child killed by signal {}", s),
                _ => "child died".to_string(),
            }
        };
        #[cfg(not(unix))]
        let description = format!("child died: {:?}", status.code());
        return failure_result(&case.id, &description);
    }
    match String::from_utf8(output) {
        Ok(s) if well_formed(&case.id, &s) => s,
        _ => failure_result(&case.id, "child produced malformed output"),
    }
}

/// Entry point of the `fcsched` sub-command.
pub fn main_fcsched(args: &[String]) -> i32 {
    let mut files = Vec::new();
    let mut jobs: usize = 16;
    let mut i = 0;
    while i < args.len() {
        if args[i] == "--jobs" {
            match args.get(i + 1).and_then(|v| v.parse::<usize>().ok()) {
                Some(n) if n >= 1 => jobs = n,
                _ => {
                    eprintln!("fcsched: --jobs needs a positive integer");
                    return 2;
                }
            }
            i += 2;
        } else {
            files.push(args[i].clone());
            i += 1;
        }
    }
    if files.len() != 2 {
        eprintln!("usage: harness fcsched <cases-file> <results-file> [--jobs N]");
        return 2;
    }
    let text = match std::fs::read_to_string(&files[0]) {
        Ok(t) => t,
        Err(e) => {
            eprintln!("fcsched: cannot read {}: {}", files[0], e);
            return 2;
        }
    };
    let cases = match parse_cases(&text) {
        Ok(c) => c,
        Err(e) => {
            eprintln!("fcsched: {}: {}", files[0], e);
            return 2;
        }
    };
    let exe = match std::env::current_exe() {
        Ok(e) => e,
        Err(e) => {
            eprintln!("fcsched: cannot find own executable: {}", e);
            return 2;
        }
    };

    let cases = Arc::new(cases);
    let results: Arc<Mutex<Vec<Option<String>>>> = Arc::new(Mutex::new(vec![None; cases.len()]));
    let next = Arc::new(AtomicUsize::new(0));
    let workers = jobs.min(cases.len().max(1));
    let mut handles = Vec::new();
    for _ in 0..workers {
        let cases = Arc::clone(&cases);
        let results = Arc::clone(&results);
        let next = Arc::clone(&next);
        let exe = exe.clone();
        handles.push(std::thread::spawn(move || loop {
            let idx = next.fetch_add(1, Ordering::SeqCst);
            if idx >= cases.len() {
                break;
            }
            let result = run_child(&exe, &cases[idx]);
            results.lock().unwrap()[idx] = Some(result);
        }));
    }
    for h in handles {
        let _ = h.join();
    }

    let results = results.lock().unwrap();
    let mut out = String::new();
    for (idx, r) in results.iter().enumerate() {
        match r {
            Some(r) => out.push_str(r),
            None => out.push_str(&failure_result(&cases[idx].id, "worker thread died")),
        }
    }
    let write = std::fs::File::create(&files[1]).and_then(|mut f| {
        f.write_all(out.as_bytes())?;
        f.flush()
    });
    if let Err(e) = write {
        eprintln!("fcsched: cannot write {}: {}", files[1], e);
        return 2;
    }
    0
}
