//! Test harness for deltio: see /verif/docs/FORMAT.md for the file formats.
//!
//! Sub-commands:
//!   harness seqdiff <cases-file> <results-file> [--jobs N]
//!   harness seqcase                      (child mode: case on stdin, result on stdout)
//!   harness puresweep <ops-file> <results-file>
//!   harness fcsched <cases-file> <results-file> [--jobs N]   (docs/FORMAT-fc.md)
//!   harness fccase                       (child mode of fcsched)

mod datastress;
mod deletestress;
mod fcsched;
mod grpcstress;
mod mailstress;
mod nsstress;
mod orderstress;
mod puresweep;
mod pushstress;
mod racestress;
mod seqcase;
mod topicstress;
mod seqdiff;
mod util;

fn main() {
    let args: Vec<String> = std::env::args().skip(1).collect();
    let code = match args.first().map(|s| s.as_str()) {
        Some("seqdiff") => seqdiff::main_seqdiff(&args[1..]),
        Some("seqcase") if args.len() == 1 => seqcase::main_seqcase(),
        Some("puresweep") => puresweep::main_puresweep(&args[1..]),
        Some("fcsched") => fcsched::main_fcsched(&args[1..]),
        Some("fccase") if args.len() == 1 => fcsched::main_fccase(),
        Some("racestress") => racestress::main_racestress(&args[1..]),
        Some("orderstress") => orderstress::main_orderstress(&args[1..]),
        Some("pushstress") => pushstress::main_pushstress(&args[1..]),
        Some("mailstress") => mailstress::main_mailstress(&args[1..]),
        Some("nsstress") => nsstress::main_nsstress(&args[1..]),
        Some("datastress") => datastress::main_datastress(&args[1..]),
        Some("grpcstress") => grpcstress::main_grpcstress(&args[1..]),
        Some("topicstress") => topicstress::main_topicstress(&args[1..]),
        Some("deletestress") => deletestress::main_deletestress(&args[1..]),
        _ => {
            eprintln!(
                "usage:\n  harness seqdiff <cases-file> <results-file> [--jobs N]\n  harness seqcase < case > result\n  harness puresweep <ops-file> <results-file>\n  harness fcsched <cases-file> <results-file> [--jobs N]\n  harness fccase < case > result"
            );
            2
        }
    };
    std::process::exit(code);
}
