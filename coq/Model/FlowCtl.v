(* Model of src/subscriptions/flow_control.rs (property C19).

   A small-step transition system at the granularity of one atomic operation
   per step, for any number of threads, under a sequentially consistent
   interleaving of the atomic operations.

   Shared state: the two AtomicU64 counters, and of the tokio 1.40 `Notify` the
   counter `calls` of notify_waiters() invocations; the set of registered
   waiters of the Notify is the set of threads whose program counter is
   `WParked`.  Notify semantics modelled (notify_one is never used by
   flow_control.rs):
     - `notified()` creates a future that snapshots `calls`;
     - the first poll of that future completes immediately when `calls`
       differs from the snapshot, otherwise registers the waiter (parks);
     - `notify_waiters()` increments `calls` and wakes every registered
       waiter; it stores no permit.

   Numbers: `N`; fetch_add / fetch_sub wrap around modulo 2^64 like the
   AtomicU64 operations do (initial values and deltas are below 2^64).  None of
   the theorems in Proofs/FlowCtlP.v depends on the arithmetic of the deltas:
   they only use that a counter keeps its value while no mutator writes it.

   A load and the comparison + branch that follows it are one step: the
   comparison is thread-local, so it commutes with every step of every other
   thread.  has_available_space() short-circuits exactly as the Rust code does:
   bytes is not loaded when messages >= max_outstanding_messages. *)
From Coq Require Export NArith List Bool.
Export ListNotations.
Open Scope N_scope.

Record cfg := { max_m : N; max_b : N }.

(* Program counter of a task executing wait_for_available_space(). *)
Inductive wpc :=
| W0                                   (* first check: about to load messages *)
| W1 (m : N)                           (* first check: loaded m < max_m, about to load bytes *)
| WL                                   (* loop head: about to call notifier.notified() *)
| WS (s : N)                           (* holds Notified with snapshot s, about to load messages *)
| WM (s m : N)                         (* ... loaded m < max_m, about to load bytes *)
| WP (s m : N) (ob : option N)         (* check failed with loaded values m / ob, about to poll Notified *)
| WParked (s m : N) (ob : option N)    (* registered in the Notify waiter set, pending *)
| WDone (m b : N).                     (* returned; m, b are the values loaded by the successful check *)

Inductive mkind := Inc | Dec.
(* Program counter of a task executing inc()/dec(). *)
Inductive mpc :=
| M0        (* about to fetch_add/sub on outstanding_bytes *)
| M1        (* about to fetch_add/sub on outstanding_messages *)
| M2        (* about to call notify_waiters() *)
| MDone.

Inductive thread :=
| TW (pc : wpc)
| TM (k : mkind) (db dm : N) (pc : mpc).

Record state := mk {
  msgs : N;            (* outstanding_messages *)
  bytes : N;           (* outstanding_bytes *)
  calls : N;           (* Notify: number of notify_waiters() calls so far *)
  threads : list thread
}.

Fixpoint upd {A} (i : nat) (x : A) (l : list A) : list A :=
  match l, i with
  | [], _ => []
  | _ :: r, O => x :: r
  | y :: r, S j => y :: upd j x r
  end.

(* fetch_add / fetch_sub on an AtomicU64 wrap around modulo 2^64. *)
Definition apply (k : mkind) (v d : N) : N :=
  match k with
  | Inc => (v + d) mod 2 ^ 64
  | Dec => (v + (2 ^ 64 - d mod 2 ^ 64)) mod 2 ^ 64
  end.

(* One step of a waiter; ms/bs/ca are the current shared values. *)
Definition wstep (c : cfg) (ms bs ca : N) (pc : wpc) : option wpc :=
  match pc with
  | W0 => Some (if ms <? max_m c then W1 ms else WL)
  | W1 m => Some (if bs <? max_b c then WDone m bs else WL)
  | WL => Some (WS ca)
  | WS s => Some (if ms <? max_m c then WM s ms else WP s ms None)
  | WM s m => Some (if bs <? max_b c then WDone m bs else WP s m (Some bs))
  | WP s m ob => Some (if ca =? s then WParked s m ob else WL)
  | WParked _ _ _ => None
  | WDone _ _ => None
  end.

(* Effect of notify_waiters() on a thread: a registered waiter's future
   completes, so `notified.await` returns and the task is at the loop head. *)
Definition wake (t : thread) : thread :=
  match t with
  | TW (WParked _ _ _) => TW WL
  | _ => t
  end.

(* Thread i performs its next atomic operation; None = i is not runnable
   (no such thread, finished, or parked). *)
Definition step (c : cfg) (st : state) (i : nat) : option state :=
  match nth_error (threads st) i with
  | None => None
  | Some (TW pc) =>
      match wstep c (msgs st) (bytes st) (calls st) pc with
      | None => None
      | Some pc' => Some (mk (msgs st) (bytes st) (calls st) (upd i (TW pc') (threads st)))
      end
  | Some (TM k db dm pc) =>
      match pc with
      | M0 => Some (mk (msgs st) (apply k (bytes st) db) (calls st)
                       (upd i (TM k db dm M1) (threads st)))
      | M1 => Some (mk (apply k (msgs st) dm) (bytes st) (calls st)
                       (upd i (TM k db dm M2) (threads st)))
      | M2 => Some (mk (msgs st) (bytes st) (calls st + 1)
                       (upd i (TM k db dm MDone) (map wake (threads st))))
      | MDone => None
      end
  end.

Fixpoint run (c : cfg) (st : state) (sched : list nat) : option state :=
  match sched with
  | [] => Some st
  | i :: r => match step c st i with Some st' => run c st' r | None => None end
  end.

(* Initial states: arbitrary counter values and `calls`, every thread at its
   start (in particular nobody is parked). *)
Definition is_start (t : thread) : Prop :=
  match t with
  | TW W0 => True
  | TM _ _ _ M0 => True
  | _ => False
  end.

Definition init (st : state) : Prop := Forall is_start (threads st).

Inductive reachable (c : cfg) : state -> Prop :=
| R_init : forall st, init st -> reachable c st
| R_step : forall st i st', reachable c st -> step c st i = Some st' -> reachable c st'.

(* st ->* st' *)
Inductive steps (c : cfg) : state -> state -> Prop :=
| S_refl : forall st, steps c st st
| S_step : forall st st' i st'', steps c st st' -> step c st' i = Some st'' -> steps c st st''.

(* A mutator that has written a counter and has not yet called notify_waiters. *)
Definition inprog (t : thread) : bool :=
  match t with
  | TM _ _ _ M1 | TM _ _ _ M2 => true
  | _ => false
  end.

Definition busy (l : list thread) : bool := existsb inprog l.

(* "no inc/dec call is in progress" *)
Definition quiescent (st : state) : Prop :=
  forall i k db dm pc, nth_error (threads st) i = Some (TM k db dm pc) -> pc = M0 \/ pc = MDone.

(* The last check of a waiter failed on the values it loaded. *)
Definition failed (c : cfg) (m : N) (ob : option N) : Prop :=
  match ob with
  | None => max_m c <= m
  | Some b => m < max_m c /\ max_b c <= b
  end.

(* The values a waiter loaded are the current counter values. *)
Definition cur (ms bs : N) (m : N) (ob : option N) : Prop :=
  ms = m /\ match ob with None => True | Some b => bs = b end.

Definition has_space (c : cfg) (st : state) : Prop :=
  msgs st < max_m c /\ bytes st < max_b c.

Definition parked (t : thread) : Prop :=
  match t with TW (WParked _ _ _) => True | _ => False end.

(* Executable helpers for the examples. *)
Definition has_spaceb (c : cfg) (st : state) : bool :=
  (msgs st <? max_m c) && (bytes st <? max_b c).

(* All states visited by a schedule, the initial one included. *)
Fixpoint trace (c : cfg) (st : state) (sched : list nat) : option (list state) :=
  match sched with
  | [] => Some [st]
  | i :: r =>
      match step c st i with
      | Some st' => match trace c st' r with Some l => Some (st :: l) | None => None end
      | None => None
      end
  end.

(* k steps of a waiter against fixed shared values. *)
Fixpoint witer (c : cfg) (ms bs ca : N) (k : nat) (pc : wpc) : option wpc :=
  match k with
  | O => Some pc
  | S k' => match wstep c ms bs ca pc with
            | Some pc1 => witer c ms bs ca k' pc1
            | None => None
            end
  end.
