(* Text front end of the flow-control model (Model/FlowCtl.v): parses a case
   file (docs/FORMAT-fc.md), runs the schedule of every case through
   FlowCtl.step, renders the result file.  The harness sub-command
   `harness fcsched` produces the same format from the real FlowControl.

   Definitions only.  Names of Model.FlowCtl are always written qualified:
   Model.Driver re-exports Model.Server, whose names (run, step, ...) would
   otherwise shadow or be shadowed. *)
From Coq Require Import String.
From Deltio Require Import Model.Base Model.FlowCtl Model.Driver.

(* Printed name of a thread's position = the gate it is blocked at, i.e. its
   next atomic operation. *)
Definition fc_wname (pc : FlowCtl.wpc) : str :=
  match pc with
  | FlowCtl.W0 => kw "load_msgs"
  | FlowCtl.WS _ => kw "load_msgs"
  | FlowCtl.W1 _ => kw "load_bytes"
  | FlowCtl.WM _ _ => kw "load_bytes"
  | FlowCtl.WL => kw "notified"
  | FlowCtl.WP _ _ _ => kw "poll"
  | FlowCtl.WParked _ _ _ => kw "parked"
  | FlowCtl.WDone _ _ => kw "done"
  end.

Definition fc_mname (pc : FlowCtl.mpc) : str :=
  match pc with
  | FlowCtl.M0 => kw "fetch_bytes"
  | FlowCtl.M1 => kw "fetch_msgs"
  | FlowCtl.M2 => kw "notify"
  | FlowCtl.MDone => kw "done"
  end.

Definition fc_tname (t : FlowCtl.thread) : str :=
  match t with
  | FlowCtl.TW pc => fc_wname pc
  | FlowCtl.TM _ _ _ pc => fc_mname pc
  end.

Definition fc_dash : str := [45].
Definition fc_bad : list str := [[63]].

(* Thread i of the schedule performs one step.  The index stays an N until it
   is known to be a thread index, so a huge number costs nothing. *)
Definition fc_step (c : FlowCtl.cfg) (st : FlowCtl.state) (i : N) : option FlowCtl.state :=
  if N.ltb i (len_N (FlowCtl.threads st)) then FlowCtl.step c st (N.to_nat i) else None.

(* One result line per schedule entry; returns the lines and the final state. *)
Fixpoint fc_sched (c : FlowCtl.cfg) (st : FlowCtl.state) (sched : list N)
  : list str * FlowCtl.state :=
  match sched with
  | [] => ([], st)
  | i :: r =>
      match fc_step c st i with
      | None =>
          let (ls, fin) := fc_sched c st r in
          (join_sp [r_num i; fc_dash] :: ls, fin)
      | Some st' =>
          let nm := match nth_error (FlowCtl.threads st') (N.to_nat i) with
                    | Some t => fc_tname t
                    | None => fc_dash
                    end in
          let (ls, fin) := fc_sched c st' r in
          (join_sp [r_num i; nm] :: ls, fin)
      end
  end.

Definition fc_final (st : FlowCtl.state) : str :=
  join_sp ([kw "FINAL"; r_num (FlowCtl.msgs st); r_num (FlowCtl.bytes st)]
             ++ map fc_tname (FlowCtl.threads st)).

(* ---------- parsing ---------- *)
Definition fc_p_thread (ts : list str) : option FlowCtl.thread :=
  match ts with
  | [t; k] =>
      if is_kw "T" t && is_kw "W" k then Some (FlowCtl.TW FlowCtl.W0) else None
  | [t; k; a; b] =>
      if is_kw "T" t then
        db <- p_nat a ;; dm <- p_nat b ;;
        if is_kw "I" k then Some (FlowCtl.TM FlowCtl.Inc db dm FlowCtl.M0)
        else if is_kw "D" k then Some (FlowCtl.TM FlowCtl.Dec db dm FlowCtl.M0)
        else None
      else None
  | _ => None
  end.

Fixpoint fc_p_nats (ts : list str) : option (list N) :=
  match ts with
  | [] => Some []
  | t :: r => x <- p_nat t ;; l <- fc_p_nats r ;; Some (x :: l)
  end.

(* T lines followed by exactly one SCHED line, which is the last line. *)
Fixpoint fc_p_body (lines : list (list str)) (acc : list FlowCtl.thread)
  : option (list FlowCtl.thread * list N) :=
  match lines with
  | [] => None
  | [l] =>
      match l with
      | s :: r => if is_kw "SCHED" s then sc <- fc_p_nats r ;; Some (rev acc, sc) else None
      | [] => None
      end
  | l :: rest => t <- fc_p_thread l ;; fc_p_body rest (t :: acc)
  end.

(* CFG <max_msgs> <max_bytes> <init_msgs> <init_bytes> *)
Definition fc_p_cfg (ts : list str) : option (FlowCtl.cfg * N * N) :=
  match ts with
  | [c; a; b; m; y] =>
      if is_kw "CFG" c then
        mm <- p_nat a ;; mb <- p_nat b ;; im <- p_nat m ;; ib <- p_nat y ;;
        Some (FlowCtl.Build_cfg mm mb, im, ib)
      else None
  | _ => None
  end.

(* The token lines of ONE case (without the CASE / END lines) -> result lines. *)
Definition fc_run_case (lines : list (list str)) : list str :=
  match lines with
  | [] => fc_bad
  | cl :: rest =>
      match fc_p_cfg cl, fc_p_body rest [] with
      | Some (c, im, ib), Some (ths, sc) =>
          let st0 := FlowCtl.mk im ib 0 ths in
          let (ls, fin) := fc_sched c st0 sc in
          ls ++ [fc_final fin]
      | _, _ => fc_bad
      end
  end.

Definition fc_case (c : str * list str) : list str :=
  fst c :: fc_run_case (map tokens (snd c)) ++ [kw "END"].

(* Whole file: cases are split on the lines starting with CASE / END exactly as
   Driver.cases_of does (blank lines are dropped); the CASE line is echoed. *)
Definition fc_file (text : str) : str :=
  join_nl (flat_map fc_case (cases_of (split_on nl text) None)).
