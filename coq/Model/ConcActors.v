(* ConcActors: a small-step model of the actor structure of the emulator
   (topic actors, subscription actors, bounded FIFO mailboxes, client tasks,
   helper tasks), used for the deadlock-freedom (C07) and cancellation-safety
   (C16) analyses.  Definitions only; everything here is executable.

   Correspondence with the Rust code:
     topic actor         src/topics/topic_actor.rs        (receive / publish_messages)
     topic handle        src/topics/topic.rs              (send then reply.await)
     subscription actor  src/subscriptions/subscription_actor.rs (receive / receive_sync / delete)
     subscription handle src/subscriptions/subscription.rs
     create_subscription src/subscriptions/subscription_manager.rs

   Data is abstract: only identities (indices into the lists of the state).
   [drain cfg = true]  : `delete` keeps dequeuing its mailbox while it waits for
                         the topic (the fixed code);
   [drain cfg = false] : the original code.
   [guard cfg = true]  : commit "fix: do not attach a subscription that is already being
                         deleted": the subscription actor raises a shared flag `detached` at
                         the very start of `delete` (where it sets `deleted`, before it sends
                         RemoveSubscription), and `TopicActor::attach_subscription` answers
                         Ok without inserting a subscription whose flag is raised.  In the
                         model the flag is [s_deleted] (set when the actor dequeues the Delete
                         and enters [SDel]);
   [guard cfg = false] : the code before that commit.

   Ghost state for the publish-order property (C08): [t_seq] counts the Publish requests a
   topic has dequeued (the moment the code assigns the message ids), [TPub] carries the
   sequence number of the Publish being handled, a PostMessages in a mailbox carries the
   topic and the sequence number of its Publish, and [s_log] lists the sequence numbers of
   the posts a subscription actor has appended to its backlog (posts drained during a
   deletion are ignored by the code and are not logged).  The ghost state influences no
   step.  [XState]/[xstep] at the end: the variant in which the topic actor does not wait
   for its post tasks, used only by the refutation C08_refuted_without_await. *)

From Coq Require Import List NArith Arith Bool Lia.
Import ListNotations.

Set Implicit Arguments.

(* ------------------------------------------------------------------ *)
(* Configuration                                                        *)

Record config := { K : nat;        (* capacity of every mailbox (16 in the code) *)
                   drain : bool;   (* (D) drains its mailbox while waiting        *)
                   guard : bool }. (* Attach skips a subscription being deleted   *)

(* ------------------------------------------------------------------ *)
(* Requests                                                             *)

Inductive tkind := KPublish | KGenericT | KDeleteTopic.
Inductive skind := KGeneric | KDelete.

(* what sits in a topic mailbox; c = replier (client id), h = helper id, s = sub id *)
Inductive tmsg :=
| TPublish (c : nat)
| TGeneric (c : nat)
| TDelete  (c : nat)
| TAttach  (s h : nat)      (* replier: helper h *)
| TRemove  (s : nat).       (* replier: the subscription actor s *)

(* what sits in a subscription mailbox *)
Inductive smsg :=
| SGeneric (c : nat)
| SDeleteM (c : nat)
| SPost (t n : nat).        (* PostMessages of Publish number n of topic t: no replier *)

(* ------------------------------------------------------------------ *)
(* Actors and tasks                                                     *)

Inductive tphase :=
| TIdle
| TPub (pending : list nat) (c : nat) (ok : bool) (n : nat).
  (* handling Publish: post tasks still waiting to send (target sub ids),
     the publisher to answer, whether every post so far succeeded, and (ghost) the
     sequence number of this Publish *)

Inductive dphase := WaitRoom | WaitReply | Replied.

Inductive sphase :=
| SIdle
| SDel (d : dphase) (stash : list nat)
  (* handling Delete: where its RemoveSubscription is; the repliers to answer
     when the deletion is done (the Delete being handled first, then the
     stashed ones) *)
| SExited.                  (* deleted signal fired, task gone, mailbox closed *)

Record topic := { t_mbox : list tmsg; t_phase : tphase;
                  t_atts : list nat; t_alive : bool;
                  t_seq : nat (* ghost: Publish requests dequeued so far *) }.

Record sub := { s_mbox : list smsg; s_phase : sphase; s_deleted : bool;
                s_topic : nat; s_exists : bool (* present in the manager *);
                s_log : list nat (* ghost: sequence numbers of the posts handled *) }.

Inductive cpc :=
| CSendT (t : nat) (k : tkind)   (* in send().await on topic t            *)
| CSendS (s : nat) (k : skind)   (* in send().await on subscription s     *)
| CAwait                         (* awaiting the reply / the helper        *)
| CDone (ok : bool)              (* completed: Ok or an error              *)
| CDropped.                      (* abandoned by its caller                *)

Inductive hpc := HSending | HAwaiting | HDone.

(* the spawned attach task of create_subscription *)
Record helper := { h_sub : nat; h_topic : nat; h_caller : nat; h_pc : hpc }.

Record state := { topics : list topic; subs : list sub;
                  clients : list cpc; helpers : list helper }.

Definition init : state :=
  {| topics := []; subs := []; clients := []; helpers := [] |}.

(* ------------------------------------------------------------------ *)
(* Labels                                                               *)

Inductive arrival :=
| ANewTopic                       (* synchronous in the code *)
| ACreate (t : nat)               (* CreateSubscription on topic t; step 1 is atomic *)
| AReqT (t : nat) (k : tkind)
| AReqS (s : nat) (k : skind).

Inductive label :=
| LArrive (a : arrival)           (* environment *)
| LDrop (c : nat)                 (* environment: the caller abandons client task c *)
| LCSend (c : nat)                (* client c's send completes (room) or fails (closed) *)
| LHSend (h : nat)                (* helper h's send completes *)
| LTDeq (t : nat)                 (* topic t dequeues and handles one request *)
| LPost (t s : nat)               (* post task of topic t for sub s sends (or fails) *)
| LTFinish (t : nat)              (* all posts done: topic t answers the publisher *)
| LSDeq (s : nat)                 (* sub s dequeues and handles one request *)
| LSSend (s : nat)                (* sub s (deleting) gets RemoveSubscription into the topic mailbox *)
| LSFinish (s : nat).             (* sub s (deleting, topic answered) finishes and exits *)

Definition is_env (l : label) : bool :=
  match l with LArrive _ | LDrop _ => true | _ => false end.

(* ------------------------------------------------------------------ *)
(* Small library                                                        *)

Fixpoint set {A} (i : nat) (x : A) (l : list A) : list A :=
  match l with
  | [] => []
  | y :: r => match i with 0 => x :: r | S j => y :: set j x r end
  end.

Fixpoint mem (x : nat) (l : list nat) : bool :=
  match l with [] => false | y :: r => if Nat.eqb x y then true else mem x r end.

Fixpoint remove1 (x : nat) (l : list nat) : list nat :=
  match l with [] => [] | y :: r => if Nat.eqb x y then r else y :: remove1 x r end.

Definition remove_all (x : nat) (l : list nat) : list nat :=
  filter (fun y => negb (Nat.eqb y x)) l.

Definition mk_tmsg (k : tkind) (c : nat) : tmsg :=
  match k with KPublish => TPublish c | KGenericT => TGeneric c | KDeleteTopic => TDelete c end.

Definition mk_smsg (k : skind) (c : nat) : smsg :=
  match k with KGeneric => SGeneric c | KDelete => SDeleteM c end.

(* completing a client's reply.await: only a task that is still waiting notices *)
Definition reply (ok : bool) (c : nat) (cl : list cpc) : list cpc :=
  match nth_error cl c with
  | Some CAwait => set c (CDone ok) cl
  | _ => cl
  end.

Definition reply_all (ok : bool) (cs : list nat) (cl : list cpc) : list cpc :=
  fold_right (reply ok) cl cs.

Definition smsg_repl (m : smsg) : list nat :=
  match m with SGeneric c | SDeleteM c => [c] | SPost _ _ => [] end.

Definition tmsg_repl (m : tmsg) : list nat :=
  match m with TPublish c | TGeneric c | TDelete c => [c] | _ => [] end.

Definition sub_open (sb : sub) : bool :=
  match s_phase sb with SExited => false | _ => true end.

Definition topic_alive (st : state) (t : nat) : bool :=
  match nth_error (topics st) t with Some tp => t_alive tp | None => false end.

Definition new_topic : topic :=
  {| t_mbox := []; t_phase := TIdle; t_atts := []; t_alive := true; t_seq := 0 |}.

Definition new_sub (t : nat) : sub :=
  {| s_mbox := []; s_phase := SIdle; s_deleted := false; s_topic := t; s_exists := true;
     s_log := [] |}.

(* ------------------------------------------------------------------ *)
(* The step function, one definition per kind of label                  *)

Definition step_arrive (st : state) (a : arrival) : option state :=
  match a with
  | ANewTopic =>
      Some {| topics := topics st ++ [new_topic]; subs := subs st;
              clients := clients st; helpers := helpers st |}
  | ACreate t =>
      if t <? length (topics st) then
        Some {| topics := topics st;
                subs := subs st ++ [new_sub t];
                clients := clients st ++ [CAwait];
                helpers := helpers st ++
                  [{| h_sub := length (subs st); h_topic := t;
                      h_caller := length (clients st); h_pc := HSending |}] |}
      else None
  | AReqT t k =>
      Some {| topics := topics st; subs := subs st;
              clients := clients st ++ [CSendT t k]; helpers := helpers st |}
  | AReqS s k =>
      Some {| topics := topics st; subs := subs st;
              clients := clients st ++ [CSendS s k]; helpers := helpers st |}
  end.

Definition step_drop (st : state) (c : nat) : option state :=
  match nth_error (clients st) c with
  | Some (CDone _) | Some CDropped | None => None
  | Some _ =>
      Some {| topics := topics st; subs := subs st;
              clients := set c CDropped (clients st); helpers := helpers st |}
  end.

Definition step_csend (cfg : config) (st : state) (c : nat) : option state :=
  match nth_error (clients st) c with
  | Some (CSendT t k) =>
      match nth_error (topics st) t with
      | None =>  (* no such topic: the request fails at once *)
          Some {| topics := topics st; subs := subs st;
                  clients := set c (CDone false) (clients st); helpers := helpers st |}
      | Some tp =>
          if length (t_mbox tp) <? K cfg then
            Some {| topics := set t {| t_mbox := t_mbox tp ++ [mk_tmsg k c];
                                       t_phase := t_phase tp; t_atts := t_atts tp;
                                       t_alive := t_alive tp; t_seq := t_seq tp |} (topics st);
                    subs := subs st;
                    clients := set c CAwait (clients st); helpers := helpers st |}
          else None
      end
  | Some (CSendS s k) =>
      match nth_error (subs st) s with
      | None =>
          Some {| topics := topics st; subs := subs st;
                  clients := set c (CDone false) (clients st); helpers := helpers st |}
      | Some sb =>
          if sub_open sb then
            if length (s_mbox sb) <? K cfg then
              Some {| topics := topics st;
                      subs := set s {| s_mbox := s_mbox sb ++ [mk_smsg k c];
                                       s_phase := s_phase sb; s_deleted := s_deleted sb;
                                       s_topic := s_topic sb; s_exists := s_exists sb;
                                       s_log := s_log sb |} (subs st);
                      clients := set c CAwait (clients st); helpers := helpers st |}
            else None
          else  (* closed mailbox: send fails at once *)
            Some {| topics := topics st; subs := subs st;
                    clients := set c (CDone false) (clients st); helpers := helpers st |}
      end
  | _ => None
  end.

Definition step_hsend (cfg : config) (st : state) (h : nat) : option state :=
  match nth_error (helpers st) h with
  | Some hp =>
      match h_pc hp with
      | HSending =>
          match nth_error (topics st) (h_topic hp) with
          | None =>
              Some {| topics := topics st; subs := subs st;
                      clients := reply false (h_caller hp) (clients st);
                      helpers := set h {| h_sub := h_sub hp; h_topic := h_topic hp;
                                          h_caller := h_caller hp; h_pc := HDone |} (helpers st) |}
          | Some tp =>
              if length (t_mbox tp) <? K cfg then
                Some {| topics := set (h_topic hp)
                                      {| t_mbox := t_mbox tp ++ [TAttach (h_sub hp) h];
                                         t_phase := t_phase tp; t_atts := t_atts tp;
                                         t_alive := t_alive tp; t_seq := t_seq tp |} (topics st);
                        subs := subs st; clients := clients st;
                        helpers := set h {| h_sub := h_sub hp; h_topic := h_topic hp;
                                            h_caller := h_caller hp; h_pc := HAwaiting |} (helpers st) |}
              else None
          end
      | _ => None
      end
  | None => None
  end.

(* the topic answers helper h: the helper task ends, which completes its caller *)
Definition finish_helper (h : nat) (hs : list helper) : list helper :=
  match nth_error hs h with
  | Some hp => set h {| h_sub := h_sub hp; h_topic := h_topic hp;
                        h_caller := h_caller hp; h_pc := HDone |} hs
  | None => hs
  end.

Definition helper_caller (h : nat) (hs : list helper) : list nat :=
  match nth_error hs h with Some hp => [h_caller hp] | None => [] end.

(* the topic answers the RemoveSubscription of subscription actor s *)
Definition answer_remove (s : nat) (ss : list sub) : list sub :=
  match nth_error ss s with
  | Some sb =>
      match s_phase sb with
      | SDel WaitReply stash =>
          set s {| s_mbox := s_mbox sb; s_phase := SDel Replied stash;
                   s_deleted := s_deleted sb; s_topic := s_topic sb;
                   s_exists := s_exists sb; s_log := s_log sb |} ss
      | _ => ss
      end
  | None => ss
  end.

(* the `detached` flag of subscription s, as read by the topic actor *)
Definition sub_deleted (st : state) (s : nat) : bool :=
  match nth_error (subs st) s with Some sb => s_deleted sb | None => false end.

(* the topic refuses to insert s (it still answers the attach request with Ok) *)
Definition attach_blocked (cfg : config) (st : state) (s : nat) : bool :=
  guard cfg && sub_deleted st s.

Definition step_tdeq (cfg : config) (st : state) (t : nat) : option state :=
  match nth_error (topics st) t with
  | Some tp =>
      match t_phase tp with
      | TIdle =>
          match t_mbox tp with
          | [] => None
          | TPublish c :: rest =>
              (* the ids are assigned here: this Publish gets sequence number t_seq *)
              Some {| topics := set t {| t_mbox := rest;
                                         t_phase := TPub (t_atts tp) c true (t_seq tp);
                                         t_atts := t_atts tp; t_alive := t_alive tp;
                                         t_seq := S (t_seq tp) |} (topics st);
                      subs := subs st; clients := clients st; helpers := helpers st |}
          | TGeneric c :: rest =>
              Some {| topics := set t {| t_mbox := rest; t_phase := TIdle;
                                         t_atts := t_atts tp; t_alive := t_alive tp;
                                         t_seq := t_seq tp |} (topics st);
                      subs := subs st; clients := reply true c (clients st);
                      helpers := helpers st |}
          | TDelete c :: rest =>
              Some {| topics := set t {| t_mbox := rest; t_phase := TIdle;
                                         t_atts := []; t_alive := false;
                                         t_seq := t_seq tp |} (topics st);
                      subs := subs st; clients := reply true c (clients st);
                      helpers := helpers st |}
          | TAttach s h :: rest =>
              Some {| topics := set t {| t_mbox := rest; t_phase := TIdle;
                                         t_atts := if attach_blocked cfg st s then t_atts tp
                                                   else if mem s (t_atts tp) then t_atts tp
                                                   else s :: t_atts tp;
                                         t_alive := t_alive tp; t_seq := t_seq tp |} (topics st);
                      subs := subs st;
                      clients := reply_all true (helper_caller h (helpers st)) (clients st);
                      helpers := finish_helper h (helpers st) |}
          | TRemove s :: rest =>
              Some {| topics := set t {| t_mbox := rest; t_phase := TIdle;
                                         t_atts := remove_all s (t_atts tp);
                                         t_alive := t_alive tp; t_seq := t_seq tp |} (topics st);
                      subs := answer_remove s (subs st);
                      clients := clients st; helpers := helpers st |}
          end
      | TPub _ _ _ _ => None   (* busy: does not dequeue *)
      end
  | None => None
  end.

Definition step_post (cfg : config) (st : state) (t s : nat) : option state :=
  match nth_error (topics st) t with
  | Some tp =>
      match t_phase tp with
      | TPub pend c ok n =>
          if mem s pend then
            match nth_error (subs st) s with
            | Some sb =>
                if sub_open sb then
                  if length (s_mbox sb) <? K cfg then
                    Some {| topics := set t {| t_mbox := t_mbox tp;
                                               t_phase := TPub (remove1 s pend) c ok n;
                                               t_atts := t_atts tp; t_alive := t_alive tp;
                                               t_seq := t_seq tp |}
                                          (topics st);
                            subs := set s {| s_mbox := s_mbox sb ++ [SPost t n];
                                             s_phase := s_phase sb; s_deleted := s_deleted sb;
                                             s_topic := s_topic sb; s_exists := s_exists sb;
                                             s_log := s_log sb |}
                                        (subs st);
                            clients := clients st; helpers := helpers st |}
                  else None
                else
                  Some {| topics := set t {| t_mbox := t_mbox tp;
                                             t_phase := TPub (remove1 s pend) c false n;
                                             t_atts := t_atts tp; t_alive := t_alive tp;
                                             t_seq := t_seq tp |}
                                        (topics st);
                          subs := subs st; clients := clients st; helpers := helpers st |}
            | None =>
                Some {| topics := set t {| t_mbox := t_mbox tp;
                                           t_phase := TPub (remove1 s pend) c false n;
                                           t_atts := t_atts tp; t_alive := t_alive tp;
                                           t_seq := t_seq tp |}
                                      (topics st);
                        subs := subs st; clients := clients st; helpers := helpers st |}
            end
          else None
      | TIdle => None
      end
  | None => None
  end.

Definition step_tfinish (st : state) (t : nat) : option state :=
  match nth_error (topics st) t with
  | Some tp =>
      match t_phase tp with
      | TPub [] c ok _ =>
          Some {| topics := set t {| t_mbox := t_mbox tp; t_phase := TIdle;
                                     t_atts := t_atts tp; t_alive := t_alive tp;
                                     t_seq := t_seq tp |} (topics st);
                  subs := subs st; clients := reply ok c (clients st);
                  helpers := helpers st |}
      | _ => None
      end
  | None => None
  end.

Definition step_sdeq (cfg : config) (st : state) (s : nat) : option state :=
  match nth_error (subs st) s with
  | Some sb =>
      match s_mbox sb with
      | [] => None
      | m :: rest =>
          match s_phase sb with
          | SIdle =>
              match m with
              | SGeneric c =>
                  Some {| topics := topics st;
                          subs := set s {| s_mbox := rest; s_phase := SIdle;
                                           s_deleted := s_deleted sb; s_topic := s_topic sb;
                                           s_exists := s_exists sb; s_log := s_log sb |} (subs st);
                          clients := reply true c (clients st); helpers := helpers st |}
              | SPost _ n =>   (* appended to the backlog: logged *)
                  Some {| topics := topics st;
                          subs := set s {| s_mbox := rest; s_phase := SIdle;
                                           s_deleted := s_deleted sb; s_topic := s_topic sb;
                                           s_exists := s_exists sb;
                                           s_log := s_log sb ++ [n] |} (subs st);
                          clients := clients st; helpers := helpers st |}
              | SDeleteM c =>
                  Some {| topics := topics st;
                          subs := set s {| s_mbox := rest;
                                           s_phase := SDel (if topic_alive st (s_topic sb)
                                                            then WaitRoom else Replied) [c];
                                           s_deleted := true; s_topic := s_topic sb;
                                           s_exists := s_exists sb; s_log := s_log sb |} (subs st);
                          clients := clients st; helpers := helpers st |}
              end
          | SDel d stash =>
              if drain cfg then
                match m with
                | SGeneric c =>
                    Some {| topics := topics st;
                            subs := set s {| s_mbox := rest; s_phase := SDel d stash;
                                             s_deleted := s_deleted sb; s_topic := s_topic sb;
                                             s_exists := s_exists sb;
                                             s_log := s_log sb |} (subs st);
                            clients := reply true c (clients st); helpers := helpers st |}
                | SPost _ _ =>   (* ignored by a deleted subscription: not logged *)
                    Some {| topics := topics st;
                            subs := set s {| s_mbox := rest; s_phase := SDel d stash;
                                             s_deleted := s_deleted sb; s_topic := s_topic sb;
                                             s_exists := s_exists sb;
                                             s_log := s_log sb |} (subs st);
                            clients := clients st; helpers := helpers st |}
                | SDeleteM c =>
                    Some {| topics := topics st;
                            subs := set s {| s_mbox := rest; s_phase := SDel d (stash ++ [c]);
                                             s_deleted := s_deleted sb; s_topic := s_topic sb;
                                             s_exists := s_exists sb;
                                             s_log := s_log sb |} (subs st);
                            clients := clients st; helpers := helpers st |}
                end
              else None
          | SExited => None
          end
      end
  | None => None
  end.

Definition step_ssend (cfg : config) (st : state) (s : nat) : option state :=
  match nth_error (subs st) s with
  | Some sb =>
      match s_phase sb with
      | SDel WaitRoom stash =>
          match nth_error (topics st) (s_topic sb) with
          | None =>
              Some {| topics := topics st;
                      subs := set s {| s_mbox := s_mbox sb; s_phase := SDel Replied stash;
                                       s_deleted := s_deleted sb; s_topic := s_topic sb;
                                       s_exists := s_exists sb; s_log := s_log sb |} (subs st);
                      clients := clients st; helpers := helpers st |}
          | Some tp =>
              if length (t_mbox tp) <? K cfg then
                Some {| topics := set (s_topic sb)
                                      {| t_mbox := t_mbox tp ++ [TRemove s];
                                         t_phase := t_phase tp; t_atts := t_atts tp;
                                         t_alive := t_alive tp; t_seq := t_seq tp |} (topics st);
                        subs := set s {| s_mbox := s_mbox sb; s_phase := SDel WaitReply stash;
                                         s_deleted := s_deleted sb; s_topic := s_topic sb;
                                         s_exists := s_exists sb; s_log := s_log sb |} (subs st);
                        clients := clients st; helpers := helpers st |}
              else None
          end
      | _ => None
      end
  | None => None
  end.

Definition step_sfinish (st : state) (s : nat) : option state :=
  match nth_error (subs st) s with
  | Some sb =>
      match s_phase sb with
      | SDel Replied stash =>
          Some {| topics := topics st;
                  subs := set s {| s_mbox := []; s_phase := SExited;
                                   s_deleted := s_deleted sb; s_topic := s_topic sb;
                                   s_exists := false; s_log := s_log sb |} (subs st);
                  clients := reply_all false (flat_map smsg_repl (s_mbox sb))
                               (reply_all true stash (clients st));
                  helpers := helpers st |}
      | _ => None
      end
  | None => None
  end.

Definition step (cfg : config) (st : state) (l : label) : option state :=
  match l with
  | LArrive a => step_arrive st a
  | LDrop c => step_drop st c
  | LCSend c => step_csend cfg st c
  | LHSend h => step_hsend cfg st h
  | LTDeq t => step_tdeq cfg st t
  | LPost t s => step_post cfg st t s
  | LTFinish t => step_tfinish st t
  | LSDeq s => step_sdeq cfg st s
  | LSSend s => step_ssend cfg st s
  | LSFinish s => step_sfinish st s
  end.

Inductive reachable (cfg : config) : state -> Prop :=
| reach_init : reachable cfg init
| reach_step : forall st l st',
    reachable cfg st -> step cfg st l = Some st' -> reachable cfg st'.

(* no server-side step is enabled *)
Definition quiescent (cfg : config) (st : state) : Prop :=
  forall l, is_env l = false -> step cfg st l = None.

(* ------------------------------------------------------------------ *)
(* Running schedules (for the examples)                                 *)

Fixpoint run (cfg : config) (st : state) (ls : list label) : option state :=
  match ls with
  | [] => Some st
  | l :: r => match step cfg st l with Some st' => run cfg st' r | None => None end
  end.

(* all server-side labels whose indices are in range *)
Definition candidates (st : state) : list label :=
  let nt := seq 0 (length (topics st)) in
  let ns := seq 0 (length (subs st)) in
  map LCSend (seq 0 (length (clients st))) ++
  map LHSend (seq 0 (length (helpers st))) ++
  map LTDeq nt ++ map LTFinish nt ++
  flat_map (fun t => map (LPost t) ns) nt ++
  map LSDeq ns ++ map LSSend ns ++ map LSFinish ns.

Definition first_enabled (cfg : config) (st : state) : option (label * state) :=
  fold_right (fun l acc => match step cfg st l with Some st' => Some (l, st') | None => acc end)
             None (candidates st).

(* a deterministic scheduler: run server-side steps until none is enabled *)
Fixpoint auto (cfg : config) (fuel : nat) (st : state) : state * list label :=
  match fuel with
  | 0 => (st, [])
  | S f => match first_enabled cfg st with
           | Some (l, st') => let '(st'', ls) := auto cfg f st' in (st'', l :: ls)
           | None => (st, [])
           end
  end.

(* ------------------------------------------------------------------ *)
(* "Something is outstanding"                                           *)

Definition cpc_pending (p : cpc) : bool :=
  match p with CSendT _ _ | CSendS _ _ | CAwait => true | _ => false end.

Definition topic_busy (tp : topic) : bool :=
  match t_mbox tp, t_phase tp with [], TIdle => false | _, _ => true end.

Definition sub_busy (sb : sub) : bool :=
  match s_mbox sb, s_phase sb with [], SIdle | [], SExited => false | _, _ => true end.

Definition helper_busy (hp : helper) : bool :=
  match h_pc hp with HDone => false | _ => true end.

Definition busyb (st : state) : bool :=
  existsb cpc_pending (clients st) || existsb topic_busy (topics st) ||
  existsb sub_busy (subs st) || existsb helper_busy (helpers st).

(* ------------------------------------------------------------------ *)
(* Outstanding work (the bound of C07_bounded)                          *)

Definition sum (l : list nat) : nat := fold_right Nat.add 0 l.

(* N = number of subscriptions: bounds the fan-out of one Publish *)
Definition w_tmsg (N : nat) (m : tmsg) : nat :=
  match m with TPublish _ => 2 * N + 2 | _ => 1 end.

Definition w_tphase (p : tphase) : nat :=
  match p with TIdle => 0 | TPub pend _ _ _ => 2 * length pend + 1 end.

Definition w_topic (N : nat) (tp : topic) : nat :=
  sum (map (w_tmsg N) (t_mbox tp)) + w_tphase (t_phase tp).

Definition w_smsg (m : smsg) : nat :=
  match m with SDeleteM _ => 4 | _ => 1 end.

Definition w_sphase (p : sphase) : nat :=
  match p with SDel WaitRoom _ => 3 | SDel _ _ => 1 | _ => 0 end.

Definition w_sub (sb : sub) : nat :=
  sum (map w_smsg (s_mbox sb)) + w_sphase (s_phase sb).

Definition w_client (N : nat) (p : cpc) : nat :=
  match p with
  | CSendT _ k => 1 + w_tmsg N (mk_tmsg k 0)
  | CSendS _ k => 1 + w_smsg (mk_smsg k 0)
  | _ => 0
  end.

Definition w_helper (hp : helper) : nat :=
  match h_pc hp with HSending => 2 | _ => 0 end.

Definition measure (st : state) : nat :=
  let N := length (subs st) in
  sum (map (w_topic N) (topics st)) + sum (map w_sub (subs st)) +
  sum (map (w_client N) (clients st)) + sum (map w_helper (helpers st)).

(* ------------------------------------------------------------------ *)
(* C08: what a subscription has been given so far, in order: the sequence numbers of the
   posts it has handled followed by those still queued in its mailbox *)

Definition post_seq (m : smsg) : list nat :=
  match m with SPost _ n => [n] | _ => [] end.

Definition queued_posts (mb : list smsg) : list nat := flat_map post_seq mb.

Definition delivered (sb : sub) : list nat := s_log sb ++ queued_posts (s_mbox sb).

(* ------------------------------------------------------------------ *)
(* The variant refuted by C08_refuted_without_await: a topic actor that does NOT wait for
   its post tasks.  On dequeuing a Publish it assigns the sequence number, answers the
   publisher at once and goes back to idle; the post tasks float freely (a list of
   (topic, subscription, sequence number)) and each one sends whenever it is scheduled.
   Every other label behaves as in [step].  Used only by that refutation. *)

Record xstate := { x_base : state; x_posts : list (nat * nat * nat) }.

Inductive xlabel :=
| XL (l : label)        (* a step of the base system *)
| XPost (i : nat).      (* the i-th floating post task sends (or fails) *)

Fixpoint remove_nth {A} (i : nat) (l : list A) : list A :=
  match l with
  | [] => []
  | y :: r => match i with 0 => r | S j => y :: remove_nth j r end
  end.

Definition xinit : xstate := {| x_base := init; x_posts := [] |}.

Definition xstep_publish (xs : xstate) (t : nat) : option xstate :=
  let st := x_base xs in
  match nth_error (topics st) t with
  | Some tp =>
      match t_phase tp, t_mbox tp with
      | TIdle, TPublish c :: rest =>
          Some {| x_base :=
                    {| topics := set t {| t_mbox := rest; t_phase := TIdle;
                                          t_atts := t_atts tp; t_alive := t_alive tp;
                                          t_seq := S (t_seq tp) |} (topics st);
                       subs := subs st; clients := reply true c (clients st);
                       helpers := helpers st |};
                  x_posts := x_posts xs ++ map (fun s => (t, s, t_seq tp)) (t_atts tp) |}
      | _, _ => None
      end
  | None => None
  end.

Definition xstep_post (cfg : config) (xs : xstate) (i : nat) : option xstate :=
  let st := x_base xs in
  match nth_error (x_posts xs) i with
  | Some (t, s, n) =>
      match nth_error (subs st) s with
      | Some sb =>
          if sub_open sb then
            if length (s_mbox sb) <? K cfg then
              Some {| x_base :=
                        {| topics := topics st;
                           subs := set s {| s_mbox := s_mbox sb ++ [SPost t n];
                                            s_phase := s_phase sb; s_deleted := s_deleted sb;
                                            s_topic := s_topic sb; s_exists := s_exists sb;
                                            s_log := s_log sb |} (subs st);
                           clients := clients st; helpers := helpers st |};
                      x_posts := remove_nth i (x_posts xs) |}
            else None
          else Some {| x_base := st; x_posts := remove_nth i (x_posts xs) |}
      | None => Some {| x_base := st; x_posts := remove_nth i (x_posts xs) |}
      end
  | None => None
  end.

Definition xlift (xs : xstate) (o : option state) : option xstate :=
  match o with
  | Some st' => Some {| x_base := st'; x_posts := x_posts xs |}
  | None => None
  end.

Definition xstep (cfg : config) (xs : xstate) (xl : xlabel) : option xstate :=
  match xl with
  | XL (LTDeq t) =>
      match xstep_publish xs t with
      | Some xs' => Some xs'
      | None => xlift xs (step cfg (x_base xs) (LTDeq t))
      end
  | XL l => xlift xs (step cfg (x_base xs) l)
  | XPost i => xstep_post cfg xs i
  end.

Inductive xreachable (cfg : config) : xstate -> Prop :=
| xreach_init : xreachable cfg xinit
| xreach_step : forall xs xl xs',
    xreachable cfg xs -> xstep cfg xs xl = Some xs' -> xreachable cfg xs'.

Fixpoint xrun (cfg : config) (xs : xstate) (ls : list xlabel) : option xstate :=
  match ls with
  | [] => Some xs
  | l :: r => match xstep cfg xs l with Some xs' => xrun cfg xs' r | None => None end
  end.
