(* Text front end for the pure functions (puresweep ops of docs/FORMAT.md). *)
From Coq Require Import String.
From Deltio Require Export Model.Driver.

Definition pure_line (ts : list str) : str :=
  match ts with
  | [] => []
  | op :: args =>
      if is_kw "TN" op then
        match args with
        | [s] => match p_str s with
                 | Some x => match parse_topic_name x with
                             | Some n => join_sp [kw "TN"; r_num 1; r_str (snd n); r_str (show_topic_name n)]
                             | None => join_sp [kw "TN"; r_num 0]
                             end
                 | None => [63] end
        | _ => [63] end
      else if is_kw "SN" op then
        match args with
        | [s] => match p_str s with
                 | Some x => match parse_sub_name x with
                             | Some n => join_sp [kw "SN"; r_num 1; r_str (fst n); r_str (snd n); r_str (show_sub_name n)]
                             | None => join_sp [kw "SN"; r_num 0]
                             end
                 | None => [63] end
        | _ => [63] end
      else if is_kw "AI" op then
        match args with
        | [s] => match p_str s with
                 | Some x => match parse_u64 x with
                             | Some v => join_sp [kw "AI"; r_num 1; r_num v]
                             | None => join_sp [kw "AI"; r_num 0]
                             end
                 | None => [63] end
        | _ => [63] end
      else if is_kw "DL" op then
        match args with
        | [t] => match p_nat t with
                 | Some x => join_sp [kw "DL"; r_num (round_deadline x)]
                 | None => [63] end
        | _ => [63] end
      else if is_kw "PE" op then
        match args with
        | [t] => match p_nat t with
                 | Some x => join_sp [kw "PE"; r_str (token_encode x)]
                 | None => [63] end
        | _ => [63] end
      else if is_kw "PD" op then
        match args with
        | [s] => match p_str s with
                 | Some x => match token_decode x with
                             | Some v => join_sp [kw "PD"; r_num 1; r_num v]
                             | None => join_sp [kw "PD"; r_num 0]
                             end
                 | None => [63] end
        | _ => [63] end
      else if is_kw "PG" op then
        match args with
        | [sz; tk] => match p_int sz, p_str tk with
                      | Some a, Some b =>
                          match parse_paging a b with
                          | Some pg => join_sp [kw "PG"; r_num 0; r_num (pg_take pg); r_num (pg_skip pg)]
                          | None => join_sp [kw "PG"; r_num 3]
                          end
                      | _, _ => [63] end
        | _ => [63] end
      else if is_kw "PP" op then
        match args with
        | [cnt; sz; off] =>
            match p_nat cnt, p_nat sz with
            | Some c, Some z =>
                let o := if str_eqb off [45] then Some None
                         else match p_nat off with Some v => Some (Some v) | None => None end in
                match o with
                | Some o' =>
                    let all := map N.of_nat (seq 0 (N.to_nat c)) in
                    let (items, next) := page_of (paging_new z o') all in
                    join_sp [kw "PP"; r_num (len_N items);
                             match items with x :: _ => r_num x | [] => [45] end;
                             match next with Some v => r_num v | None => [45] end]
                | None => [63] end
            | _, _ => [63] end
        | _ => [63] end
      else if is_kw "DX" op then
        match args with
        | [t] => match p_int t with
                 | Some z => match parse_ext z with
                             | ExtErr => join_sp [kw "DX"; r_num 3]
                             | ExtNack => join_sp [kw "DX"; r_num 0; [45]]
                             | ExtSecs n => join_sp [kw "DX"; r_num 0; r_num n]
                             end
                 | None => [63] end
        | _ => [63] end
      else if is_kw "PJ" op then
        match args with
        | [s] => match p_str s with
                 | Some x => match parse_project x with
                             | Some p => join_sp [kw "PJ"; r_num 0; r_str p]
                             | None => join_sp [kw "PJ"; r_num 3]
                             end
                 | None => [63] end
        | _ => [63] end
      else if is_kw "PC" op then
        match args with
        | [s] => match p_str s with
                 | Some x => match parse_push (Some x) with
                             | Some (Some e) => join_sp [kw "PC"; r_num 0; r_str e]
                             | _ => join_sp [kw "PC"; r_num 3]
                             end
                 | None => [63] end
        | _ => [63] end
      else if is_kw "MI" op then
        match args with
        | [a; b] => match p_nat a, p_nat b with
                    | Some x, Some y => join_sp [kw "MI"; r_num (message_id x y)]
                    | _, _ => [63] end
        | _ => [63] end
      else [63]
  end.

Definition pure_file (text : str) : str :=
  join_nl (map pure_line (filter (fun l => negb (is_nil l)) (map tokens (split_on nl text)))).
