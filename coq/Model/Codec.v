(* Base64 (STANDARD, padded, canonical), page tokens, integer narrowings. *)
From Deltio Require Export Model.Base.

(* ---------- base64 ---------- *)
Definition b64_char (v : N) : N :=
  if N.ltb v 26 then 65 + v
  else if N.ltb v 52 then 97 + (v - 26)
  else if N.ltb v 62 then 48 + (v - 52)
  else if N.eqb v 62 then 43 else 47.

Definition b64_val (c : N) : option N :=
  if N.leb 65 c && N.leb c 90 then Some (c - 65)
  else if N.leb 97 c && N.leb c 122 then Some (c - 97 + 26)
  else if N.leb 48 c && N.leb c 57 then Some (c - 48 + 52)
  else if N.eqb c 43 then Some 62
  else if N.eqb c 47 then Some 63
  else None.

Definition pad : N := 61.

Fixpoint b64_encode (s : str) : str :=
  match s with
  | [] => []
  | [a] => [b64_char (a / 4); b64_char ((a mod 4) * 16); pad; pad]
  | [a; b] => [b64_char (a / 4); b64_char ((a mod 4) * 16 + b / 16);
               b64_char ((b mod 16) * 4); pad]
  | a :: b :: c :: s' =>
      b64_char (a / 4) :: b64_char ((a mod 4) * 16 + b / 16)
      :: b64_char ((b mod 16) * 4 + c / 64) :: b64_char (c mod 64)
      :: b64_encode s'
  end.

(* Strict decoder: length a multiple of 4, padding only in the last quad and
   canonical (unused trailing bits zero). *)
Fixpoint b64_decode (s : str) : option str :=
  match s with
  | [] => Some []
  | [c1; c2; c3; c4] =>
      match b64_val c1, b64_val c2 with
      | Some v1, Some v2 =>
          if N.eqb c3 pad then
            if N.eqb c4 pad then
              if N.eqb (v2 mod 16) 0 then Some [v1 * 4 + v2 / 16] else None
            else None
          else
            match b64_val c3 with
            | None => None
            | Some v3 =>
                if N.eqb c4 pad then
                  if N.eqb (v3 mod 4) 0
                  then Some [v1 * 4 + v2 / 16; (v2 mod 16) * 16 + v3 / 4] else None
                else
                  match b64_val c4 with
                  | None => None
                  | Some v4 => Some [v1 * 4 + v2 / 16; (v2 mod 16) * 16 + v3 / 4;
                                     (v3 mod 4) * 64 + v4]
                  end
            end
      | _, _ => None
      end
  | c1 :: c2 :: c3 :: c4 :: s' =>
      match b64_val c1, b64_val c2, b64_val c3, b64_val c4, b64_decode s' with
      | Some v1, Some v2, Some v3, Some v4, Some r =>
          Some (v1 * 4 + v2 / 16 :: (v2 mod 16) * 16 + v3 / 4 :: (v3 mod 4) * 64 + v4 :: r)
      | _, _, _, _, _ => None
      end
  | _ => None
  end.

(* ---------- page tokens: base64 of the 8 little-endian bytes of a usize ---------- *)
Fixpoint le_bytes (k : nat) (n : N) : str :=
  match k with
  | O => []
  | S k' => n mod 256 :: le_bytes k' (n / 256)
  end.

Fixpoint le_value (s : str) : N :=
  match s with
  | [] => 0
  | b :: s' => b + 256 * le_value s'
  end.

Definition token_encode (n : N) : str := b64_encode (le_bytes 8 n).

Definition token_decode (s : str) : option N :=
  match b64_decode s with
  | Some bytes => if Nat.eqb (length bytes) 8 then Some (le_value bytes) else None
  | None => None
  end.

(* ---------- integer narrowings of api/subscriber.rs ---------- *)
(* `x as u16` for an i32 x. *)
Definition as_u16 (z : Z) : N := Z.to_N (z mod 65536)%Z.
(* `usize as u16`. *)
Definition len_as_u16 (n : N) : N := n mod 65536.
(* `i32.try_into::<u16>()`. *)
Definition try_u16 (z : Z) : option N :=
  if Z.leb 0 z && Z.leb z 65535 then Some (Z.to_N z) else None.

(* Number of messages one pull turn hands out:
   capacity = clamp(max_count, 0, max(len as u16, 1000)); the loop pushes a
   message before testing `len >= capacity`, so capacity 0 still yields one. *)
Definition pull_capacity (max_count : N) (backlog_len : N) : N :=
  N.min max_count (N.max (len_as_u16 backlog_len) 1000).
Definition pull_count (max_count : N) (backlog_len : N) : N :=
  N.min backlog_len (N.max 1 (pull_capacity max_count backlog_len)).

(* MessageId::new: (topic internal id << 32) | counter, both u32. *)
Definition message_id (tid ctr : N) : N := N.lor (N.shiftl tid 32) ctr.
