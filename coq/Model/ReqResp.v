(* One request to an actor and the moment its caller is told "done" (C02, C05: "once Acknowledge / ModifyAckDeadline has
   returned ...").

   src/subscriptions/subscription.rs: every request method puts a message with a oneshot responder into the actor's
   mailbox (`send`) and then waits for the actor's answer (`recv`).  The actor serves its mailbox in order - but its
   select! also has a branch that is not fed by the mailbox: the expiry of ack deadlines, taken whenever a deadline
   has passed, whatever is queued.  Two protocols for the caller:
     Wait  send, then wait for the answer (the code): the call returns after the actor has applied the request;
     Fire  send and return (seeded change C02-r8, "nothing in the reply is worth a round-trip"): the call returns
           while the request is still in the mailbox.
   What the caller was told is then true or not when the actor next takes the expiry branch.
   Definitions only; proofs in Proofs/ReqRespP.v. *)
From Coq Require Import List Bool.
Import ListNotations.

Inductive proto := Wait | Fire.

Inductive req := Mine | Other.

Record state := mk {
  queue : list req;        (* the actor's mailbox, oldest first *)
  sent : bool;             (* the caller has put its request into the mailbox *)
  applied : bool;          (* the actor has handled the caller's request *)
  returned : bool;         (* the call has returned to the caller *)
  stale_expiry : bool      (* ghost: the actor took its expiry branch after the call had returned and before the
                              request was applied - it acted on state the caller was told is gone *)
}.

Definition init : state := mk [] false false false false.

Inductive ev :=
| ESend        (* the caller's send completes *)
| EOther       (* some other client's request enters the mailbox *)
| EServe       (* the actor takes the oldest request out of its mailbox and handles it *)
| ERecv        (* the caller receives the actor's answer *)
| EExpire.     (* the actor takes the expiry branch of its select! *)

(* None = not enabled *)
Definition step (p : proto) (s : state) (e : ev) : option state :=
  match e with
  | ESend =>
      if sent s then None
      else Some (mk (queue s ++ [Mine]) true (applied s)
                    (match p with Fire => true | Wait => returned s end) (stale_expiry s))
  | EOther => Some (mk (queue s ++ [Other]) (sent s) (applied s) (returned s) (stale_expiry s))
  | EServe =>
      match queue s with
      | [] => None
      | Mine :: r => Some (mk r (sent s) true (returned s) (stale_expiry s))
      | Other :: r => Some (mk r (sent s) (applied s) (returned s) (stale_expiry s))
      end
  | ERecv =>
      match p with
      | Wait => if applied s && negb (returned s) then Some (mk (queue s) (sent s) (applied s) true (stale_expiry s)) else None
      | Fire => None
      end
  | EExpire =>
      Some (mk (queue s) (sent s) (applied s) (returned s) (stale_expiry s || (returned s && negb (applied s))))
  end.

(* events that are not enabled are skipped: every list of events is a schedule *)
Fixpoint run (p : proto) (s : state) (es : list ev) : state :=
  match es with
  | [] => s
  | e :: r => run p (match step p s e with Some s' => s' | None => s end) r
  end.

(* the schedule of seeded change C02-r8: the acknowledgement returns, the deadline passes, the actor looks at the
   expiry first *)
Definition late_schedule : list ev := [EOther; ESend; ERecv; EExpire; EServe; EServe].
