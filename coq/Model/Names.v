(* Resource names: `TopicName::try_parse`, `SubscriptionName::try_parse`,
   their `Display`, and `parse_project_id`.  *)
From Coq Require Import String.
From Deltio Require Export Model.Base.

Definition projects_prefix : str := Eval vm_compute in bytes_of_string "projects/"%string.
Definition topics_seg : str := Eval vm_compute in bytes_of_string "topics/"%string.
Definition subscriptions_seg : str := Eval vm_compute in bytes_of_string "subscriptions/"%string.
Definition slash : N := 47.

(* A parsed name: (project id, resource id). *)
Definition name := (str * str)%type.

Definition name_eqb (a b : name) : bool :=
  str_eqb (fst a) (fst b) && str_eqb (snd a) (snd b).

(* try_parse, as repaired by the `fix:` commit for C18:
     strip "projects/", split at the first '/', strip "<seg>", and reject an
     empty project or an empty id. *)
Definition parse_name (seg : str) (s : str) : option name :=
  match strip_prefix projects_prefix s with
  | None => None
  | Some r =>
      match split_once slash r with
      | None => None
      | Some (proj, rest) =>
          match strip_prefix seg rest with
          | None => None
          | Some id => if is_nil proj || is_nil id then None else Some (proj, id)
          end
      end
  end.

Definition show_name (seg : str) (n : name) : str :=
  projects_prefix ++ fst n ++ slash :: seg ++ snd n.

Definition parse_topic_name := parse_name topics_seg.
Definition parse_sub_name := parse_name subscriptions_seg.
Definition show_topic_name := show_name topics_seg.
Definition show_sub_name := show_name subscriptions_seg.

(* `parse_project_id`: everything after "projects/" (possibly empty, possibly
   containing slashes). *)
Definition parse_project (s : str) : option str := strip_prefix projects_prefix s.

(* ---- The parser of the pinned tree (before the fix), kept to document the
   defect: length test, "projects/" prefix, project up to the first '/', id
   taken at the computed offset whatever the middle segment says, and slashes
   trimmed from both ends of the id.  Char-boundary failures of `str::get` are
   modelled by [is_boundary]. ---- *)
Definition is_cont_byte (b : N) : bool := N.leb 128 b && N.ltb b 192.

Fixpoint trim_start_slash (s : str) : str :=
  match s with
  | c :: s' => if N.eqb c slash then trim_start_slash s' else s
  | [] => []
  end.
Definition trim_slashes (s : str) : str :=
  rev (trim_start_slash (rev (trim_start_slash s))).

Definition pinned_parse_name (seglen : N) (s : str) : option name :=
  if N.leb (len_N s) (9 + (seglen + 1) + 2) then None else
  match strip_prefix projects_prefix s with
  | None => None
  | Some r =>
      match split_once slash r with
      | None => None
      | Some (proj, _) =>
          let start := 9 + len_N proj + (seglen + 1) in
          if N.ltb (len_N s) start then None else
          let tail := skip_N start s in
          match tail with
          | b :: _ => if is_cont_byte b then None else Some (proj, trim_slashes tail)
          | [] => Some (proj, [])
          end
      end
  end.
