(* The subscription actor's loop and the branch that returns expired leases (C04: "redelivered ... no later than a
   fixed sub-second slack after" the deadline).

   src/subscriptions/subscription_actor.rs, SubscriptionActor::start: `select! { request = mailbox => handle it,
   expired = outstanding.poll_next_expired() => put them back into the backlog }`.  The expiry branch is what makes a
   lease end when nobody asks: it is the only step that moves a delivery whose deadline has passed from the tracker
   to the backlog.  Two variants of the select!:
     Always    both branches unconditional (the code);
     IfEmpty   the expiry branch carries the precondition `if backlog.is_empty()` (seeded change C04-r8: "the
               consumers have been signalled and are on their way").
   Definitions only; proofs in Proofs/ActorLoopP.v. *)
From Coq Require Import List Arith Bool.
Import ListNotations.

Inductive guard := Always | IfEmpty.

Record state := mk {
  mailbox : nat;       (* requests waiting in the actor's mailbox *)
  running : nat;       (* leases whose deadline has not passed *)
  expired : nat;       (* leases whose deadline (plus the timer's granularity) has passed, still in the tracker *)
  backlog : nat        (* messages waiting to be pulled *)
}.

Inductive ev :=
| ERequest          (* a request arrives (environment) *)
| EPublish          (* the topic posts a message: handled as a request that adds to the backlog *)
| EServe            (* the actor takes a request out of the mailbox (a no-op on the counts modelled here) *)
| EPull             (* the actor serves a pull: one message from the backlog becomes a running lease *)
| ETime             (* time passes: one running lease reaches its deadline (environment) *)
| EExpire.          (* the expiry branch: every expired lease goes back to the backlog *)

Definition expiry_enabled (g : guard) (s : state) : bool :=
  match g with
  | Always => true
  | IfEmpty => Nat.eqb (backlog s) 0
  end.

(* None = not enabled *)
Definition step (g : guard) (s : state) (e : ev) : option state :=
  match e with
  | ERequest => Some (mk (S (mailbox s)) (running s) (expired s) (backlog s))
  | EPublish => Some (mk (mailbox s) (running s) (expired s) (S (backlog s)))
  | EServe => match mailbox s with 0 => None | S m => Some (mk m (running s) (expired s) (backlog s)) end
  | EPull =>
      match mailbox s, backlog s with
      | S m, S b => Some (mk m (S (running s)) (expired s) b)
      | _, _ => None
      end
  | ETime => match running s with 0 => None | S r => Some (mk (mailbox s) r (S (expired s)) (backlog s)) end
  | EExpire =>
      if expiry_enabled g s && negb (Nat.eqb (expired s) 0)
      then Some (mk (mailbox s) (running s) 0 (backlog s + expired s)) else None
  end.

(* the steps the actor itself can take (the others are the environment's) *)
Definition actor_step (e : ev) : bool := match e with EServe | EPull | EExpire => true | _ => false end.

(* the actor is idle: none of its own steps is enabled *)
Definition idle (g : guard) (s : state) : Prop :=
  forall e, actor_step e = true -> step g s e = None.

(* the state seeded change C04-r8 leaves behind: one lease has run out, one message waits unpulled, nobody asks *)
Definition stuck_example : state := mk 0 0 1 1.
