(* Lock-order model (C07): OS threads executing synchronous critical sections over
   reader/writer locks.  A thread's program is a sequence of acquisitions and
   releases; the lock implementation's granting policy is a parameter about which
   only one thing is assumed: a lock that nobody holds is granted to one of the
   threads waiting for it (true of parking_lot's RwLock/Mutex whatever their
   fairness, and of std's).  Definitions only; proofs in Proofs/LocksP.v.  The nesting edges of the real code are
   produced on every run by /verif/lockscan (Gen/LockEdges.v) and checked against a rank
   order in Gen/LockCheck.v. *)
From Coq Require Import List Arith Bool.
Import ListNotations.

Section Locks.
Variable lock : Type.
Variable lock_eq_dec : forall a b : lock, {a = b} + {a <> b}.

Inductive mode := MR | MW.
Inductive act := Acq (l : lock) (m : mode) | Rel (l : lock).
Definition prog := list act.

Record thread := mkThread { held : list lock; rest : prog }.
Definition state := list thread.

Definition init (ps : list prog) : state := map (mkThread []) ps.

(* what a thread is waiting for, if its next action is an acquisition *)
Definition wants (t : thread) : option (lock * mode) :=
  match rest t with
  | Acq l m :: _ => Some (l, m)
  | _ => None
  end.

Definition holds (t : thread) (l : lock) : Prop := In l (held t).

(* a granting policy: may thread number i of state s be given lock l in mode m now? *)
Definition policy := state -> nat -> lock -> mode -> Prop.

(* the one assumption: a lock held by nobody is granted to some thread waiting for it *)
Definition grants_free (g : policy) : Prop :=
  forall (s : state) (l : lock),
    (forall t, In t s -> ~ holds t l) ->
    (exists i t m, nth_error s i = Some t /\ wants t = Some (l, m)) ->
    exists i t m, nth_error s i = Some t /\ wants t = Some (l, m) /\ g s i l m.

Fixpoint set_nth (s : state) (i : nat) (t : thread) : state :=
  match s, i with
  | [], _ => []
  | _ :: r, O => t :: r
  | x :: r, S k => x :: set_nth r k t
  end.

Inductive step (g : policy) : state -> state -> Prop :=
| step_acq : forall s i t l m p,
    nth_error s i = Some t -> rest t = Acq l m :: p -> g s i l m ->
    step g s (set_nth s i (mkThread (l :: held t) p))
| step_rel : forall s i t l p,
    nth_error s i = Some t -> rest t = Rel l :: p ->
    step g s (set_nth s i (mkThread (remove lock_eq_dec l (held t)) p)).

Inductive reachable (g : policy) (s0 : state) : state -> Prop :=
| reach_refl : reachable g s0 s0
| reach_step : forall s s', reachable g s0 s -> step g s s' -> reachable g s0 s'.

(* the discipline: a lock is only acquired while every lock already held by the
   thread has a strictly smaller rank; releases name a held lock; a program ends
   holding nothing *)
Fixpoint disciplined (rank : lock -> nat) (h : list lock) (p : prog) : Prop :=
  match p with
  | [] => h = []
  | Acq l _ :: q => Forall (fun x => rank x < rank l) h /\ disciplined rank (l :: h) q
  | Rel l :: q => In l h /\ disciplined rank (remove lock_eq_dec l h) q
  end.

(* the same, relative to a set of nesting edges (held lock, acquired lock): what the
   scanner of the source produces *)
Fixpoint nests_within (edges : list (lock * lock)) (h : list lock) (p : prog) : Prop :=
  match p with
  | [] => h = []
  | Acq l _ :: q => Forall (fun x => In (x, l) edges) h /\ nests_within edges (l :: h) q
  | Rel l :: q => In l h /\ nests_within edges (remove lock_eq_dec l h) q
  end.

Definition edges_ok (rank : lock -> nat) (edges : list (lock * lock)) : bool :=
  forallb (fun e => Nat.ltb (rank (fst e)) (rank (snd e))) edges.

Definition unfinished (s : state) : Prop := exists t, In t s /\ rest t <> [].

(* two instances of the policy: locks treated as mutexes (never two holders), and the
   most permissive one *)
Definition mutex_policy : policy :=
  fun s i l _ => forall t, In t s -> ~ holds t l.
Definition any_policy : policy := fun _ _ _ _ => True.

End Locks.

Arguments Acq {lock}. Arguments Rel {lock}. Arguments mkThread {lock}.
Arguments held {lock}. Arguments rest {lock}.
