(* Concurrent model of ONE subscription and the consumers waiting on it.

   What is modelled (sources: src/subscriptions/subscription_actor.rs,
   src/subscriptions/subscription.rs, src/api/subscriber.rs,
   tokio-1.40.0 src/sync/notify.rs):

   - tokio's Notify, exactly: a permit, a FIFO list of waiters (oldest first)
     and the notify_waiters call counter; a Notified future is Init(snapshot) |
     Waiting(none|one|all) | Done; poll / notify_one / notify_waiters / Drop
     (with forwarding of a notify_one notification that was received but not
     consumed).
   - the subscription actor, abstractly: backlog and leased are counters, the
     mailbox is a bounded FIFO (capacity K), one request per atomic turn.
   - consumers at the granularity of their await points: the unary blocking
     Pull loop and the StreamingPull pull loop.

   The Notified future of a consumer is determined by its phase ([sig_of]):
   U0: none (the previous one was dropped in state Done); U1,U2,U3: Init(snap);
   Parked n: Waiting(n); Done/Gone: dropped.  The flag "has consumed a
   notification and has not pulled yet" ([owes]) lives in the phases U0 and U1.

   Two versions of the code are described, selected by the boolean [ho]
   ("handoff") that every step function takes next to the capacity K:

   - ho = false: the code before the commit
       "fix: pass the wake-up on when a woken consumer goes away before its
        pull is queued".
     A consumer whose future is dropped while it waits for room in the mailbox
     (phase U1) just disappears.
   - ho = true: the code after that commit.  Subscription::pull_messages holds
     a drop guard (WakeNextOnDrop) across `self.sender.send(..).await`; when the
     future goes away at that await the guard calls notify_one, whether or not
     the caller had consumed a notification (the guard does not know); once the
     request is in the mailbox the guard is disarmed.  In the model: whenever a
     consumer whose OLD phase is U1 is finished by LCancel / LTimeout /
     LDelExit, notify_one is performed on the resulting state ([leave]).
     The error path of the same await (the actor has exited, `send` returns
     Err and `?` returns through the armed guard) notifies as well in the Rust
     code, and the model does the same (the U1 branch of [cons_step] uses
     [leave] too).  The subscription is deleted at that point, so this surplus
     notification is irrelevant for C06; it is kept for faithfulness.

   Drop points.  A Rust future can only be dropped at an await at which it
   returned Pending.  Phase U0 with owes = true is not such a point: the poll of
   the signal has just returned Ready and the code runs synchronously on to
   `notified()` and into the send.  LCancel / LTimeout / LDelExit are therefore
   disabled at `PU0 true` ([suspended]), for both values of ho; they stay
   enabled at `PU0 false` (a consumer that arrived and was never polled).
   Phase U3 (empty reply seen, about to poll the signal) is synchronous as
   well, but drops are left ENABLED there: nothing is owed at U3, a drop at U3
   is indistinguishable from a drop one step earlier (at U2 with the reply
   delivered) or one step later (parked), and no theorem needs the exclusion.

   This file contains definitions only; everything is executable. *)
From Coq Require Import List NArith Arith Bool Lia.
Import ListNotations.

(* ------------------------------------------------------------------ *)
(* Notify                                                              *)

Inductive notif := NNone | NOne | NAll.
Inductive nstate := NInit (snap : nat) | NWaiting (n : notif) | NDone.

(* First poll of a Notified in state Init(snap). *)
Inductive poll_res := PollReadyPermit | PollReadyCalls | PollPending.
Definition poll_init (permit : bool) (calls snap : nat) : poll_res :=
  if permit then PollReadyPermit
  else if Nat.eqb snap calls then PollPending else PollReadyCalls.

(* ------------------------------------------------------------------ *)
(* Consumers                                                           *)

Inductive kind := Unary | Stream.
Inductive outcome := OMessages (k : nat) | OEmpty | OError | ONotFound.
Inductive reply := RMsgs (k : nat) | RClosed.

Inductive phase :=
| PU0 (owes : bool)                      (* about to create signal := notified() *)
| PU1 (snap : nat) (owes : bool)         (* signal = Init(snap); sending the Pull (needs room) *)
| PU2 (snap : nat) (r : option reply)    (* Pull sent; awaiting the reply (r = reply delivered, not yet seen) *)
| PU3 (snap : nat)                       (* empty reply seen (or batch emitted); about to poll the signal *)
| PParked (n : notif)                    (* signal = Waiting(n); n = none: in the waiters list *)
| PDone (o : outcome)
| PGone.                                 (* cancelled *)

Definition sig_of (p : phase) : nstate :=
  match p with
  | PU0 _ => NDone
  | PU1 s _ | PU2 s _ | PU3 s => NInit s
  | PParked n => NWaiting n
  | PDone _ | PGone => NDone
  end.

Record cons := mkCons {
  ckind : kind;
  cmax : nat;
  cphase : phase;
  ctimed : bool;     (* ghost: the 300 s timer fired for this consumer *)
  cgot : nat         (* ghost: messages handed to this consumer so far *)
}.

Definition with_phase (p : phase) (c : cons) : cons :=
  mkCons (ckind c) (cmax c) p (ctimed c) (cgot c).
Definition with_timed (c : cons) : cons :=
  mkCons (ckind c) (cmax c) (cphase c) true (cgot c).
Definition add_got (k : nat) (c : cons) : cons :=
  mkCons (ckind c) (cmax c) (cphase c) (ctimed c) (cgot c + k).

Definition owes (c : cons) : bool :=
  match cphase c with PU0 o | PU1 _ o => o | _ => false end.
Definition csig (c : cons) : nstate := sig_of (cphase c).

(* ------------------------------------------------------------------ *)
(* Requests and state                                                  *)

Inductive req :=
| RPost (n : nat)
| RPull (c : nat) (m : nat)
| RNack (j : nat)       (* ModifyDeadline; j = number of nacked messages, j = 0: extensions only *)
| RAck (j : nat)        (* also stands for GetInfo / GetStats: never notifies *)
| RDelete.

Record state := mkSt {
  permit : bool;
  waiters : list nat;        (* oldest first *)
  calls : nat;               (* notify_waiters call counter *)
  backlog : nat;
  leased : nat;
  deleted : bool;            (* = the one-shot `deleted` signal has fired *)
  exited : bool;             (* actor task gone, mailbox closed *)
  mailbox : list req;        (* oldest first *)
  conss : list cons          (* consumer id = index *)
}.

Definition init : state := mkSt false [] 0 0 0 false false [] [].

Definition set_permit b s := mkSt b (waiters s) (calls s) (backlog s) (leased s) (deleted s) (exited s) (mailbox s) (conss s).
Definition set_waiters w s := mkSt (permit s) w (calls s) (backlog s) (leased s) (deleted s) (exited s) (mailbox s) (conss s).
Definition set_calls n s := mkSt (permit s) (waiters s) n (backlog s) (leased s) (deleted s) (exited s) (mailbox s) (conss s).
Definition set_backlog n s := mkSt (permit s) (waiters s) (calls s) n (leased s) (deleted s) (exited s) (mailbox s) (conss s).
Definition set_leased n s := mkSt (permit s) (waiters s) (calls s) (backlog s) n (deleted s) (exited s) (mailbox s) (conss s).
Definition set_deleted b s := mkSt (permit s) (waiters s) (calls s) (backlog s) (leased s) b (exited s) (mailbox s) (conss s).
Definition set_exited b s := mkSt (permit s) (waiters s) (calls s) (backlog s) (leased s) (deleted s) b (mailbox s) (conss s).
Definition set_mailbox m s := mkSt (permit s) (waiters s) (calls s) (backlog s) (leased s) (deleted s) (exited s) m (conss s).
Definition set_conss l s := mkSt (permit s) (waiters s) (calls s) (backlog s) (leased s) (deleted s) (exited s) (mailbox s) l.

Definition get (s : state) (c : nat) : option cons := nth_error (conss s) c.

Fixpoint upd (l : list cons) (c : nat) (f : cons -> cons) : list cons :=
  match l, c with
  | [], _ => []
  | x :: t, 0 => f x :: t
  | x :: t, S c' => x :: upd t c' f
  end.

Definition setc (c : nat) (f : cons -> cons) (s : state) : state :=
  set_conss (upd (conss s) c f) s.

(* ------------------------------------------------------------------ *)
(* Notify operations on the state                                      *)

(* A waiter in the list is marked notified. *)
Definition wake (n : notif) (cs : cons) : cons :=
  match cphase cs with PParked NNone => with_phase (PParked n) cs | _ => cs end.

Definition notify_one (s : state) : state :=
  match waiters s with
  | [] => set_permit true s
  | w :: ws => set_waiters ws (setc w (wake NOne) s)
  end.

Definition notify_waiters (s : state) : state :=
  set_calls (S (calls s))
    (set_waiters []
      (set_conss (fold_left (fun l w => upd l w (wake NAll)) (waiters s) (conss s)) s)).

(* Consumer c stops (result, cancellation, timeout, deleted): its record is
   rewritten by f and its Notified, which was in the state given by the OLD
   phase, is dropped. *)
Definition finish (old : phase) (c : nat) (f : cons -> cons) (s : state) : state :=
  let s1 := setc c f s in
  match old with
  | PParked NNone => set_waiters (remove Nat.eq_dec c (waiters s1)) s1
  | PParked NOne => notify_one s1          (* forwarded *)
  | _ => s1
  end.

(* The pull future of consumer c goes away at the await point given by its OLD
   phase: its Notified is dropped ([finish]) and, in the repaired code
   (ho = true), the armed WakeNextOnDrop guard of a consumer that was waiting
   for room in the mailbox (U1) calls notify_one -- unconditionally, also when
   the consumer had not consumed any notification. *)
Definition leave (ho : bool) (old : phase) (c : nat) (f : cons -> cons) (s : state) : state :=
  let s1 := finish old c f s in
  match old with
  | PU1 _ _ => if ho then notify_one s1 else s1
  | _ => s1
  end.

(* The await points at which the future of a live consumer can be dropped:
   everything except U0 right after a Ready poll (synchronous code). *)
Definition suspended (p : phase) : bool :=
  match p with PDone _ | PGone | PU0 true => false | _ => true end.

(* ------------------------------------------------------------------ *)
(* Consumer micro-steps (the messages branch)                          *)

Definition closed_outcome (k : kind) : outcome :=
  match k with Unary => OError | Stream => ONotFound end.

Definition cons_step (ho : bool) (K : nat) (s : state) (c : nat) : option state :=
  match get s c with
  | None => None
  | Some cs =>
    match cphase cs with
    | PU0 o => Some (setc c (with_phase (PU1 (calls s) o)) s)
    | PU1 snap o =>
        if exited s then   (* send returns Err; `?` returns through the armed guard *)
          Some (leave ho (cphase cs) c (with_phase (PDone (closed_outcome (ckind cs)))) s)
        else if Nat.ltb (length (mailbox s)) K then
          Some (set_mailbox (mailbox s ++ [RPull c (cmax cs)])
                  (setc c (with_phase (PU2 snap None)) s))
        else None
    | PU2 snap None => None
    | PU2 snap (Some RClosed) =>
        Some (finish (cphase cs) c (with_phase (PDone (closed_outcome (ckind cs)))) s)
    | PU2 snap (Some (RMsgs 0)) => Some (setc c (with_phase (PU3 snap)) s)
    | PU2 snap (Some (RMsgs (S k))) =>
        match ckind cs with
        | Unary => Some (finish (cphase cs) c
                           (fun x => add_got (S k) (with_phase (PDone (OMessages (S k))) x)) s)
        | Stream => Some (setc c (fun x => add_got (S k) (with_phase (PU3 snap) x)) s)
        end
    | PU3 snap =>
        match poll_init (permit s) (calls s) snap with
        | PollReadyPermit => Some (set_permit false (setc c (with_phase (PU0 true)) s))
        | PollReadyCalls => Some (setc c (with_phase (PU0 true)) s)
        | PollPending =>
            Some (set_waiters (waiters s ++ [c]) (setc c (with_phase (PParked NNone)) s))
        end
    | PParked NNone => None
    | PParked _ => Some (setc c (with_phase (PU0 true)) s)
    | PDone _ | PGone => None
    end
  end.

(* The select! of a consumer picks the `deleted` branch. *)
Definition del_exit (ho : bool) (s : state) (c : nat) : option state :=
  if negb (deleted s) then None else
  match get s c with
  | None => None
  | Some cs =>
    match ckind cs, cphase cs with
    | _, PDone _ | _, PGone => None
    | Unary, PU0 true => None          (* not a suspension point *)
    | Unary, p => Some (leave ho p c (with_phase (PDone ONotFound)) s)
    | Stream, (PU3 _ | PParked _) as p => Some (leave ho p c (with_phase (PDone ONotFound)) s)
    | Stream, _ => None
    end
  end.

Definition alive (p : phase) : bool :=
  match p with PDone _ | PGone => false | _ => true end.

Definition timeout (ho : bool) (s : state) (c : nat) : option state :=
  match get s c with
  | None => None
  | Some cs =>
    match ckind cs with
    | Stream => None
    | Unary =>
        if suspended (cphase cs)
        then Some (leave ho (cphase cs) c (fun x => with_timed (with_phase (PDone OEmpty) x)) s)
        else None
    end
  end.

Definition cancel (ho : bool) (s : state) (c : nat) : option state :=
  match get s c with
  | None => None
  | Some cs =>
    if suspended (cphase cs) then Some (leave ho (cphase cs) c (with_phase PGone) s) else None
  end.

(* ------------------------------------------------------------------ *)
(* Actor                                                               *)

Definition deliver_f (r : reply) (cs : cons) : cons :=
  match cphase cs with
  | PU2 snap None => with_phase (PU2 snap (Some r)) cs
  | _ => cs
  end.
Definition deliver (c : nat) (r : reply) (s : state) : state := setc c (deliver_f r) s.

(* j leased messages return to the backlog (nack or expiry). *)
Definition requeue (j : nat) (s : state) : state :=
  let j' := Nat.min j (leased s) in
  let s1 := set_leased (leased s - j') (set_backlog (backlog s + j') s) in
  if Nat.ltb 0 (backlog s + j') then notify_one s1 else s1.

Definition pull_count (b m : nat) : nat := Nat.min b (Nat.max 1 m).

Definition turn (s : state) : option state :=
  if exited s then None else
  match mailbox s with
  | [] => None
  | r :: rest =>
    let s0 := set_mailbox rest s in
    Some
      (if deleted s then
         match r with RPull c _ => deliver c (RMsgs 0) s0 | _ => s0 end
       else
         match r with
         | RPost n => notify_one (set_backlog (backlog s + n) s0)
         | RPull c m =>
             let k := pull_count (backlog s) m in
             let s1 := deliver c (RMsgs k)
                         (set_leased (leased s + k) (set_backlog (backlog s - k) s0)) in
             if Nat.ltb 0 (backlog s - k) then notify_one s1 else s1
         | RNack j => requeue j s0
         | RAck j => set_leased (leased s - Nat.min j (leased s)) s0
         | RDelete =>
             notify_waiters (set_deleted true (set_leased 0 (set_backlog 0 s0)))
         end)
  end.

Definition close_req (s : state) (r : req) : state :=
  match r with RPull c _ => deliver c RClosed s | _ => s end.

Definition actor_exit (s : state) : option state :=
  if deleted s && negb (exited s)
  then Some (set_mailbox [] (set_exited true (fold_left close_req (mailbox s) s)))
  else None.

(* ------------------------------------------------------------------ *)
(* Steps                                                               *)

Inductive label :=
(* internal *)
| LTurn                         (* the actor handles the oldest request *)
| LExit                         (* the actor task ends (after the deleted signal fired) *)
| LCons (c : nat)               (* micro-step of consumer c on its messages branch *)
| LDelExit (c : nat)            (* consumer c: select! picks the deleted branch *)
(* environment *)
| LEnq (r : req)                (* somebody sends Post/Nack/Ack/Delete *)
| LExpire (j : nat)             (* ack deadlines of j leased messages pass (actor's own select! branch) *)
| LArrive (k : kind) (m : nat)  (* a new consumer *)
| LCancel (c : nat)
| LTimeout (c : nat).           (* 300 s timer of a unary Pull *)

Definition internal (l : label) : bool :=
  match l with LTurn | LExit | LCons _ | LDelExit _ => true | _ => false end.

Definition is_pull (r : req) : bool := match r with RPull _ _ => true | _ => false end.

Definition new_cons (k : kind) (m : nat) : cons := mkCons k m (PU0 false) false 0.

Definition step (ho : bool) (K : nat) (s : state) (l : label) : option state :=
  match l with
  | LTurn => turn s
  | LExit => actor_exit s
  | LCons c => cons_step ho K s c
  | LDelExit c => del_exit ho s c
  | LEnq r =>
      if is_pull r || exited s || negb (Nat.ltb (length (mailbox s)) K) then None
      else Some (set_mailbox (mailbox s ++ [r]) s)
  | LExpire j =>
      if exited s then None
      else Some (if deleted s then s else requeue j s)
  | LArrive k m => Some (set_conss (conss s ++ [new_cons k m]) s)
  | LCancel c => cancel ho s c
  | LTimeout c => timeout ho s c
  end.

Fixpoint run (ho : bool) (K : nat) (s : state) (ls : list label) : option state :=
  match ls with
  | [] => Some s
  | l :: t => match step ho K s l with Some s' => run ho K s' t | None => None end
  end.

(* The steps that lose a consumed notification in the OLD code (ho = false):
   consumer c has consumed a notification (its poll returned Ready), has not
   yet enqueued the Pull it owes, the backlog is non-empty and c is dropped
   (cancelled / timed out / deleted branch).  Since drops are disabled at
   `PU0 true`, the only enabled such drops are those at U1 (waiting for room
   in the mailbox). *)
Definition owing_at (s : state) (c : nat) : bool :=
  match get s c with Some cs => owes cs | None => false end.

Definition bad_drop (s : state) (l : label) : bool :=
  match l with
  | LCancel c | LTimeout c | LDelExit c =>
      owing_at s c && Nat.ltb 0 (backlog s) && negb (deleted s)
  | _ => false
  end.

Inductive reachable (ho : bool) (K : nat) : state -> Prop :=
| reach_init : reachable ho K init
| reach_step s l s' : reachable ho K s -> step ho K s l = Some s' -> reachable ho K s'.

(* The system without the losing drops (only of interest for ho = false). *)
Inductive reachableR (ho : bool) (K : nat) : state -> Prop :=
| reachR_init : reachableR ho K init
| reachR_step s l s' :
    reachableR ho K s -> bad_drop s l = false -> step ho K s l = Some s' -> reachableR ho K s'.

Definition quiescent (ho : bool) (K : nat) (s : state) : Prop :=
  forall l, internal l = true -> step ho K s l = None.

(* Executable version for the examples (consumer ids below n). *)
Definition quiescentb (ho : bool) (K : nat) (s : state) : bool :=
  match turn s, actor_exit s with
  | None, None =>
      forallb (fun c => match cons_step ho K s c, del_exit ho s c with None, None => true | _, _ => false end)
              (seq 0 (length (conss s)))
  | _, _ => false
  end.

Definition phases (s : state) : list phase := map cphase (conss s).
