(* Base definitions shared by the whole model: byte strings, decimal and
   hexadecimal text, association lists.  Definitions only; proofs live in
   Proofs/.  *)
From Coq Require Import String Ascii.
From Coq Require Export List NArith ZArith Bool Lia.
Export ListNotations.
Open Scope N_scope.

(* A Rust `String`/`&str`/`Vec<u8>` is modelled as the list of its bytes. *)
Definition str := list N.

Definition bytes_of_string (s : string) : str :=
  map N_of_ascii (list_ascii_of_string s).

Fixpoint str_eqb (a b : str) : bool :=
  match a, b with
  | [], [] => true
  | x :: a', y :: b' => N.eqb x y && str_eqb a' b'
  | _, _ => false
  end.

Definition is_nil {A} (l : list A) : bool :=
  match l with [] => true | _ => false end.

(* `str::strip_prefix` for a byte pattern. *)
Fixpoint strip_prefix (p s : str) : option str :=
  match p with
  | [] => Some s
  | c :: p' =>
      match s with
      | [] => None
      | d :: s' => if N.eqb c d then strip_prefix p' s' else None
      end
  end.

Definition starts_with (p s : str) : bool :=
  match strip_prefix p s with Some _ => true | None => false end.

(* `str::split_once(c)`: the text before and after the first occurrence. *)
Fixpoint split_once (c : N) (s : str) : option (str * str) :=
  match s with
  | [] => None
  | d :: s' =>
      if N.eqb c d then Some ([], s')
      else match split_once c s' with
           | Some (a, b) => Some (d :: a, b)
           | None => None
           end
  end.

(* Lexicographic order on byte strings (the order of `String`). *)
Fixpoint str_ltb (a b : str) : bool :=
  match a, b with
  | _, [] => false
  | [], _ :: _ => true
  | x :: a', y :: b' => if N.ltb x y then true else if N.eqb x y then str_ltb a' b' else false
  end.

(* ---------- decimal text ---------- *)

(* Digits of [n], most significant first, by fuel (64-bit values have at most
   20 digits; [N.size n] bits suffice as fuel because n < 2^(size n)). *)
Fixpoint dec_digits_fuel (fuel : nat) (n : N) (acc : str) : str :=
  match fuel with
  | O => acc
  | S f =>
      let acc' := (48 + n mod 10) :: acc in
      if N.ltb n 10 then acc' else dec_digits_fuel f (n / 10) acc'
  end.

Definition dec_of_N (n : N) : str := dec_digits_fuel (S (N.to_nat (N.size n))) n [].

Definition is_digit (c : N) : bool := N.leb 48 c && N.leb c 57.

(* Value of a digit string, None on a non-digit. *)
Fixpoint digits_value (s : str) (acc : N) : option N :=
  match s with
  | [] => Some acc
  | c :: s' => if is_digit c then digits_value s' (acc * 10 + (c - 48)) else None
  end.

(* Rust `str::parse::<u64>()`: optional '+', at least one digit, no overflow. *)
Definition parse_u64 (s : str) : option N :=
  let ds := match s with 43 :: r => r | _ => s end in
  match ds with
  | [] => None
  | _ => match digits_value ds 0 with
         | Some v => if N.ltb v (2 ^ 64) then Some v else None
         | None => None
         end
  end.

(* Signed decimal used by the case files only: optional '-' then digits. *)
Definition parse_int (s : str) : option Z :=
  match s with
  | 45 :: r => match r with
               | [] => None
               | _ => match digits_value r 0 with Some v => Some (- Z.of_N v)%Z | None => None end
               end
  | [] => None
  | _ => match digits_value s 0 with Some v => Some (Z.of_N v) | None => None end
  end.

Definition dec_of_Z (z : Z) : str :=
  if Z.ltb z 0 then 45 :: dec_of_N (Z.to_N (- z)) else dec_of_N (Z.to_N z).

(* ---------- hexadecimal text (case files) ---------- *)

Definition hex_digit (n : N) : N := if N.ltb n 10 then 48 + n else 87 + n.

Fixpoint hex_of_bytes (s : str) : str :=
  match s with
  | [] => []
  | b :: s' => hex_digit (b / 16) :: hex_digit (b mod 16) :: hex_of_bytes s'
  end.

(* "-" stands for the empty string. *)
Definition hex_field (s : str) : str :=
  match s with [] => [45] | _ => hex_of_bytes s end.

Definition hex_val (c : N) : option N :=
  if is_digit c then Some (c - 48)
  else if N.leb 97 c && N.leb c 102 then Some (c - 87)
  else None.

Fixpoint bytes_of_hex (s : str) : option str :=
  match s with
  | [] => Some []
  | a :: b :: s' =>
      match hex_val a, hex_val b, bytes_of_hex s' with
      | Some x, Some y, Some r => Some (x * 16 + y :: r)
      | _, _, _ => None
      end
  | _ => None
  end.

Definition unhex_field (s : str) : option str :=
  match s with
  | [45] => Some []
  | _ => bytes_of_hex s
  end.

(* ---------- association lists keyed by anything with a boolean equality ---------- *)

Section Assoc.
  Context {K V : Type} (eqb : K -> K -> bool).

  Fixpoint alookup (k : K) (l : list (K * V)) : option V :=
    match l with
    | [] => None
    | (k', v) :: l' => if eqb k k' then Some v else alookup k l'
    end.

  Fixpoint aremove (k : K) (l : list (K * V)) : list (K * V) :=
    match l with
    | [] => []
    | (k', v) :: l' => if eqb k k' then l' else (k', v) :: aremove k l'
    end.

  Fixpoint aupdate (k : K) (v : V) (l : list (K * V)) : list (K * V) :=
    match l with
    | [] => []
    | (k', v') :: l' => if eqb k k' then (k', v) :: l' else (k', v') :: aupdate k v l'
    end.

  Definition amem (k : K) (l : list (K * V)) : bool :=
    match alookup k l with Some _ => true | None => false end.
End Assoc.

(* Insertion sort by a strict boolean order (used for "sort by internal id",
   "sort attributes by key"). *)
Section Sort.
  Context {A : Type} (ltb : A -> A -> bool).
  Fixpoint insert_sorted (x : A) (l : list A) : list A :=
    match l with
    | [] => [x]
    | y :: l' => if ltb x y then x :: l else y :: insert_sorted x l'
    end.
  Definition isort (l : list A) : list A := fold_right insert_sorted [] l.
End Sort.

(* `Iterator::skip` / `take` with a count that may be as large as 2^64: the
   recursion is on the list, never on the count. *)
Fixpoint skip_N {A} (n : N) (l : list A) : list A :=
  match l with
  | [] => []
  | x :: l' => if N.eqb n 0 then l else skip_N (n - 1) l'
  end.

Fixpoint take_N {A} (n : N) (l : list A) : list A :=
  match l with
  | [] => []
  | x :: l' => if N.eqb n 0 then [] else x :: take_N (n - 1) l'
  end.

Definition len_N {A} (l : list A) : N := N.of_nat (length l).
