(* Text front end of the model: parses a case file (docs/FORMAT.md), runs the
   model, renders the result file.  Everything the correspondence check needs
   from the model is computed here, inside Coq, so the extracted OCaml program
   only moves bytes. *)
From Coq Require Import String.
From Deltio Require Export Model.Server.

Fixpoint split_on (c : N) (s : str) : list str :=
  match s with
  | [] => [[]]
  | d :: s' =>
      if N.eqb d c then [] :: split_on c s'
      else match split_on c s' with
           | [] => [[d]]
           | w :: ws => (d :: w) :: ws
           end
  end.

Definition kw (s : string) : str := bytes_of_string s.

Definition bind {A B} (o : option A) (f : A -> option B) : option B :=
  match o with Some x => f x | None => None end.
Notation "x <- e ;; k" := (bind e (fun x => k)) (at level 61, e at next level, right associativity).

Definition p_str (t : str) : option str := unhex_field t.
Definition p_int (t : str) : option Z := parse_int t.
Definition p_nat (t : str) : option N := digits_value t 0.

(* n hex strings *)
Fixpoint p_strs (n : nat) (ts : list str) : option (list str * list str) :=
  match n with
  | O => Some ([], ts)
  | S n' => match ts with
            | [] => None
            | t :: ts' => x <- p_str t ;; r <- p_strs n' ts' ;; Some (x :: fst r, snd r)
            end
  end.
Fixpoint p_ints (n : nat) (ts : list str) : option (list Z * list str) :=
  match n with
  | O => Some ([], ts)
  | S n' => match ts with
            | [] => None
            | t :: ts' => x <- p_int t ;; r <- p_ints n' ts' ;; Some (x :: fst r, snd r)
            end
  end.
Fixpoint p_pairs (n : nat) (ts : list str) : option (list (str * str) * list str) :=
  match n with
  | O => Some ([], ts)
  | S n' => match ts with
            | k :: v :: ts' => a <- p_str k ;; b <- p_str v ;; r <- p_pairs n' ts' ;;
                               Some ((a, b) :: fst r, snd r)
            | _ => None
            end
  end.
Fixpoint p_msgs (n : nat) (ts : list str) : option (list raw_msg * list str) :=
  match n with
  | O => Some ([], ts)
  | S n' => match ts with
            | d :: na :: ts' =>
                data <- p_str d ;; k <- p_nat na ;; at_ <- p_pairs (N.to_nat k) ts' ;;
                r <- p_msgs n' (snd at_) ;; Some ((data, fst at_) :: fst r, snd r)
            | _ => None
            end
  end.

Definition counted_strs (ts : list str) : option (list str * list str) :=
  match ts with
  | n :: ts' => k <- p_nat n ;; p_strs (N.to_nat k) ts'
  | [] => None
  end.
Definition counted_ints (ts : list str) : option (list Z * list str) :=
  match ts with
  | n :: ts' => k <- p_nat n ;; p_ints (N.to_nat k) ts'
  | [] => None
  end.

Definition is_kw (s : string) (t : str) : bool := str_eqb (kw s) t.

Definition parse_op (ts : list str) : option req :=
  match ts with
  | [] => None
  | op :: args =>
      if is_kw "CT" op then match args with [n] => x <- p_str n ;; Some (RCreateTopic x) | _ => None end
      else if is_kw "GT" op then match args with [n] => x <- p_str n ;; Some (RGetTopic x) | _ => None end
      else if is_kw "DT" op then match args with [n] => x <- p_str n ;; Some (RDeleteTopic x) | _ => None end
      else if is_kw "LT" op then
        match args with [p; sz; tk] => a <- p_str p ;; b <- p_int sz ;; c <- p_str tk ;; Some (RListTopics a b c) | _ => None end
      else if is_kw "LTS" op then
        match args with [p; sz; tk] => a <- p_str p ;; b <- p_int sz ;; c <- p_str tk ;; Some (RListTopicSubs a b c) | _ => None end
      else if is_kw "LS" op then
        match args with [p; sz; tk] => a <- p_str p ;; b <- p_int sz ;; c <- p_str tk ;; Some (RListSubs a b c) | _ => None end
      else if is_kw "CS" op then
        match args with
        | [n; t; dl; ep] =>
            a <- p_str n ;; b <- p_str t ;; c <- p_int dl ;;
            if str_eqb ep [126] then Some (RCreateSub a b c None)
            else e <- p_str ep ;; Some (RCreateSub a b c (Some e))
        | _ => None end
      else if is_kw "GS" op then match args with [n] => x <- p_str n ;; Some (RGetSub x) | _ => None end
      else if is_kw "DS" op then match args with [n] => x <- p_str n ;; Some (RDeleteSub x) | _ => None end
      else if is_kw "PUB" op then
        match args with
        | t :: k :: rest => a <- p_str t ;; n <- p_nat k ;; m <- p_msgs (N.to_nat n) rest ;;
                            match snd m with [] => Some (RPublish a (fst m)) | _ => None end
        | _ => None end
      else if is_kw "PUBN" op then
        match args with
        | [t; k; d] => a <- p_str t ;; n <- p_nat k ;; x <- p_str d ;;
                       Some (RPublish a (repeat (x, []) (N.to_nat n)))
        | _ => None end
      else if is_kw "PULL" op then
        match args with [s; m; ri] => a <- p_str s ;; b <- p_int m ;; c <- p_nat ri ;;
                                      Some (RPull a b (negb (N.eqb c 0))) | _ => None end
      else if is_kw "ACK" op then
        match args with s :: rest => a <- p_str s ;; l <- counted_strs rest ;;
                                     match snd l with [] => Some (RAck a (fst l)) | _ => None end
                   | _ => None end
      else if is_kw "MOD" op then
        match args with s :: sc :: rest => a <- p_str s ;; b <- p_int sc ;; l <- counted_strs rest ;;
                                           match snd l with [] => Some (RModify a b (fst l)) | _ => None end
                   | _ => None end
      else if is_kw "ADV" op then match args with [d] => x <- p_nat d ;; Some (RAdvance x) | _ => None end
      else if is_kw "STATS" op then match args with [n] => x <- p_str n ;; Some (RStats x) | _ => None end
      else if is_kw "REG" op then match args with [] => Some RReg | _ => None end
      else if is_kw "SO" op then
        match args with [sid; s; mm; mb; _] => a <- p_nat sid ;; b <- p_str s ;; c <- p_int mm ;; d <- p_int mb ;;
                                               Some (RStreamOpen a b c d) | _ => None end
      else if is_kw "SS" op then
        match args with
        | sid :: s :: mm :: mb :: rest =>
            a <- p_nat sid ;; b <- p_str s ;; c <- p_int mm ;; d <- p_int mb ;;
            l1 <- counted_strs rest ;; l2 <- counted_strs (snd l1) ;; l3 <- counted_ints (snd l2) ;;
            match snd l3 with [] => Some (RStreamSend a b c d (fst l1) (fst l2) (fst l3)) | _ => None end
        | _ => None end
      else if is_kw "SC" op then match args with [sid] => a <- p_nat sid ;; Some (RStreamClose a) | _ => None end
      else if is_kw "SR" op then match args with [sid] => a <- p_nat sid ;; Some (RStreamRead a) | _ => None end
      else if is_kw "JOIN" op then match args with [id] => a <- p_nat id ;; Some (RJoin a) | _ => None end
      else None
  end.

(* ---------- rendering ---------- *)
Definition sp : N := 32.
Fixpoint join_sp (l : list str) : str :=
  match l with
  | [] => []
  | [x] => x
  | x :: l' => x ++ sp :: join_sp l'
  end.

Definition r_num (n : N) : str := dec_of_N n.
Definition r_str (s : str) : str := hex_field s.
Definition r_pushcfg (p : option str) : str := match p with None => [126] | Some e => hex_field e end.

(* dense rank of a publish-time token by first appearance *)
Fixpoint rank_of (pt : N) (seen : list N) (i : N) : option N :=
  match seen with
  | [] => None
  | x :: seen' => if N.eqb x pt then Some i else rank_of pt seen' (i + 1)
  end.

Definition r_msg (seen : list N) (l : lease) : list str * list N :=
  let m := l_msg l in
  let (rk, seen') := match rank_of (m_pt m) seen 0 with
                     | Some i => (i, seen)
                     | None => (len_N seen, seen ++ [m_pt m])
                     end in
  ([r_str (dec_of_N (l_ack l)); r_str (dec_of_N (m_id m)); r_str (m_data m); r_num (len_N (m_attrs m))]
     ++ flat_map (fun kv => [r_str (fst kv); r_str (snd kv)]) (m_attrs m)
     ++ [r_num rk; r_num 0], seen').

Fixpoint r_msgs (seen : list N) (ls : list lease) : list str * list N :=
  match ls with
  | [] => ([], seen)
  | l :: ls' => let (a, s1) := r_msg seen l in let (b, s2) := r_msgs s1 ls' in (a ++ b, s2)
  end.

Fixpoint r_batches (seen : list N) (bs : list (list lease)) : list str * list N :=
  match bs with
  | [] => ([], seen)
  | b :: bs' => let (a, s1) := r_msgs seen b in
                let (r, s2) := r_batches s1 bs' in
                (r_num (len_N b) :: a ++ r, s2)
  end.

Definition r_subres (r : subres) : list str :=
  [r_str (r_name r); r_str (r_topic r); r_num (r_ackdl r); r_pushcfg (r_push r)].

Definition op_name (r : req) : str :=
  match r with
  | RCreateTopic _ => kw "CT" | RGetTopic _ => kw "GT" | RDeleteTopic _ => kw "DT"
  | RListTopics _ _ _ => kw "LT" | RListTopicSubs _ _ _ => kw "LTS"
  | RCreateSub _ _ _ _ => kw "CS" | RGetSub _ => kw "GS" | RDeleteSub _ => kw "DS"
  | RListSubs _ _ _ => kw "LS" | RPublish _ _ => kw "PUB" | RPull _ _ _ => kw "PULL"
  | RAck _ _ => kw "ACK" | RModify _ _ _ => kw "MOD" | RAdvance _ => kw "ADV"
  | RStats _ => kw "STATS" | RReg => kw "REG" | RStreamOpen _ _ _ _ => kw "SO"
  | RStreamSend _ _ _ _ _ _ _ => kw "SS" | RStreamClose _ => kw "SC" | RStreamRead _ => kw "SR"
  | RPullBg _ _ _ => kw "BG" | RJoin _ => kw "PULL" | RPushSub _ _ => kw "ROUND"
  end.

Definition render (seen : list N) (r : req) (p : resp) : str * list N :=
  let nm := op_name r in
  match p with
  | PErr c => (join_sp [nm; r_num c], seen)
  | POk => (join_sp [nm; r_num 0], seen)
  | PTopic n => (join_sp [nm; r_num 0; r_str n], seen)
  | PNames ns tok => (join_sp ([nm; r_num 0; r_num (len_N ns)] ++ map r_str ns ++ [r_str tok]), seen)
  | PSub sr => (join_sp ([nm; r_num 0] ++ r_subres sr), seen)
  | PSubs l tok => (join_sp ([nm; r_num 0; r_num (len_N l)] ++ flat_map r_subres l ++ [r_str tok]), seen)
  | PIds ids => (join_sp ([nm; r_num 0; r_num (len_N ids)] ++ map (fun i => r_str (dec_of_N i)) ids), seen)
  | PMsgs ls => let (a, s') := r_msgs seen ls in
                (join_sp ([nm; r_num 0; r_num (len_N ls)] ++ a), s')
  | PStats o b t => (join_sp [nm; r_num 0; r_num o; r_num b; r_str t], seen)
  | PReg l => (join_sp ([nm; r_num (len_N l)] ++ flat_map (fun e => [r_str (fst e); r_str (snd e)]) l), seen)
  | PStream bs term =>
      let (a, s') := r_batches seen bs in
      (join_sp ([nm; r_num (len_N bs)] ++ a ++ [match term with None => [45] | Some c => r_num c end]), s')
  | PPending => ([45], seen)
  | PPushed _ => (nm, seen)
  | PJoined (inl c) => (join_sp [nm; r_num c], seen)
  | PJoined (inr ls) => let (a, s') := r_msgs seen ls in
                        (join_sp ([nm; r_num 0; r_num (len_N ls)] ++ a), s')
  | PNone => (nm, seen)
  end.

(* ---------- cases ---------- *)
Definition nl : N := 10.

(* Ack-id references in case files: a token "@k" stands for the k-th most
   recently delivered ack id of the case (k = 0 the last one), "^k" for the
   k-th delivered, both modulo the number delivered so far; with nothing
   delivered yet they stand for "0".  Delivered = appeared in a PULL or SR
   result, in output order. *)
Definition nth_mod (acks : list str) (k : N) (from_end : bool) : str :=
  match acks with
  | [] => [48]
  | _ => let n := len_N acks in
         let i := k mod n in
         nth (N.to_nat (if from_end then n - 1 - i else i)) acks [48]
  end.

Definition resolve_tok (acks : list str) (t : str) : str :=
  match t with
  | 64 :: r => match digits_value r 0 with
               | Some k => hex_field (nth_mod acks k true) | None => t end
  | 94 :: r => match digits_value r 0 with
               | Some k => hex_field (nth_mod acks k false) | None => t end
  | _ => t
  end.

Definition resp_acks (p : resp) : list str :=
  match p with
  | PMsgs ls => map (fun l => dec_of_N (l_ack l)) ls
  | PStream bs _ => flat_map (map (fun l => dec_of_N (l_ack l))) bs
  | PJoined (inr ls) => map (fun l => dec_of_N (l_ack l)) ls
  | _ => []
  end.

(* Runs the op lines of one case; an unparsable line renders as "?" and stops
   nothing (it is a harness/generator bug, never a property of the server). *)
(* Background calls.  "BG <id> PULL <sub> <max> 0" is a Pull without
   return_immediately that is left running (the model parks it); any other
   "BG <id> <op>" completes by the next quiescent point, so the model runs it at
   once and keeps its result line for "JOIN <id>".  "Q" (quiesce) and
   "YIELD <k>" are scheduling directives of the harness and change nothing here. *)
Definition is_blocking_pull (ts : list str) : option (str * str) :=
  match ts with
  | [op; s; m; ri] => if is_kw "PULL" op && str_eqb ri [48] then Some (s, m) else None
  | _ => None
  end.

(* token lists split at a separator token *)
Fixpoint split_on_tok (sep : str) (ts : list str) : list (list str) :=
  match ts with
  | [] => [[]]
  | t :: ts' =>
      if str_eqb t sep then [] :: split_on_tok sep ts'
      else match split_on_tok sep ts' with
           | [] => [[t]]
           | w :: ws => (t :: w) :: ws
           end
  end.

Fixpoint intersperse (sep : str) (l : list str) : list str :=
  match l with
  | [] => []
  | [x] => [x]
  | x :: l' => x :: sep :: intersperse sep l'
  end.

(* ---------- push mode ---------- *)
Definition ep_prefix : str := Eval vm_compute in bytes_of_string "http://ep/e"%string.
Definition refused_ep : str := Eval vm_compute in bytes_of_string "http://refused/"%string.

Definition parse_outcome (t : str) : option outcome :=
  if is_kw "reset" t then Some OReset
  else if is_kw "hang" t then Some OHang
  else match p_nat t with Some c => Some (OStatus c) | None => None end.

Definition r_outcome (o : outcome) : str :=
  match o with OStatus c => r_num c | OReset => kw "reset" | OHang => kw "hang" | ORefused => kw "refused" end.

(* endpoint index of a registered endpoint string: "http://ep/e<k>" *)
Definition ep_index (e : str) : option N :=
  match strip_prefix ep_prefix e with
  | Some [d] => if is_digit d then Some (d - 48) else None
  | _ => None
  end.

Definition ep_script (eps : list (N * list outcome)) (k : N) : list outcome :=
  match alookup N.eqb k eps with Some l => l | None => [] end.
Definition ep_set (eps : list (N * list outcome)) (k : N) (l : list outcome) : list (N * list outcome) :=
  (k, l) :: aremove N.eqb k eps.

Definition r_post (k : N) (subname : str) (p : lease * outcome) : list str :=
  let m := l_msg (fst p) in
  [r_num k; r_str subname; r_str (dec_of_N (m_id m)); r_num 1; r_str (m_data m); r_num (len_N (m_attrs m))]
    ++ flat_map (fun kv => [r_str (fst kv); r_str (snd kv)]) (m_attrs m) ++ [r_outcome (snd p)].

(* One round over the registry (sorted by name): -> new state, scripts, the POSTs in order, did anything hang *)
Fixpoint push_round (sv : server) (eps : list (N * list outcome)) (entries : list (name * str))
  : server * list (N * list outcome) * list (N * str * (lease * outcome)) * bool :=
  match entries with
  | [] => (sv, eps, [], false)
  | (sn, e) :: rest =>
      let '(script, k) := match ep_index e with
                          | Some k => (ep_script eps k, Some k)
                          | None => (repeat ORefused 1000, None)
                          end in
      let (sv1, p) := api_step sv (RPushSub sn script) in
      let posts := match p with PPushed l => l | _ => [] end in
      let eps1 := match k with Some k' => ep_set eps k' (skipn (length posts) script) | None => eps end in
      let hung := existsb (fun x => match snd x with OHang => true | _ => false end) posts in
      let '(sv2, eps2, more, h2) := push_round sv1 eps1 rest in
      let mine := match k with
                  | Some k' => map (fun x => (k', show_sub_name sn, x)) posts
                  | None => []      (* refused: nothing reaches an endpoint *)
                  end in
      (sv2, eps2, mine ++ more, hung || h2)
  end.

Fixpoint push_rounds (n : nat) (sv : server) (eps : list (N * list outcome))
  : server * list (N * list outcome) * list (N * str * (lease * outcome)) :=
  match n with
  | O => (sv, eps, [])
  | S n' =>
      let '(sv1, eps1, posts, _) :=
        push_round sv eps (isort (fun a b => str_ltb (show_sub_name (fst a)) (show_sub_name (fst b))) (sv_reg sv)) in
      let '(sv2, eps2, more) := push_rounds n' sv1 eps1 in
      (sv2, eps2, posts ++ more)
  end.

Fixpoint dedup_sorted (l : list N) : list N :=
  match l with
  | a :: ((b :: _) as r) => if N.eqb a b then dedup_sorted r else a :: dedup_sorted r
  | _ => l
  end.

Definition sorted_registry (sv : server) : list (name * str) :=
  isort (fun a b => str_ltb (show_sub_name (fst a)) (show_sub_name (fst b))) (sv_reg sv).

Definition run_seq_parts (sv : server) (seen : list N) (acks : list str) (args : list str)
  : server * list N * list str * str :=
  let parts := split_on_tok [59; 59] args in
  let '(sv', seen', acks', outs) :=
    fold_left (fun (acc : server * list N * list str * list str) part =>
                 let '(s0, sn0, ak0, o0) := acc in
                 match parse_op part with
                 | None => (s0, sn0, ak0, o0 ++ [[63]])
                 | Some r =>
                     let (s1, p) := api_step s0 r in
                     let (line, sn1) := render sn0 r p in
                     (s1, sn1, ak0 ++ resp_acks p, o0 ++ [line])
                 end) parts (sv, seen, acks, []) in
  (sv', seen', acks', join_sp (kw "SEQ" :: intersperse [59; 59] outs)).

Fixpoint run_lines (sv : server) (seen : list N) (acks : list str) (bg : list (N * str)) (eps : list (N * list outcome))
                   (lines : list (list str)) : list str :=
  match lines with
  | [] => []
  | ts :: rest =>
      let ts := map (resolve_tok acks) ts in
      match ts with
      | [] => run_lines sv seen acks bg eps rest
      | op :: args =>
          if is_kw "SEED" op then kw "SEED" :: run_lines sv seen acks bg eps rest
          else if is_kw "Q" op then kw "Q" :: run_lines sv seen acks bg eps rest
          else if is_kw "YIELD" op then kw "YIELD" :: run_lines sv seen acks bg eps rest
          else if is_kw "SEQ" op then
            (* "SEQ <op> ;; <op> ..." : the ops one after the other, reported on one line *)
            let '(sv', seen', acks', line) := run_seq_parts sv seen acks args in
            line :: run_lines sv' seen' acks' bg eps rest
          else if is_kw "MODE" op then kw "MODE" :: run_lines sv seen acks bg eps rest
          else if is_kw "EP" op then
            match args with
            | kt :: _ :: outs =>
                match p_nat kt, parse_all parse_outcome outs with
                | Some k, Some l => kw "EP" :: run_lines sv seen acks bg (ep_set eps k (ep_script eps k ++ l)) rest
                | _, _ => [63] :: run_lines sv seen acks bg eps rest
                end
            | _ => [63] :: run_lines sv seen acks bg eps rest
            end
          else if is_kw "ROUND" op then
            let '(sv1, eps1, posts, hung) := push_round sv eps (sorted_registry sv) in
            (* a pass that hangs is abandoned by the harness after 20 s of real time *)
            let sv2 := if hung then fst (api_step sv1 (RAdvance (20 * ns_per_s))) else sv1 in
            join_sp ([kw "ROUND"; r_num (len_N posts)]
                       ++ flat_map (fun x => r_post (fst (fst x)) (snd (fst x)) (snd x)) posts)
              :: run_lines sv2 seen acks bg eps1 rest
          else if is_kw "LOOP" op then
            (* the real loop, left running for <rounds> intervals: rounds+1 passes (at 0, 1, .., rounds intervals);
               reported per subscription: number of POSTs and the set of distinct message ids *)
            let n := match args with [_; r] => match p_nat r with Some k => S (N.to_nat k) | None => 1%nat end
                                | _ => 1%nat end in
            let '(sv1, eps1, posts) := push_rounds n sv eps in
            let subs := map (fun e => show_sub_name (fst e)) (sorted_registry sv) in
            let per s := filter (fun x => str_eqb (snd (fst x)) s) posts in
            let groups := filter (fun s => negb (is_nil (per s))) subs in
            join_sp ([kw "LOOP"; r_num (len_N groups)]
                       ++ flat_map (fun s =>
                            let ids := dedup_sorted (isort N.ltb (map (fun x => m_id (l_msg (fst (snd x)))) (per s))) in
                            [r_str s; r_num (len_N (per s)); r_num (len_N ids)]
                              ++ map (fun i => r_str (dec_of_N i)) ids) groups)
              :: run_lines sv1 seen acks bg eps1 rest
          else if is_kw "BG" op then
            match args with
            | idt :: inner =>
                match p_nat idt with
                | None => [63] :: run_lines sv seen acks bg eps rest
                | Some id =>
                    match is_blocking_pull inner with
                    | Some (s, m) =>
                        match p_str s, p_int m with
                        | Some s', Some m' =>
                            let (sv', _) := api_step sv (RPullBg id s' m') in
                            kw "BG" :: run_lines sv' seen acks bg eps rest
                        | _, _ => [63] :: run_lines sv seen acks bg eps rest
                        end
                    | None =>
                        if match inner with t0 :: _ => is_kw "SEQ" t0 | [] => false end then
                          let '(sv', seen', acks', line) := run_seq_parts sv seen acks (tl inner) in
                          kw "BG" :: run_lines sv' seen' acks' ((id, line) :: bg) eps rest
                        else
                        match parse_op inner with
                        | None => [63] :: run_lines sv seen acks bg eps rest
                        | Some r =>
                            let (sv', p) := api_step sv r in
                            let (line, seen') := render seen r p in
                            kw "BG" :: run_lines sv' seen' (acks ++ resp_acks p) ((id, line) :: bg) eps rest
                        end
                    end
                end
            | [] => [63] :: run_lines sv seen acks bg eps rest
            end
          else if is_kw "JOIN" op then
            match args with
            | [idt] =>
                match p_nat idt with
                | None => [63] :: run_lines sv seen acks bg eps rest
                | Some id =>
                    match alookup N.eqb id bg with
                    | Some line => join_sp [kw "JOIN"; r_num id; line] :: run_lines sv seen acks (aremove N.eqb id bg) eps rest
                    | None =>
                        let (sv', p) := api_step sv (RJoin id) in
                        let (line, seen') := render seen (RJoin id) p in
                        join_sp [kw "JOIN"; r_num id; line] :: run_lines sv' seen' (acks ++ resp_acks p) bg eps rest
                    end
                end
            | _ => [63] :: run_lines sv seen acks bg eps rest
            end
          else
            match parse_op ts with
            | None => [63] :: run_lines sv seen acks bg eps rest
            | Some r =>
                let (sv', p) := api_step sv r in
                let (line, seen') := render seen r p in
                line :: run_lines sv' seen' (acks ++ resp_acks p) bg eps rest
            end
      end
  end.

Definition tokens (line : str) : list str := filter (fun t => negb (is_nil t)) (split_on sp line).

(* Splits a file into cases: (header line, op lines). *)
Fixpoint cases_of (lines : list str) (cur : option (str * list str)) : list (str * list str) :=
  match lines with
  | [] => match cur with Some c => [(fst c, rev (snd c))] | None => [] end
  | l :: rest =>
      match tokens l with
      | [] => cases_of rest cur
      | t :: _ =>
          if is_kw "CASE" t then
            (match cur with Some c => [(fst c, rev (snd c))] | None => [] end)
              ++ cases_of rest (Some (l, []))
          else if is_kw "END" t then
            (match cur with Some c => [(fst c, rev (snd c))] | None => [] end)
              ++ cases_of rest None
          else match cur with
               | Some c => cases_of rest (Some (fst c, l :: snd c))
               | None => cases_of rest None
               end
      end
  end.

Definition run_case (c : str * list str) : list str :=
  fst c :: run_lines init_server [] [] [] [] (map tokens (snd c)) ++ [kw "END"].

Fixpoint join_nl (l : list str) : str :=
  match l with
  | [] => []
  | x :: l' => x ++ nl :: join_nl l'
  end.

Definition run_file (text : str) : str :=
  join_nl (flat_map run_case (cases_of (split_on nl text) None)).
