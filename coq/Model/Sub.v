(* The subscription actor: backlog, OutstandingMessageTracker, ack-id counter.
   One function per actor turn (one mailbox request or one expiry batch). *)
From Deltio Require Export Model.Base Model.Names Model.Time Model.Codec.

Record msg := { m_id : N; m_data : str; m_attrs : list (str * str); m_pt : N }.

(* A PulledMessage. *)
Record lease := { l_ack : N; l_dl : N; l_msg : msg }.

(* ---------- OutstandingMessageTracker ---------- *)
(* messages : HashMap<AckId, PulledMessage>  -> association list, insertion order
   expirations : BTreeSet<(AckDeadline, AckId)> -> ascending list of keys *)
Definition ekey := (N * N)%type.

Definition key_ltb (a b : ekey) : bool :=
  N.ltb (fst a) (fst b) || (N.eqb (fst a) (fst b) && N.ltb (snd a) (snd b)).
Definition key_eqb (a b : ekey) : bool := N.eqb (fst a) (fst b) && N.eqb (snd a) (snd b).

Fixpoint set_insert (k : ekey) (l : list ekey) : list ekey :=
  match l with
  | [] => [k]
  | k' :: l' =>
      if key_ltb k k' then k :: l
      else if key_eqb k k' then l
      else k' :: set_insert k l'
  end.

Fixpoint set_remove (k : ekey) (l : list ekey) : list ekey :=
  match l with
  | [] => []
  | k' :: l' => if key_eqb k k' then l' else k' :: set_remove k l'
  end.

Record tracker := { tr_msgs : list (N * lease); tr_exp : list ekey }.

Definition tr_empty : tracker := {| tr_msgs := []; tr_exp := [] |}.

Definition lease_key (l : lease) : ekey := (l_dl l, l_ack l).

(* HashMap::insert *)
Definition map_insert (k : N) (v : lease) (m : list (N * lease)) : list (N * lease) :=
  if amem N.eqb k m then aupdate N.eqb k v m else m ++ [(k, v)].

Definition tr_add (l : lease) (t : tracker) : tracker :=
  {| tr_msgs := map_insert (l_ack l) l (tr_msgs t);
     tr_exp := set_insert (lease_key l) (tr_exp t) |}.

(* remove(ack_ids): unknown ids fall through. *)
Definition tr_remove1 (t : tracker) (a : N) : tracker :=
  match alookup N.eqb a (tr_msgs t) with
  | Some l => {| tr_msgs := aremove N.eqb a (tr_msgs t);
                 tr_exp := set_remove (lease_key l) (tr_exp t) |}
  | None => t
  end.
Definition tr_remove (ids : list N) (t : tracker) : tracker := fold_left tr_remove1 ids t.

(* modify: (ack, Some new_deadline) re-keys the lease, (ack, None) nacks it.
   Returns the tracker and the nacked leases in request order. *)
Definition tr_modify1 (acc : tracker * list lease) (m : N * option N) : tracker * list lease :=
  let (t, nacked) := acc in
  let (a, nd) := m in
  match alookup N.eqb a (tr_msgs t) with
  | None => acc
  | Some l =>
      let exp' := set_remove (lease_key l) (tr_exp t) in
      match nd with
      | Some d =>
          let l' := {| l_ack := l_ack l; l_dl := d; l_msg := l_msg l |} in
          ({| tr_msgs := aupdate N.eqb a l' (tr_msgs t);
              tr_exp := set_insert (lease_key l') exp' |}, nacked)
      | None =>
          ({| tr_msgs := aremove N.eqb a (tr_msgs t); tr_exp := exp' |}, nacked ++ [l])
      end
  end.
Definition tr_modify (mods : list (N * option N)) (t : tracker) : tracker * list lease :=
  fold_left tr_modify1 mods (t, []).

(* take_expired(now): pops keys while deadline <= now; the map lookup is the
   `unwrap_unchecked`: None here is undefined behaviour in the Rust. *)
Fixpoint take_expired (now : N) (exp : list ekey) (msgs : list (N * lease))
  : option (list lease * list ekey * list (N * lease)) :=
  match exp with
  | [] => Some ([], [], msgs)
  | (d, a) :: exp' =>
      if N.ltb now d then Some ([], exp, msgs)
      else match alookup N.eqb a msgs with
           | None => None
           | Some l =>
               match take_expired now exp' (aremove N.eqb a msgs) with
               | Some (r, e, m) => Some (l :: r, e, m)
               | None => None
               end
           end
  end.

(* ---------- the actor state ---------- *)
Record sub := {
  s_name : name;
  s_uid : N;                 (* internal id, orders listings *)
  s_topic : N;               (* internal id of the topic *instance* it was created on *)
  s_ackdl : N;               (* seconds *)
  s_push : option str;       (* push endpoint *)
  s_backlog : list msg;
  s_tr : tracker;
  s_next_ack : N;
  s_deleted : bool }.

Definition set_backlog_tr (s : sub) (b : list msg) (t : tracker) (na : N) : sub :=
  {| s_name := s_name s; s_uid := s_uid s; s_topic := s_topic s; s_ackdl := s_ackdl s;
     s_push := s_push s; s_backlog := b; s_tr := t; s_next_ack := na;
     s_deleted := s_deleted s |}.

Definition sub_new (n : name) (uid topic ackdl : N) (push : option str) : sub :=
  {| s_name := n; s_uid := uid; s_topic := topic; s_ackdl := ackdl; s_push := push;
     s_backlog := []; s_tr := tr_empty; s_next_ack := 1; s_deleted := false |}.

(* PostMessages *)
Definition sub_post (ms : list msg) (s : sub) : sub :=
  if s_deleted s then s else set_backlog_tr s (s_backlog s ++ ms) (s_tr s) (s_next_ack s).

(* PullMessages{max_count} at [now]: hands out pull_count messages from the
   front of the backlog with consecutive fresh ack ids and one common deadline. *)
Fixpoint lease_out (dl : N) (na : N) (ms : list msg) (t : tracker) : list lease * tracker * N :=
  match ms with
  | [] => ([], t, na)
  | m :: ms' =>
      let l := {| l_ack := na; l_dl := dl; l_msg := m |} in
      let '(ls, t', na') := lease_out dl (na + 1) ms' (tr_add l t) in
      (l :: ls, t', na')
  end.

Definition sub_pull (max_count : N) (now : N) (s : sub) : sub * list lease :=
  if s_deleted s then (s, []) else
  let k := pull_count max_count (len_N (s_backlog s)) in
  let dl := round_deadline (now + s_ackdl s * ns_per_s) in
  let '(ls, t', na') := lease_out dl (s_next_ack s) (take_N k (s_backlog s)) (s_tr s) in
  (set_backlog_tr s (skip_N k (s_backlog s)) t' na', ls).

(* AcknowledgeMessages *)
Definition sub_ack (ids : list N) (s : sub) : sub :=
  if s_deleted s then s else set_backlog_tr s (s_backlog s) (tr_remove ids (s_tr s)) (s_next_ack s).

(* ModifyDeadline *)
Definition sub_modify (mods : list (N * option N)) (s : sub) : sub :=
  if s_deleted s then s else
  let (t', nacked) := tr_modify mods (s_tr s) in
  set_backlog_tr s (s_backlog s ++ map l_msg nacked) t' (s_next_ack s).

(* handle_expired_messages(take_expired(now)) *)
Definition sub_expire (now : N) (s : sub) : sub :=
  match take_expired now (tr_exp (s_tr s)) (tr_msgs (s_tr s)) with
  | Some (ls, e, m) =>
      set_backlog_tr s (s_backlog s ++ map l_msg ls) {| tr_msgs := m; tr_exp := e |} (s_next_ack s)
  | None => s   (* unreachable: Proofs/SubInv.v, take_expired_defined *)
  end.

Definition sub_outstanding (s : sub) : N := len_N (tr_msgs (s_tr s)).
Definition sub_backlog_len (s : sub) : N := len_N (s_backlog s).

(* Delete (the actor-local part): mark, clear. *)
Definition sub_mark_deleted (s : sub) : sub :=
  {| s_name := s_name s; s_uid := s_uid s; s_topic := s_topic s; s_ackdl := s_ackdl s;
     s_push := s_push s; s_backlog := []; s_tr := tr_empty; s_next_ack := s_next_ack s;
     s_deleted := true |}.
