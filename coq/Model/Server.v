(* The whole server, one API call = one atomic step, followed by the internal
   work the real server does until it is quiescent again (expiry timers that
   have fired, open StreamingPull loops draining what became available).  *)
From Coq Require Import String.
From Deltio Require Export Model.Base Model.Names Model.Time Model.Codec Model.Paging Model.Sub.

(* gRPC status codes *)
Definition INVALID_ARGUMENT : N := 3.
Definition NOT_FOUND : N := 5.
Definition ALREADY_EXISTS : N := 6.
Definition FAILED_PRECONDITION : N := 9.

Definition deleted_topic_str : str := Eval vm_compute in bytes_of_string "_deleted_topic_"%string.
Definition deleted_topic_name : name := ([], deleted_topic_str).
Definition http_str : str := Eval vm_compute in bytes_of_string "http"%string.

Record topic := {
  t_name : name;
  t_uid : N;
  t_subs : list (name * N);     (* attached subscriptions: name -> subscription uid *)
  t_next_msg : N }.

(* An open StreamingPull: its pull loop as an eager consumer of one subscription. *)
Record stream := {
  st_id : N;
  st_sub : N;                      (* subscription uid *)
  st_subname : name;
  st_max : N;                      (* max_count of its pulls *)
  st_pending : list (list lease);  (* responses produced, not yet read by the client *)
  st_term : option N;              (* terminal status once the response stream ended *)
  st_reqopen : bool }.             (* the client has not closed the request side *)            (* terminal status once the response stream ended *)

(* A consumer waiting on a subscription's `Notify`: the pull loop of an open
   stream, or a Pull without return_immediately (with its 300 s limit). *)
Inductive consumer :=
| CStream (sid : N)
| CPull (opid : N) (max : N) (limit : N).

(* Streams, the waiting consumers in parking order (oldest first, as tokio's
   Notify wakes them), and the results of background calls that completed. *)
Record cons := {
  c_streams : list stream;
  c_waiters : list (N * consumer);      (* subscription uid, consumer *)
  c_done : list (N * (N + list lease)) }. (* op id -> error code or messages *)

Record server := {
  sv_now : N;
  sv_topics : list topic;  sv_tnext : N;
  sv_subs : list sub;      sv_snext : N;
  sv_reg : list (name * str);
  sv_ptnext : N;
  sv_cons : cons }.

Definition sv_streams (sv : server) : list stream := c_streams (sv_cons sv).

Definition init_server : server :=
  {| sv_now := 0; sv_topics := []; sv_tnext := 1; sv_subs := []; sv_snext := 1;
     sv_reg := []; sv_ptnext := 0;
     sv_cons := {| c_streams := []; c_waiters := []; c_done := [] |} |}.

(* ---------- lookups ---------- *)
Fixpoint find_topic (n : name) (ts : list topic) : option topic :=
  match ts with
  | [] => None
  | t :: ts' => if name_eqb n (t_name t) then Some t else find_topic n ts'
  end.
Fixpoint topic_by_uid (u : N) (ts : list topic) : option topic :=
  match ts with
  | [] => None
  | t :: ts' => if N.eqb u (t_uid t) then Some t else topic_by_uid u ts'
  end.
Fixpoint find_sub (n : name) (ss : list sub) : option sub :=
  match ss with
  | [] => None
  | s :: ss' => if name_eqb n (s_name s) then Some s else find_sub n ss'
  end.
Fixpoint sub_by_uid (u : N) (ss : list sub) : option sub :=
  match ss with
  | [] => None
  | s :: ss' => if N.eqb u (s_uid s) then Some s else sub_by_uid u ss'
  end.

Definition upd_sub (u : N) (f : sub -> sub) (ss : list sub) : list sub :=
  map (fun s => if N.eqb u (s_uid s) then f s else s) ss.
Definition upd_topic (u : N) (f : topic -> topic) (ts : list topic) : list topic :=
  map (fun t => if N.eqb u (t_uid t) then f t else t) ts.
Definition del_sub (u : N) (ss : list sub) : list sub :=
  filter (fun s => negb (N.eqb u (s_uid s))) ss.
Definition del_topic (u : N) (ts : list topic) : list topic :=
  filter (fun t => negb (N.eqb u (t_uid t))) ts.

Definition with_subs (sv : server) (ss : list sub) : server :=
  {| sv_now := sv_now sv; sv_topics := sv_topics sv; sv_tnext := sv_tnext sv; sv_subs := ss;
     sv_snext := sv_snext sv; sv_reg := sv_reg sv; sv_ptnext := sv_ptnext sv;
     sv_cons := sv_cons sv |}.
Definition with_cons (sv : server) (c : cons) : server :=
  {| sv_now := sv_now sv; sv_topics := sv_topics sv; sv_tnext := sv_tnext sv; sv_subs := sv_subs sv;
     sv_snext := sv_snext sv; sv_reg := sv_reg sv; sv_ptnext := sv_ptnext sv;
     sv_cons := c |}.
Definition set_streams (c : cons) (st : list stream) : cons :=
  {| c_streams := st; c_waiters := c_waiters c; c_done := c_done c |}.
Definition with_streams (sv : server) (st : list stream) : server :=
  with_cons sv (set_streams (sv_cons sv) st).
Definition with_topics (sv : server) (ts : list topic) : server :=
  {| sv_now := sv_now sv; sv_topics := ts; sv_tnext := sv_tnext sv; sv_subs := sv_subs sv;
     sv_snext := sv_snext sv; sv_reg := sv_reg sv; sv_ptnext := sv_ptnext sv;
     sv_cons := sv_cons sv |}.

(* ---------- requests and responses ---------- *)
Definition raw_msg := (str * list (str * str))%type.

(* What the push endpoint does with one POST: answers with a status, or fails
   (connection refused / reset / no answer: reqwest reports an error). *)
Inductive outcome :=
| OStatus (c : N)   (* the endpoint answered with this status *)
| OReset            (* the connection was closed without an answer *)
| ORefused          (* nothing listens at the endpoint *)
| OHang.            (* no answer at all: the dispatch stays pending *)

Definition accepted (o : outcome) : bool :=
  match o with
  | OStatus c => existsb (N.eqb c) [102; 200; 201; 202; 204]
  | _ => false
  end.

Inductive req :=
| RCreateTopic (n : str)
| RGetTopic (n : str)
| RDeleteTopic (n : str)
| RListTopics (project : str) (size : Z) (tok : str)
| RListTopicSubs (topic : str) (size : Z) (tok : str)
| RCreateSub (n topic : str) (ackdl : Z) (push : option str)
| RGetSub (n : str)
| RDeleteSub (n : str)
| RListSubs (project : str) (size : Z) (tok : str)
| RPublish (topic : str) (msgs : list raw_msg)
| RPull (sub : str) (max : Z) (ri : bool)
| RAck (sub : str) (ids : list str)
| RModify (sub : str) (secs : Z) (ids : list str)
| RAdvance (ns : N)
| RStats (sub : str)
| RReg
| RStreamOpen (sid : N) (sub : str) (maxmsgs maxbytes : Z)
| RStreamSend (sid : N) (sub : str) (maxmsgs maxbytes : Z) (acks modids : list str) (secs : list Z)
| RStreamClose (sid : N)
| RStreamRead (sid : N)
| RPullBg (opid : N) (sub : str) (max : Z)     (* a Pull without return_immediately, left running *)
| RJoin (opid : N)                             (* the result of a background Pull, if it completed *)
| RPushSub (sub : name) (script : list outcome). (* one push pass over one registered subscription *)

(* A subscription resource as returned by Create/Get/List. *)
Record subres := { r_name : str; r_topic : str; r_ackdl : N; r_push : option str }.

Inductive resp :=
| PErr (code : N)
| POk
| PTopic (n : str)
| PNames (names : list str) (tok : str)
| PSub (r : subres)
| PSubs (l : list subres) (tok : str)
| PIds (ids : list N)
| PMsgs (l : list lease)
| PStats (outstanding backlog : N) (topic : str)
| PReg (l : list (str * str))
| PStream (resps : list (list lease)) (term : option N)
| PPending
| PJoined (r : N + list lease)   (* outcome of a background Pull: error code or messages *)
| PPushed (posts : list (lease * outcome))   (* the POSTs of one pass and what the endpoint did *)
| PNone.

(* ---------- internal work until quiescence ---------- *)

(* The expiry timer of a subscription has fired by [now] iff the earliest key's
   tick is <= now. *)
Definition timer_fired (now : N) (s : sub) : bool :=
  match tr_exp (s_tr s) with
  | (d, _) :: _ => N.leb (tick_of d) now
  | [] => false
  end.

(* The oldest consumer waiting on subscription [u], and the queue without it. *)
Fixpoint first_waiter (u : N) (ws : list (N * consumer)) : option (consumer * list (N * consumer)) :=
  match ws with
  | [] => None
  | (v, c) :: ws' =>
      if N.eqb u v then Some (c, ws')
      else match first_waiter u ws' with
           | Some (c', r) => Some (c', (v, c) :: r)
           | None => None
           end
  end.

Definition stream_push (sid : N) (rs : list (list lease)) (sts : list stream) : list stream :=
  map (fun st => if N.eqb sid (st_id st)
                 then {| st_id := st_id st; st_sub := st_sub st; st_subname := st_subname st;
                         st_max := st_max st; st_pending := st_pending st ++ rs;
                         st_term := st_term st; st_reqopen := st_reqopen st |}
                 else st) sts.

Definition stream_terminate (p : stream -> bool) (code : N) (sts : list stream) : list stream :=
  map (fun st => match st_term st with
                 | None => if p st
                           then {| st_id := st_id st; st_sub := st_sub st; st_subname := st_subname st;
                                   st_max := st_max st; st_pending := st_pending st;
                                   st_term := Some code; st_reqopen := st_reqopen st |}
                           else st
                 | Some _ => st
                 end) sts.

Definition find_stream (sid : N) (sts : list stream) : option stream :=
  find (fun st => N.eqb sid (st_id st)) sts.

(* While the backlog is non-empty and somebody waits: notify_one wakes the
   oldest waiter, which pulls; a stream loop yields its batch and parks again
   (at the back), a blocked Pull returns.  Every round hands out at least one
   message or discards a dangling waiter, so the fuel suffices. *)
Fixpoint serve (fuel : nat) (now : N) (s : sub) (c : cons) : sub * cons :=
  match fuel with
  | O => (s, c)
  | S f =>
      match s_backlog s with
      | [] => (s, c)
      | _ :: _ =>
          match first_waiter (s_uid s) (c_waiters c) with
          | None => (s, c)
          | Some (CStream sid, rest) =>
              match find_stream sid (c_streams c) with
              | Some st =>
                  serve f now (fst (sub_pull (st_max st) now s))
                        {| c_streams := stream_push sid [snd (sub_pull (st_max st) now s)] (c_streams c);
                           c_waiters := rest ++ [(s_uid s, CStream sid)];
                           c_done := c_done c |}
              | None => serve f now s {| c_streams := c_streams c; c_waiters := rest; c_done := c_done c |}
              end
          | Some (CPull id max limit, rest) =>
              serve f now (fst (sub_pull max now s))
                    {| c_streams := c_streams c; c_waiters := rest;
                       c_done := c_done c ++ [(id, inr (snd (sub_pull max now s)))] |}
          end
      end
  end.

(* One subscription settles.  Its actor runs if a request touched it, if its
   expiry timer fired, or if a consumer is waiting while the backlog is not
   empty (a stream that has just been opened); when it runs, every overdue lease
   is requeued (take_expired), and then the waiting consumers are served. *)
Definition has_waiter (u : N) (c : cons) : bool :=
  match first_waiter u (c_waiters c) with Some _ => true | None => false end.

Definition actor_runs (now : N) (touched : bool) (c : cons) (s : sub) : bool :=
  touched || timer_fired now s || (negb (is_nil (s_backlog s)) && has_waiter (s_uid s) c).

Definition settle_sub (now : N) (touched : bool) (c : cons) (s : sub) : sub * cons :=
  let s1 := if actor_runs now touched c s then sub_expire now s else s in
  serve (length (s_backlog s1) + length (c_waiters c)) now s1 c.

Fixpoint settle_subs (now : N) (touched : N -> bool) (ss : list sub) (c : cons) : list sub * cons :=
  match ss with
  | [] => ([], c)
  | s :: ss' =>
      let (s', c1) := settle_sub now (touched (s_uid s)) c s in
      let (r, c2) := settle_subs now touched ss' c1 in
      (s' :: r, c2)
  end.

(* Blocked Pulls whose 300 s limit has passed answer with no messages. *)
Definition expire_pulls (now : N) (c : cons) : cons :=
  {| c_streams := c_streams c;
     c_waiters := filter (fun w => match snd w with
                                   | CPull _ _ limit => N.ltb now limit
                                   | CStream _ => true end) (c_waiters c);
     c_done := c_done c ++
               flat_map (fun w => match snd w with
                                  | CPull id _ limit => if N.ltb now limit then [] else [(id, inr [])]
                                  | CStream _ => [] end) (c_waiters c) |}.

Definition settle (touched : N -> bool) (sv : server) : server :=
  let (ss, c) := settle_subs (sv_now sv) touched (sv_subs sv) (sv_cons sv) in
  with_cons (with_subs sv ss) (expire_pulls (sv_now sv) c).

(* ---------- handlers ---------- *)
Definition topic_display (sv : server) (s : sub) : str :=
  match topic_by_uid (s_topic s) (sv_topics sv) with
  | Some t => show_topic_name (t_name t)
  | None => deleted_topic_str
  end.

Definition sub_resource (sv : server) (s : sub) : subres :=
  {| r_name := show_sub_name (s_name s); r_topic := topic_display sv s;
     r_ackdl := s_ackdl s; r_push := s_push s |}.

Definition uid_ltb_sub (a b : sub) : bool := N.ltb (s_uid a) (s_uid b).
Definition uid_ltb_topic (a b : topic) : bool := N.ltb (t_uid a) (t_uid b).
Definition snd_ltb (a b : name * N) : bool := N.ltb (snd a) (snd b).

(* trim() of the push endpoint: ASCII/Unicode whitespace at both ends.  Only
   the ASCII white space characters are modelled (the generators use no other). *)
Definition is_space (c : N) : bool :=
  N.eqb c 32 || (N.leb 9 c && N.leb c 13).
Fixpoint trim_start (s : str) : str :=
  match s with
  | c :: s' => if is_space c then trim_start s' else s
  | [] => []
  end.
Definition trim (s : str) : str := rev (trim_start (rev (trim_start s))).

(* parse_push_config: None = INVALID_ARGUMENT *)
Definition parse_push (p : option str) : option (option str) :=
  match p with
  | None => Some None
  | Some e => let e' := trim e in if starts_with http_str e' then Some (Some e') else None
  end.

Definition no_touch : N -> bool := fun _ => false.
Definition touch1 (u : N) : N -> bool := fun v => N.eqb u v.
Definition touch_list (l : list N) : N -> bool := fun v => existsb (N.eqb v) l.

Fixpoint parse_all {A B} (f : A -> option B) (l : list A) : option (list B) :=
  match l with
  | [] => Some []
  | x :: l' => match f x, parse_all f l' with
               | Some y, Some r => Some (y :: r)
               | _, _ => None
               end
  end.

(* parse_deadline_modifications: zip(ack_ids, seconds); per pair the ack id is
   parsed first, then the seconds. *)
Fixpoint parse_mods (now : N) (ids : list str) (secs : list Z) : option (list (N * option N)) :=
  match ids, secs with
  | i :: ids', sc :: secs' =>
      match parse_u64 i with
      | None => None
      | Some a =>
          match parse_ext sc with
          | ExtErr => None
          | ExtNack => match parse_mods now ids' secs' with
                       | Some r => Some ((a, None) :: r) | None => None end
          | ExtSecs n => match parse_mods now ids' secs' with
                         | Some r => Some ((a, Some (round_deadline (now + n * ns_per_s))) :: r)
                         | None => None end
          end
      end
  | _, _ => Some []
  end.

Definition mk_msgs (tid : N) (ctr : N) (pt : N) (raws : list raw_msg) : list msg :=
  (fix go (c : N) (l : list raw_msg) : list msg :=
     match l with
     | [] => []
     | (d, a) :: l' =>
         {| m_id := message_id tid (c + 1); m_data := d;
            m_attrs := isort (fun x y => str_ltb (fst x) (fst y)) a; m_pt := pt |} :: go (c + 1) l'
     end) ctr raws.

Definition set_topic_subs (t : topic) (l : list (name * N)) : topic :=
  {| t_name := t_name t; t_uid := t_uid t; t_subs := l; t_next_msg := t_next_msg t |}.
Definition set_topic_next (t : topic) (n : N) : topic :=
  {| t_name := t_name t; t_uid := t_uid t; t_subs := t_subs t; t_next_msg := n |}.

Definition attached (n : name) (l : list (name * N)) : bool := amem name_eqb n l.

(* DeleteSubscription: every stream open on it ends with NOT_FOUND, every Pull
   blocked on it returns an error status (NOT_FOUND from the deletion branch or
   FAILED_PRECONDITION from a closed mailbox, whichever the runtime picks:
   recorded as NOT_FOUND, compared as "an error"). *)
Definition release_consumers (u : N) (c : cons) : cons :=
  {| c_streams := stream_terminate (fun st => N.eqb (st_sub st) u) NOT_FOUND (c_streams c);
     c_waiters := filter (fun w => negb (N.eqb (fst w) u)) (c_waiters c);
     c_done := c_done c ++
               flat_map (fun w => if N.eqb (fst w) u
                                  then match snd w with
                                       | CPull id _ _ => [(id, inl NOT_FOUND)]
                                       | CStream _ => [] end
                                  else []) (c_waiters c) |}.

(* A stream that ended no longer waits. *)
Definition unpark_stream (sid : N) (c : cons) : cons :=
  {| c_streams := c_streams c;
     c_waiters := filter (fun w => match snd w with
                                   | CStream x => negb (N.eqb x sid) | CPull _ _ _ => true end) (c_waiters c);
     c_done := c_done c |}.

Definition park (u : N) (k : consumer) (c : cons) : cons :=
  {| c_streams := c_streams c; c_waiters := c_waiters c ++ [(u, k)]; c_done := c_done c |}.

Definition pull_limit_ns : N := 300 * ns_per_s.

(* post_messages notifies even when the batch is empty: the oldest waiter wakes,
   finds nothing and parks again, now behind the others. *)
Definition rotate_waiter (c : cons) (u : N) : cons :=
  match first_waiter u (c_waiters c) with
  | Some (k, rest) => {| c_streams := c_streams c; c_waiters := rest ++ [(u, k)]; c_done := c_done c |}
  | None => c
  end.

(* The unsettled effect of one request: new state, response, touched actors. *)
Definition handle (sv : server) (r : req) : server * resp * (N -> bool) :=
  let now := sv_now sv in
  match r with
  | RCreateTopic n =>
      match parse_topic_name n with
      | None => (sv, PErr INVALID_ARGUMENT, no_touch)
      | Some tn =>
          match find_topic tn (sv_topics sv) with
          | Some _ => (sv, PErr ALREADY_EXISTS, no_touch)
          | None =>
              let uid := sv_tnext sv + 1 in
              let t := {| t_name := tn; t_uid := uid; t_subs := []; t_next_msg := 0 |} in
              ({| sv_now := now; sv_topics := sv_topics sv ++ [t]; sv_tnext := uid;
                  sv_subs := sv_subs sv; sv_snext := sv_snext sv; sv_reg := sv_reg sv;
                  sv_ptnext := sv_ptnext sv; sv_cons := sv_cons sv |},
               PTopic (show_topic_name tn), no_touch)
          end
      end
  | RGetTopic n =>
      match parse_topic_name n with
      | None => (sv, PErr INVALID_ARGUMENT, no_touch)
      | Some tn =>
          match find_topic tn (sv_topics sv) with
          | None => (sv, PErr NOT_FOUND, no_touch)
          | Some t => (sv, PTopic (show_topic_name (t_name t)), no_touch)
          end
      end
  | RDeleteTopic n =>
      match parse_topic_name n with
      | None => (sv, PErr INVALID_ARGUMENT, no_touch)
      | Some tn =>
          match find_topic tn (sv_topics sv) with
          | None => (sv, PErr NOT_FOUND, no_touch)
          | Some t => (with_topics sv (del_topic (t_uid t) (sv_topics sv)), POk, no_touch)
          end
      end
  | RListTopics project size tok =>
      match parse_paging size tok with
      | None => (sv, PErr INVALID_ARGUMENT, no_touch)
      | Some pg =>
          match parse_project project with
          | None => (sv, PErr INVALID_ARGUMENT, no_touch)
          | Some p =>
              let all := isort uid_ltb_topic
                           (filter (fun t => str_eqb (fst (t_name t)) p) (sv_topics sv)) in
              let (items, next) := page_of pg all in
              (sv, PNames (map (fun t => show_topic_name (t_name t)) items) (next_token next), no_touch)
          end
      end
  | RListTopicSubs n size tok =>
      match parse_topic_name n with
      | None => (sv, PErr INVALID_ARGUMENT, no_touch)
      | Some tn =>
          match parse_paging size tok with
          | None => (sv, PErr INVALID_ARGUMENT, no_touch)
          | Some pg =>
              match find_topic tn (sv_topics sv) with
              | None => (sv, PErr NOT_FOUND, no_touch)
              | Some t =>
                  let all := isort snd_ltb (t_subs t) in
                  let (items, next) := page_of pg all in
                  (sv, PNames (map (fun e => show_sub_name (fst e)) items) (next_token next), no_touch)
              end
          end
      end
  | RCreateSub n topic ackdl push =>
      match parse_topic_name topic with
      | None => (sv, PErr INVALID_ARGUMENT, no_touch)
      | Some tn =>
      match parse_sub_name n with
      | None => (sv, PErr INVALID_ARGUMENT, no_touch)
      | Some sn =>
      match parse_push push with
      | None => (sv, PErr INVALID_ARGUMENT, no_touch)
      | Some pcfg =>
      match find_topic tn (sv_topics sv) with
      | None => (sv, PErr NOT_FOUND, no_touch)
      | Some t =>
          if negb (str_eqb (fst tn) (fst sn)) then (sv, PErr INVALID_ARGUMENT, no_touch) else
          match find_sub sn (sv_subs sv) with
          | Some _ => (sv, PErr ALREADY_EXISTS, no_touch)
          | None =>
              let uid := sv_snext sv + 1 in
              let s := sub_new sn uid (t_uid t) (effective_ackdl ackdl) pcfg in
              let reg' := match pcfg with
                          | Some e => if amem name_eqb sn (sv_reg sv) then sv_reg sv
                                      else sv_reg sv ++ [(sn, e)]
                          | None => sv_reg sv
                          end in
              let ts' := upd_topic (t_uid t)
                           (fun t0 => if attached sn (t_subs t0) then t0
                                      else set_topic_subs t0 (t_subs t0 ++ [(sn, uid)]))
                           (sv_topics sv) in
              let sv' := {| sv_now := now; sv_topics := ts'; sv_tnext := sv_tnext sv;
                            sv_subs := sv_subs sv ++ [s]; sv_snext := uid; sv_reg := reg';
                            sv_ptnext := sv_ptnext sv; sv_cons := sv_cons sv |} in
              (sv', PSub (sub_resource sv' s), touch1 uid)
          end
      end end end end
  | RGetSub n =>
      match parse_sub_name n with
      | None => (sv, PErr INVALID_ARGUMENT, no_touch)
      | Some sn =>
          match find_sub sn (sv_subs sv) with
          | None => (sv, PErr NOT_FOUND, no_touch)
          | Some s => (sv, PSub (sub_resource sv s), touch1 (s_uid s))
          end
      end
  | RDeleteSub n =>
      match parse_sub_name n with
      | None => (sv, PErr INVALID_ARGUMENT, no_touch)
      | Some sn =>
          match find_sub sn (sv_subs sv) with
          | None => (sv, PErr NOT_FOUND, no_touch)
          | Some s =>
              let ts' := upd_topic (s_topic s)
                           (fun t0 => set_topic_subs t0 (aremove name_eqb sn (t_subs t0)))
                           (sv_topics sv) in
              ({| sv_now := now; sv_topics := ts'; sv_tnext := sv_tnext sv;
                  sv_subs := del_sub (s_uid s) (sv_subs sv); sv_snext := sv_snext sv;
                  sv_reg := aremove name_eqb sn (sv_reg sv); sv_ptnext := sv_ptnext sv;
                  sv_cons := release_consumers (s_uid s) (sv_cons sv) |},
               POk, no_touch)
          end
      end
  | RListSubs project size tok =>
      match parse_paging size tok with
      | None => (sv, PErr INVALID_ARGUMENT, no_touch)
      | Some pg =>
          match parse_project project with
          | None => (sv, PErr INVALID_ARGUMENT, no_touch)
          | Some p =>
              let all := isort uid_ltb_sub
                           (filter (fun s => str_eqb (fst (s_name s)) p) (sv_subs sv)) in
              let (items, next) := page_of pg all in
              (sv, PSubs (map (sub_resource sv) items) (next_token next),
               touch_list (map s_uid items))
          end
      end
  | RPublish n raws =>
      match parse_topic_name n with
      | None => (sv, PErr INVALID_ARGUMENT, no_touch)
      | Some tn =>
          match find_topic tn (sv_topics sv) with
          | None => (sv, PErr NOT_FOUND, no_touch)
          | Some t =>
              let ms := mk_msgs (t_uid t) (t_next_msg t) (sv_ptnext sv) raws in
              let targets := map snd (t_subs t) in
              let ss' := map (fun s => if existsb (N.eqb (s_uid s)) targets then sub_post ms s else s)
                             (sv_subs sv) in
              ({| sv_now := now;
                  sv_topics := upd_topic (t_uid t)
                                 (fun t0 => set_topic_next t0 (t_next_msg t0 + len_N raws))
                                 (sv_topics sv);
                  sv_tnext := sv_tnext sv; sv_subs := ss'; sv_snext := sv_snext sv;
                  sv_reg := sv_reg sv; sv_ptnext := sv_ptnext sv + 1;
                  sv_cons := if is_nil raws then fold_left rotate_waiter targets (sv_cons sv)
                             else sv_cons sv |},
               PIds (map m_id ms), touch_list targets)
          end
      end
  | RPull n max ri =>
      match parse_sub_name n with
      | None => (sv, PErr INVALID_ARGUMENT, no_touch)
      | Some sn =>
          match find_sub sn (sv_subs sv) with
          | None => (sv, PErr NOT_FOUND, no_touch)
          | Some s =>
              (with_subs sv (upd_sub (s_uid s) (fun s0 => fst (sub_pull (as_u16 max) now s0)) (sv_subs sv)),
               PMsgs (snd (sub_pull (as_u16 max) now s)), touch1 (s_uid s))
          end
      end
  | RAck n ids =>
      match parse_all parse_u64 ids with
      | None => (sv, PErr INVALID_ARGUMENT, no_touch)
      | Some acks =>
          match parse_sub_name n with
          | None => (sv, PErr INVALID_ARGUMENT, no_touch)
          | Some sn =>
              match find_sub sn (sv_subs sv) with
              | None => (sv, PErr NOT_FOUND, no_touch)
              | Some s =>
                  (with_subs sv (upd_sub (s_uid s) (sub_ack acks) (sv_subs sv)), POk, touch1 (s_uid s))
              end
          end
      end
  | RModify n secs ids =>
      match parse_mods now ids (map (fun _ => secs) ids) with
      | None => (sv, PErr INVALID_ARGUMENT, no_touch)
      | Some mods =>
          match parse_sub_name n with
          | None => (sv, PErr INVALID_ARGUMENT, no_touch)
          | Some sn =>
              match find_sub sn (sv_subs sv) with
              | None => (sv, PErr NOT_FOUND, no_touch)
              | Some s =>
                  (with_subs sv (upd_sub (s_uid s) (sub_modify mods) (sv_subs sv)), POk,
                   touch1 (s_uid s))
              end
          end
      end
  | RAdvance d =>
      ({| sv_now := now + d; sv_topics := sv_topics sv; sv_tnext := sv_tnext sv;
          sv_subs := sv_subs sv; sv_snext := sv_snext sv; sv_reg := sv_reg sv;
          sv_ptnext := sv_ptnext sv; sv_cons := sv_cons sv |}, PNone, no_touch)
  | RStats n =>
      match parse_sub_name n with
      | None => (sv, PErr INVALID_ARGUMENT, no_touch)
      | Some sn =>
          match find_sub sn (sv_subs sv) with
          | None => (sv, PErr NOT_FOUND, no_touch)
          | Some s =>
              (sv, PStats (sub_outstanding s) (sub_backlog_len s)
                     (match topic_by_uid (s_topic s) (sv_topics sv) with
                      | Some t => show_topic_name (t_name t)
                      | None => show_topic_name deleted_topic_name
                      end), touch1 (s_uid s))
          end
      end
  | RReg =>
      (sv, PReg (map (fun e => (show_sub_name (fst e), snd e))
                     (isort (fun a b => str_ltb (show_sub_name (fst a)) (show_sub_name (fst b)))
                            (sv_reg sv))), no_touch)
  | RStreamOpen sid n maxmsgs maxbytes =>
      match parse_sub_name n with
      | None => (sv, PErr INVALID_ARGUMENT, no_touch)
      | Some sn =>
          match find_sub sn (sv_subs sv) with
          | None => (sv, PErr NOT_FOUND, no_touch)
          | Some s =>
              match try_u16 maxmsgs with
              | None => (sv, PErr INVALID_ARGUMENT, no_touch)
              | Some mx =>
                  let st := {| st_id := sid; st_sub := s_uid s; st_subname := sn; st_max := mx;
                               st_pending := []; st_term := None; st_reqopen := true |} in
                  (with_cons sv (park (s_uid s) (CStream sid) (set_streams (sv_cons sv) (sv_streams sv ++ [st]))),
                   POk, touch1 (s_uid s))
              end
          end
      end
  | RStreamSend sid n maxmsgs maxbytes acks modids secs =>
      match find (fun st => N.eqb sid (st_id st)) (sv_streams sv) with
      | None => (sv, PNone, no_touch)
      | Some st =>
          match st_term st with
          | Some _ => (sv, PNone, no_touch)
          | None =>
              if negb (st_reqopen st) then (sv, PNone, no_touch) else
              let fail code :=
                (with_cons sv (unpark_stream sid
                                 (set_streams (sv_cons sv)
                                    (stream_terminate (fun x => N.eqb sid (st_id x)) code (sv_streams sv)))),
                 PNone, no_touch) in
              if negb (is_nil n) then fail INVALID_ARGUMENT
              else if Z.ltb 0 maxbytes then fail INVALID_ARGUMENT
              else if Z.ltb 0 maxmsgs then fail INVALID_ARGUMENT
              else if negb (Nat.eqb (length secs) (length modids)) then fail INVALID_ARGUMENT
              else
                match parse_all parse_u64 acks with
                | None => fail INVALID_ARGUMENT
                | Some aids =>
                    match parse_mods now modids secs with
                    | None => fail INVALID_ARGUMENT
                    | Some mods =>
                        (with_subs sv (upd_sub (st_sub st)
                                         (fun s => sub_modify mods (sub_ack aids s)) (sv_subs sv)),
                         PNone, touch1 (st_sub st))
                    end
                end
          end
      end
  | RStreamClose sid =>
      (with_streams sv
         (map (fun x => if N.eqb sid (st_id x)
                        then {| st_id := st_id x; st_sub := st_sub x; st_subname := st_subname x;
                                st_max := st_max x; st_pending := st_pending x; st_term := st_term x;
                                st_reqopen := false |}
                        else x) (sv_streams sv)), PNone, no_touch)
  | RStreamRead sid =>
      match find (fun st => N.eqb sid (st_id st)) (sv_streams sv) with
      | None => (sv, PStream [] None, no_touch)
      | Some st =>
          (with_streams sv
             (map (fun x => if N.eqb sid (st_id x)
                            then {| st_id := st_id x; st_sub := st_sub x; st_subname := st_subname x;
                                    st_max := st_max x; st_pending := []; st_term := st_term x;
                                    st_reqopen := st_reqopen x |}
                            else x) (sv_streams sv)),
           PStream (st_pending st) (st_term st), no_touch)
      end
  | RPullBg opid n max =>
      let finish r := (with_cons sv {| c_streams := sv_streams sv; c_waiters := c_waiters (sv_cons sv);
                                       c_done := c_done (sv_cons sv) ++ [(opid, r)] |}, PNone, no_touch) in
      match parse_sub_name n with
      | None => finish (inl INVALID_ARGUMENT)
      | Some sn =>
          match find_sub sn (sv_subs sv) with
          | None => finish (inl NOT_FOUND)
          | Some s =>
              (with_cons sv (park (s_uid s) (CPull opid (as_u16 max) (now + pull_limit_ns)) (sv_cons sv)),
               PNone, touch1 (s_uid s))
          end
      end
  | RPushSub sn script =>
      (* pull_and_dispatch_messages: pull up to 1000, POST each message, ack on an accepted status,
         otherwise nack (the message is back in the queue at once, for the next pass) *)
      match find_sub sn (sv_subs sv) with
      | None => (sv, PPushed [], no_touch)
      | Some s =>
          let ls := snd (sub_pull 1000 now s) in
          let posts := combine ls (script ++ repeat (OStatus 200) (length ls)) in
          let settle_one (x : sub) (p : lease * outcome) :=
            match snd p with
            | OHang => x            (* neither acked nor nacked: the lease runs to its deadline *)
            | o => if accepted o then sub_ack [l_ack (fst p)] x else sub_modify [(l_ack (fst p), None)] x
            end in
          (with_subs sv (upd_sub (s_uid s)
                           (fun s0 => fold_left settle_one
                                        (combine (snd (sub_pull 1000 now s0))
                                                 (script ++ repeat (OStatus 200) (length (snd (sub_pull 1000 now s0)))))
                                        (fst (sub_pull 1000 now s0)))
                           (sv_subs sv)),
           PPushed posts, touch1 (s_uid s))
      end
  | RJoin opid =>
      match alookup N.eqb opid (c_done (sv_cons sv)) with
      | None => (sv, PPending, no_touch)
      | Some r =>
          (with_cons sv {| c_streams := sv_streams sv; c_waiters := c_waiters (sv_cons sv);
                           c_done := aremove N.eqb opid (c_done (sv_cons sv)) |},
           PJoined r, no_touch)
      end
  end.

(* One API step: the request, then quiescence. *)
Definition api_step (sv : server) (r : req) : server * resp :=
  let '(sv1, p, touched) := handle sv r in
  (settle touched sv1, p).

Definition run (rs : list req) : server * list resp :=
  fold_left (fun (acc : server * list resp) r =>
               let (sv, out) := acc in
               let (sv', p) := api_step sv r in (sv', out ++ [p]))
            rs (init_server, []).
