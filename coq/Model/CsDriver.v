(* Text front end of the concurrent subscription model (Model/ConcSub.v) at the
   granularity at which the harness can schedule the real code
   (docs/FORMAT-cs.md): consumers are the server's own unary Pull handler
   futures, held and polled by the harness; one poll = the consumer's
   micro-steps until it blocks; the actor runs (to quiescence) only when the
   harness lets the runtime run.  The same case files run on the
   implementation through `harness seqdiff`.

   Definitions only.  Names of Model.ConcSub are written qualified (Model.Driver
   re-exports Model.Server). *)
From Coq Require Import String.
From Deltio Require Import Model.Base Model.ConcSub Model.Driver.

(* the code after fix fd73b54; the mailbox capacity of the code *)
Definition cs_ho : bool := true.
Definition cs_K : nat := 16.

Record cs_state := mkCs {
  cs_st : ConcSub.state;
  cs_ids : list (N * nat)        (* harness id of a held handler -> consumer index *)
}.

Definition cs_init : cs_state := mkCs ConcSub.init [].

Fixpoint cs_lookup (id : N) (l : list (N * nat)) : option nat :=
  match l with
  | [] => None
  | (k, c) :: r => if N.eqb k id then Some c else cs_lookup id r
  end.

(* one poll of the handler future: its micro-steps on the messages branch until
   it blocks; then, if the subscription is deleted and it is still there, the
   deleted branch of its select! *)
Fixpoint cs_poll_steps (fuel : nat) (s : ConcSub.state) (c : nat) : ConcSub.state :=
  match fuel with
  | O => s
  | S f => match ConcSub.cons_step cs_ho cs_K s c with
           | Some s' => cs_poll_steps f s' c
           | None => s
           end
  end.

(* one poll of a StreamingPull response stream: it returns as soon as a batch is
   yielded (the consumer's message count grows), otherwise when it blocks *)
Definition cs_got (s : ConcSub.state) (c : nat) : nat :=
  match ConcSub.get s c with Some cs => ConcSub.cgot cs | None => 0 end.

Fixpoint cs_poll_stream_steps (fuel : nat) (s : ConcSub.state) (c : nat) : ConcSub.state :=
  match fuel with
  | O => s
  | S f => match ConcSub.cons_step cs_ho cs_K s c with
           | Some s' => if Nat.ltb (cs_got s c) (cs_got s' c) then s' else cs_poll_stream_steps f s' c
           | None => s
           end
  end.

Definition cs_is_stream (s : ConcSub.state) (c : nat) : bool :=
  match ConcSub.get s c with
  | Some cs => match ConcSub.ckind cs with ConcSub.Stream => true | ConcSub.Unary => false end
  | None => false
  end.

Definition cs_poll_stream (s : ConcSub.state) (c : nat) : ConcSub.state :=
  let s1 := cs_poll_stream_steps 40 s c in
  if Nat.ltb (cs_got s c) (cs_got s1 c) then s1
  else match ConcSub.del_exit cs_ho s1 c with
       | Some s2 => s2
       | None => s1
       end.

Definition cs_poll (s : ConcSub.state) (c : nat) : ConcSub.state :=
  let s1 := cs_poll_steps 40 s c in
  match ConcSub.del_exit cs_ho s1 c with
  | Some s2 => s2
  | None => s1
  end.

(* the runtime runs: the actor handles its whole mailbox, then ends if deleted *)
Fixpoint cs_turns (fuel : nat) (s : ConcSub.state) : ConcSub.state :=
  match fuel with
  | O => s
  | S f => match ConcSub.turn s with
           | Some s' => cs_turns f s'
           | None => s
           end
  end.

Definition cs_settle (s : ConcSub.state) : ConcSub.state :=
  let s1 := cs_turns 400 s in
  match ConcSub.actor_exit s1 with
  | Some s2 => s2
  | None => s1
  end.

(* a request that goes through the mailbox while the runtime runs *)
Definition cs_request (r : ConcSub.req) (s : ConcSub.state) : ConcSub.state :=
  let s1 := cs_settle s in
  match ConcSub.step cs_ho cs_K s1 (ConcSub.LEnq r) with
  | Some s2 => cs_settle s2
  | None => s1
  end.

Fixpoint cs_fill (n : nat) (s : ConcSub.state) : ConcSub.state :=
  match n with
  | O => s
  | S k => match ConcSub.step cs_ho cs_K s (ConcSub.LEnq (ConcSub.RAck 0)) with
           | Some s' => cs_fill k s'
           | None => s
           end
  end.

Definition cs_phase_line (s : ConcSub.state) (c : nat) : str :=
  match ConcSub.get s c with
  | None => kw "?"
  | Some cs =>
      match ConcSub.cphase cs with
      | ConcSub.PDone (ConcSub.OMessages k) => join_sp [kw "XQ"; kw "done"; kw "0"; r_num (N.of_nat k)]
      | ConcSub.PDone ConcSub.OEmpty => join_sp [kw "XQ"; kw "done"; kw "0"; kw "0"]
      | ConcSub.PDone _ => join_sp [kw "XQ"; kw "done"; kw "err"]
      | ConcSub.PGone => kw "?"
      | _ => join_sp [kw "XQ"; kw "pending"]
      end
  end.

Definition cs_bad : str := [63].

Definition cs_finished (s : ConcSub.state) (c : nat) : bool :=
  match ConcSub.get s c with
  | Some cs => negb (ConcSub.alive (ConcSub.cphase cs))
  | None => true
  end.

Fixpoint cs_forget (id : N) (l : list (N * nat)) : list (N * nat) :=
  match l with
  | [] => []
  | (k, c) :: r => if N.eqb k id then r else (k, c) :: cs_forget id r
  end.

(* one op line -> new state, result line *)
Definition cs_op (st : cs_state) (ts : list str) : cs_state * str :=
  let s := cs_st st in
  match ts with
  | [] => (st, cs_bad)
  | o :: args =>
      if is_kw "SEED" o then (st, kw "SEED")
      else if is_kw "CT" o then (st, kw "CT")
      else if is_kw "CS" o then (st, kw "CS")
      else if is_kw "XN" o then
        match args with
        | [id; _; mx] =>
            match p_nat id, p_nat mx with
            | Some i, Some m =>
                let c := length (ConcSub.conss s) in
                match ConcSub.step cs_ho cs_K s (ConcSub.LArrive ConcSub.Unary (N.to_nat m)) with
                | Some s' => (mkCs s' ((i, c) :: cs_ids st), kw "XN")
                | None => (st, cs_bad)
                end
            | _, _ => (st, cs_bad)
            end
        | _ => (st, cs_bad)
        end
      else if is_kw "XS" o then
        match args with
        | [id; _; mx] =>
            match p_nat id, p_nat mx with
            | Some i, Some m =>
                let c := length (ConcSub.conss s) in
                match ConcSub.step cs_ho cs_K s (ConcSub.LArrive ConcSub.Stream (N.to_nat m)) with
                | Some s' => (mkCs s' ((i, c) :: cs_ids st), kw "XS")
                | None => (st, cs_bad)
                end
            | _, _ => (st, cs_bad)
            end
        | _ => (st, cs_bad)
        end
      else if is_kw "XQ" o then
        match args with
        | [id] =>
            match p_nat id with
            | Some i =>
                match cs_lookup i (cs_ids st) with
                | Some c =>
                    if cs_is_stream s c then
                      let s' := cs_poll_stream s c in
                      (mkCs s' (if cs_finished s' c then cs_forget i (cs_ids st) else cs_ids st),
                       if Nat.ltb (cs_got s c) (cs_got s' c)
                       then join_sp [kw "XQ"; kw "batch"; r_num (N.of_nat (cs_got s' c - cs_got s c))]
                       else cs_phase_line s' c)
                    else
                    let s' := cs_poll s c in
                    (mkCs s' (if cs_finished s' c then cs_forget i (cs_ids st) else cs_ids st), cs_phase_line s' c)
                | None => (st, join_sp [kw "XQ"; kw "gone"])
                end
            | None => (st, cs_bad)
            end
        | _ => (st, cs_bad)
        end
      else if is_kw "XD" o then
        match args with
        | [id] =>
            match p_nat id with
            | Some i =>
                match cs_lookup i (cs_ids st) with
                | Some c =>
                    match ConcSub.cancel cs_ho s c with
                    | Some s' => (mkCs s' (cs_forget i (cs_ids st)), kw "XD")
                    | None => (st, cs_bad)
                    end
                | None => (st, join_sp [kw "XD"; kw "gone"])
                end
            | None => (st, cs_bad)
            end
        | _ => (st, cs_bad)
        end
      else if is_kw "XF" o then
        match args with
        | [_; n] =>
            match p_nat n with
            | Some k => (mkCs (cs_fill (N.to_nat k) s) (cs_ids st), kw "XF")
            | None => (st, cs_bad)
            end
        | _ => (st, cs_bad)
        end
      else if is_kw "XT" o then (mkCs (cs_settle s) (cs_ids st), kw "XT")
      else if is_kw "PUBN" o then
        match args with
        | [_; n; _] =>
            match p_nat n with
            | Some k => (mkCs (cs_request (ConcSub.RPost (N.to_nat k)) s) (cs_ids st), kw "PUB")
            | None => (st, cs_bad)
            end
        | _ => (st, cs_bad)
        end
      else if is_kw "ADV" o then
        (* the generator advances by 11 s only: every lease runs out *)
        let s1 := cs_settle s in
        let s2 := if Nat.eqb (ConcSub.leased s1) 0 then s1
                  else match ConcSub.step cs_ho cs_K s1 (ConcSub.LExpire (ConcSub.leased s1)) with
                       | Some x => x
                       | None => s1
                       end in
        (mkCs (cs_settle s2) (cs_ids st), kw "ADV")
      else if is_kw "DS" o then (mkCs (cs_request ConcSub.RDelete s) (cs_ids st), kw "DS")
      else if is_kw "STATS" o then
        let s1 := cs_settle s in
        (mkCs s1 (cs_ids st),
         if ConcSub.deleted s1 then join_sp [kw "STATS"; kw "5"]
         else join_sp [kw "STATS"; kw "0"; r_num (N.of_nat (ConcSub.leased s1)); r_num (N.of_nat (ConcSub.backlog s1))])
      else (st, cs_bad)
  end.

Fixpoint cs_lines (st : cs_state) (lines : list (list str)) : list str :=
  match lines with
  | [] => []
  | l :: r => let (st', out) := cs_op st l in out :: cs_lines st' r
  end.

Definition cs_case (c : str * list str) : list str :=
  fst c :: cs_lines cs_init (map tokens (snd c)) ++ [kw "END"].

Definition cs_file (text : str) : str :=
  join_nl (flat_map cs_case (cases_of (split_on nl text) None)).
