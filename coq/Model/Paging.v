(* `Paging`, `parse_paging` and the page/next-offset computation shared by the
   three List RPCs. *)
From Deltio Require Export Model.Base Model.Codec.

Record paging := { pg_size : N; pg_offset : option N }.

(* Paging::new *)
Definition paging_new (size : N) (offset : option N) : paging :=
  {| pg_size := if N.eqb size 0 then 20 else if N.ltb 1000 size then 1000 else size;
     pg_offset := offset |}.

Definition pg_take (p : paging) : N := N.min (pg_size p) 10000.
Definition pg_skip (p : paging) : N := match pg_offset p with Some o => o | None => 0 end.

(* parse_page_token / parse_paging: None = INVALID_ARGUMENT. *)
Definition parse_page_token (tok : str) : option (option N) :=
  match tok with
  | [] => Some None
  | _ => match token_decode tok with Some v => Some (Some v) | None => None end
  end.

Definition parse_paging (size : Z) (tok : str) : option paging :=
  match parse_page_token tok with
  | None => None
  | Some off => if Z.ltb size 0 then None else Some (paging_new (Z.to_N size) off)
  end.

(* The page and the next offset. *)
Definition page_of {A} (p : paging) (all : list A) : list A * option N :=
  let items := take_N (pg_take p) (skip_N (pg_skip p) all) in
  (items, match items with [] => None | _ => Some (pg_skip p + len_N items) end).

Definition next_token (o : option N) : str :=
  match o with Some n => token_encode n | None => [] end.
