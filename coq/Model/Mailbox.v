(* The shutdown of an actor's mailbox (C07): tokio's bounded mpsc channel at the granularity at which its senders
   and its receiver interleave on a multi-thread runtime.

   A sender first RESERVES a slot (this fails once the channel is closed) and then PUSHES its message - two steps,
   between which the receiver may act.  The receiver can end in two ways:
     Old  the receiving half is simply dropped (the code before fix f7f8d33): tokio closes the channel, pops what is
          queued, and is gone - whether or not a sender still holds a reserved slot;
     New  `close()`, then `recv()` until it returns None (the code now): tokio's recv reports the end only when the
          channel is closed, the queue is empty AND no reserved slot is outstanding.
   A message that is pushed after the receiver has gone is never received; its sender waits for an answer that
   cannot come, and (in deltio) keeps the channel alive while it waits: it hangs for ever.
   Definitions only; proofs in Proofs/MailboxP.v. *)
From Coq Require Import List Arith Bool.
Import ListNotations.

Inductive proto := Old | New.

Inductive sender :=
| SIdle                 (* has not asked for a slot yet *)
| SReserved             (* holds a slot, has not pushed yet *)
| SPushed               (* its message is in the channel (or was received) *)
| SRefused.             (* asked after the channel was closed: got the 'closed' error *)

Inductive rx :=
| RRunning              (* the actor serves its mailbox *)
| RDraining             (* the channel is closed, the receiver takes out what is in it *)
| RGone.                (* the receiver no longer exists *)

Record state := mk {
  closed : bool;
  queue : list nat;          (* sender indices, oldest first *)
  received : list nat;       (* what the receiver took out (served, or dropped with an error to the caller) *)
  senders : list sender;
  rcv : rx
}.

Definition init (n : nat) : state := mk false [] [] (repeat SIdle n) RRunning.

Definition is_reserved (x : sender) : bool := match x with SReserved => true | _ => false end.

(* reserved slots that have not been used yet *)
Definition reserved (s : state) : nat := length (filter is_reserved (senders s)).

Fixpoint set_nth (l : list sender) (i : nat) (x : sender) : list sender :=
  match l, i with
  | [], _ => []
  | _ :: r, O => x :: r
  | y :: r, S k => y :: set_nth r k x
  end.

Definition with_sender (s : state) (i : nat) (x : sender) : state :=
  mk (closed s) (queue s) (received s) (set_nth (senders s) i x) (rcv s).

Inductive label :=
| LReserve (i : nat)     (* sender i obtains a slot: channel open, room for it *)
| LRefuse (i : nat)      (* sender i asks after the close: error *)
| LPush (i : nat)        (* sender i, holding a slot, puts its message in - whatever the receiver does meanwhile *)
| LServe                 (* the running actor takes the oldest message *)
| LClose                 (* the actor ends: the channel is closed (both protocols start with this) *)
| LPop                   (* the receiver, closing down, takes out the oldest message *)
| LGone.                 (* the receiver disappears: Old - as soon as the queue is empty;
                            New - only when the queue is empty and no reserved slot is outstanding *)

Definition step (p : proto) (K : nat) (s : state) (l : label) : option state :=
  match l with
  | LReserve i =>
      match nth_error (senders s) i with
      | Some SIdle =>
          if negb (closed s) && Nat.ltb (length (queue s) + reserved s) K
          then Some (with_sender s i SReserved) else None
      | _ => None
      end
  | LRefuse i =>
      match nth_error (senders s) i with
      | Some SIdle => if closed s then Some (with_sender s i SRefused) else None
      | _ => None
      end
  | LPush i =>
      match nth_error (senders s) i with
      | Some SReserved =>
          Some (mk (closed s) (queue s ++ [i]) (received s) (set_nth (senders s) i SPushed) (rcv s))
      | _ => None
      end
  | LServe =>
      match rcv s, queue s with
      | RRunning, m :: q => Some (mk (closed s) q (received s ++ [m]) (senders s) (rcv s))
      | _, _ => None
      end
  | LClose =>
      match rcv s with
      | RRunning => Some (mk true (queue s) (received s) (senders s) RDraining)
      | _ => None
      end
  | LPop =>
      match rcv s, queue s with
      | RDraining, m :: q => Some (mk (closed s) q (received s ++ [m]) (senders s) (rcv s))
      | _, _ => None
      end
  | LGone =>
      match rcv s, queue s with
      | RDraining, [] =>
          match p with
          | Old => Some (mk (closed s) [] (received s) (senders s) RGone)
          | New => if Nat.eqb (reserved s) 0
                   then Some (mk (closed s) [] (received s) (senders s) RGone) else None
          end
      | _, _ => None
      end
  end.

Fixpoint run (p : proto) (K : nat) (s : state) (ls : list label) : option state :=
  match ls with
  | [] => Some s
  | l :: r => match step p K s l with Some s' => run p K s' r | None => None end
  end.

Definition reachable (p : proto) (K n : nat) (s : state) : Prop :=
  exists ls, run p K (init n) ls = Some s.

(* a message nobody will ever take out: the receiver is gone and the message is in the channel, or its sender
   still holds the slot it will push it into *)
Definition stranded (s : state) : Prop :=
  rcv s = RGone /\ (queue s <> [] \/ 0 < reserved s).

(* what a sender that was let in can count on *)
Definition answered (s : state) (i : nat) : Prop := In i (received s).
