(* Virtual time in nanoseconds since the process-wide EPOCH, and
   `AckDeadline::new`. *)
From Deltio Require Export Model.Base.

Definition ns_per_s : N := 1000000000.
Definition ns_per_ms : N := 1000000.

(* ceil(t / 1000): whole microseconds, rounded up (as repaired by the `fix:`
   commit for C04; the pinned tree truncated). *)
Definition us_ceil (t : N) : N := (t + 999) / 1000.

(* AckDeadline::new: m microseconds since EPOCH become m + (m mod 100 000). *)
Definition round_deadline (t : N) : N :=
  let m := us_ceil t in 1000 * (m + m mod 100000).

(* The pinned behaviour (documented defect): floor instead of ceil. *)
Definition pinned_round_deadline (t : N) : N :=
  let m := t / 1000 in 1000 * (m + m mod 100000).

(* CreateSubscription: ack_deadline_seconds <= 10 is raised to 10. *)
Definition effective_ackdl (secs : Z) : N :=
  if Z.leb secs 10 then 10 else Z.to_N secs.

(* parse_deadline_extension_duration:
     <0 error; 0 nack; >=600 capped at 600; else n. *)
Inductive ext := ExtErr | ExtNack | ExtSecs (n : N).
Definition parse_ext (secs : Z) : ext :=
  if Z.ltb secs 0 then ExtErr
  else if Z.leb 600 secs then ExtSecs 600
  else if Z.eqb secs 0 then ExtNack
  else ExtSecs (Z.to_N secs).

(* First timer tick (1 ms resolution, grid anchored at EPOCH in harness runs)
   at which a sleep_until(d) has fired. *)
Definition tick_of (d : N) : N := ns_per_ms * ((d + (ns_per_ms - 1)) / ns_per_ms).
