(* One pass of the push loop over one subscription (C14, last clause: "pushing stops when the subscription is
   deleted"), at the granularity at which the deletion can fall into it.

   src/push/push_loop.rs, pull_and_dispatch_messages: the pass pulls a page (up to 1000 messages), then hands the
   page to the endpoint message by message - each dispatch is a task of a JoinSet, the loop moves on after the answer
   or 5 ms, whichever comes first - and finally waits for the dispatches still in flight.  The subscription's
   `deleted` signal can fire between any two of these steps.  Two ways of listening to it:
     Whole     the whole pass is one future raced against the signal (the code): when the signal fires the pass is
               dropped where it stands - the rest of the page is forgotten, the JoinSet aborts what is in flight;
     PullOnly  only the pull is raced against the signal (a plausible tidy-up, seeded change C14-r7): a page that
               has been pulled is handed over to the end, deleted or not.
   Definitions only; proofs in Proofs/PushPassP.v. *)
From Coq Require Import List Arith Bool NArith.
Import ListNotations.

Inductive guard := Whole | PullOnly.

Inductive phase :=
| PPulling        (* the pull request is with the subscription *)
| PDispatching    (* the page is here; messages are being handed over *)
| PDone.          (* the pass has ended, or was dropped *)

Record state := mk {
  ph : phase;
  page : list N;               (* message ids still to hand over, in page order *)
  inflight : list N;           (* POSTed, not answered yet *)
  posts : list (N * bool);     (* every POST so far, oldest first, with: was the subscription deleted already? *)
  deleted : bool
}.

Definition init : state := mk PPulling [] [] [] false.

Inductive ev :=
| EPulled (p : list N)   (* the subscription answers the pull with this page *)
| EDispatch              (* the loop hands the next message of the page to the endpoint *)
| EAnswer (m : N)        (* the endpoint answers the POST of m (any status), or the request fails *)
| EFinish                (* page handed over, nothing in flight: the pass ends *)
| EDelete.               (* the subscription is deleted: its `deleted` signal fires *)

Fixpoint remove1 (m : N) (l : list N) : list N :=
  match l with
  | [] => []
  | x :: r => if N.eqb x m then r else x :: remove1 m r
  end.

(* None = the event is not enabled in this state *)
Definition step (g : guard) (s : state) (e : ev) : option state :=
  match e with
  | EPulled p =>
      match ph s with
      | PPulling => Some (mk PDispatching p [] (posts s) (deleted s))
      | _ => None
      end
  | EDispatch =>
      match ph s, page s with
      | PDispatching, m :: r => Some (mk PDispatching r (m :: inflight s) (posts s ++ [(m, deleted s)]) (deleted s))
      | _, _ => None
      end
  | EAnswer m =>
      match ph s with
      | PDispatching => if existsb (N.eqb m) (inflight s)
                        then Some (mk PDispatching (page s) (remove1 m (inflight s)) (posts s) (deleted s)) else None
      | _ => None
      end
  | EFinish =>
      match ph s, page s, inflight s with
      | PDispatching, [], [] => Some (mk PDone [] [] (posts s) (deleted s))
      | _, _, _ => None
      end
  | EDelete =>
      if deleted s then None else
      match ph s, g with
      | PDone, _ => Some (mk PDone [] [] (posts s) true)
      (* both variants race the pull against the signal *)
      | PPulling, _ => Some (mk PDone [] [] (posts s) true)
      (* the whole pass is raced: dropped where it stands, the JoinSet aborts the dispatches in flight *)
      | PDispatching, Whole => Some (mk PDone [] [] (posts s) true)
      (* only the pull was raced: the pass does not notice *)
      | PDispatching, PullOnly => Some (mk (ph s) (page s) (inflight s) (posts s) true)
      end
  end.

(* events that are not enabled are skipped: every list of events is a schedule *)
Fixpoint run (g : guard) (s : state) (es : list ev) : state :=
  match es with
  | [] => s
  | e :: r => run g (match step g s e with Some s' => s' | None => s end) r
  end.

(* the POSTs that were made although the subscription had been deleted *)
Definition late_posts (s : state) : list N := map fst (filter snd (posts s)).

(* the two schedules of the seeded change C14-r7 and of the push-delete stream: a page of four, the deletion after
   the second POST *)
Definition mid_page_schedule : list ev :=
  [EPulled [1; 2; 3; 4]%N; EDispatch; EDispatch; EDelete; EDispatch; EDispatch; EAnswer 1%N; EFinish].
