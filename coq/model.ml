
(** val negb : bool -> bool **)

let negb = function
| true -> false
| false -> true

type nat =
| O
| S of nat

type ('a, 'b) sum =
| Inl of 'a
| Inr of 'b

(** val fst : ('a1 * 'a2) -> 'a1 **)

let fst = function
| (x, _) -> x

(** val snd : ('a1 * 'a2) -> 'a2 **)

let snd = function
| (_, y) -> y

(** val length : 'a1 list -> nat **)

let rec length = function
| [] -> O
| _ :: l' -> S (length l')

(** val app : 'a1 list -> 'a1 list -> 'a1 list **)

let rec app l m =
  match l with
  | [] -> m
  | a :: l1 -> a :: (app l1 m)

type comparison =
| Eq
| Lt
| Gt

(** val compOpp : comparison -> comparison **)

let compOpp = function
| Eq -> Eq
| Lt -> Gt
| Gt -> Lt

module Coq__1 = struct
 (** val add : nat -> nat -> nat **)
 let rec add n0 m =
   match n0 with
   | O -> m
   | S p -> S (add p m)
end
include Coq__1

(** val sub : nat -> nat -> nat **)

let rec sub n0 m =
  match n0 with
  | O -> n0
  | S k -> (match m with
            | O -> n0
            | S l -> sub k l)

module Nat =
 struct
  (** val eqb : nat -> nat -> bool **)

  let rec eqb n0 m =
    match n0 with
    | O -> (match m with
            | O -> true
            | S _ -> false)
    | S n' -> (match m with
               | O -> false
               | S m' -> eqb n' m')

  (** val leb : nat -> nat -> bool **)

  let rec leb n0 m =
    match n0 with
    | O -> true
    | S n' -> (match m with
               | O -> false
               | S m' -> leb n' m')

  (** val ltb : nat -> nat -> bool **)

  let ltb n0 m =
    leb (S n0) m

  (** val max : nat -> nat -> nat **)

  let rec max n0 m =
    match n0 with
    | O -> m
    | S n' -> (match m with
               | O -> n0
               | S m' -> S (max n' m'))

  (** val min : nat -> nat -> nat **)

  let rec min n0 m =
    match n0 with
    | O -> O
    | S n' -> (match m with
               | O -> O
               | S m' -> S (min n' m'))

  (** val eq_dec : nat -> nat -> bool **)

  let rec eq_dec n0 m =
    match n0 with
    | O -> (match m with
            | O -> true
            | S _ -> false)
    | S n1 -> (match m with
               | O -> false
               | S n2 -> eq_dec n1 n2)
 end

type positive =
| XI of positive
| XO of positive
| XH

type n =
| N0
| Npos of positive

type z =
| Z0
| Zpos of positive
| Zneg of positive

module Pos =
 struct
  type mask =
  | IsNul
  | IsPos of positive
  | IsNeg
 end

module Coq_Pos =
 struct
  (** val succ : positive -> positive **)

  let rec succ = function
  | XI p -> XO (succ p)
  | XO p -> XI p
  | XH -> XO XH

  (** val add : positive -> positive -> positive **)

  let rec add x y =
    match x with
    | XI p ->
      (match y with
       | XI q -> XO (add_carry p q)
       | XO q -> XI (add p q)
       | XH -> XO (succ p))
    | XO p ->
      (match y with
       | XI q -> XI (add p q)
       | XO q -> XO (add p q)
       | XH -> XI p)
    | XH -> (match y with
             | XI q -> XO (succ q)
             | XO q -> XI q
             | XH -> XO XH)

  (** val add_carry : positive -> positive -> positive **)

  and add_carry x y =
    match x with
    | XI p ->
      (match y with
       | XI q -> XI (add_carry p q)
       | XO q -> XO (add_carry p q)
       | XH -> XI (succ p))
    | XO p ->
      (match y with
       | XI q -> XO (add_carry p q)
       | XO q -> XI (add p q)
       | XH -> XO (succ p))
    | XH ->
      (match y with
       | XI q -> XI (succ q)
       | XO q -> XO (succ q)
       | XH -> XI XH)

  (** val pred_double : positive -> positive **)

  let rec pred_double = function
  | XI p -> XI (XO p)
  | XO p -> XI (pred_double p)
  | XH -> XH

  type mask = Pos.mask =
  | IsNul
  | IsPos of positive
  | IsNeg

  (** val succ_double_mask : mask -> mask **)

  let succ_double_mask = function
  | IsNul -> IsPos XH
  | IsPos p -> IsPos (XI p)
  | IsNeg -> IsNeg

  (** val double_mask : mask -> mask **)

  let double_mask = function
  | IsPos p -> IsPos (XO p)
  | x0 -> x0

  (** val double_pred_mask : positive -> mask **)

  let double_pred_mask = function
  | XI p -> IsPos (XO (XO p))
  | XO p -> IsPos (XO (pred_double p))
  | XH -> IsNul

  (** val sub_mask : positive -> positive -> mask **)

  let rec sub_mask x y =
    match x with
    | XI p ->
      (match y with
       | XI q -> double_mask (sub_mask p q)
       | XO q -> succ_double_mask (sub_mask p q)
       | XH -> IsPos (XO p))
    | XO p ->
      (match y with
       | XI q -> succ_double_mask (sub_mask_carry p q)
       | XO q -> double_mask (sub_mask p q)
       | XH -> IsPos (pred_double p))
    | XH -> (match y with
             | XH -> IsNul
             | _ -> IsNeg)

  (** val sub_mask_carry : positive -> positive -> mask **)

  and sub_mask_carry x y =
    match x with
    | XI p ->
      (match y with
       | XI q -> succ_double_mask (sub_mask_carry p q)
       | XO q -> double_mask (sub_mask p q)
       | XH -> IsPos (pred_double p))
    | XO p ->
      (match y with
       | XI q -> double_mask (sub_mask_carry p q)
       | XO q -> succ_double_mask (sub_mask_carry p q)
       | XH -> double_pred_mask p)
    | XH -> IsNeg

  (** val mul : positive -> positive -> positive **)

  let rec mul x y =
    match x with
    | XI p -> add y (XO (mul p y))
    | XO p -> XO (mul p y)
    | XH -> y

  (** val iter : ('a1 -> 'a1) -> 'a1 -> positive -> 'a1 **)

  let rec iter f x = function
  | XI n' -> f (iter f (iter f x n') n')
  | XO n' -> iter f (iter f x n') n'
  | XH -> f x

  (** val pow : positive -> positive -> positive **)

  let pow x =
    iter (mul x) XH

  (** val size : positive -> positive **)

  let rec size = function
  | XI p0 -> succ (size p0)
  | XO p0 -> succ (size p0)
  | XH -> XH

  (** val compare_cont : comparison -> positive -> positive -> comparison **)

  let rec compare_cont r x y =
    match x with
    | XI p ->
      (match y with
       | XI q -> compare_cont r p q
       | XO q -> compare_cont Gt p q
       | XH -> Gt)
    | XO p ->
      (match y with
       | XI q -> compare_cont Lt p q
       | XO q -> compare_cont r p q
       | XH -> Gt)
    | XH -> (match y with
             | XH -> r
             | _ -> Lt)

  (** val compare : positive -> positive -> comparison **)

  let compare =
    compare_cont Eq

  (** val eqb : positive -> positive -> bool **)

  let rec eqb p q =
    match p with
    | XI p0 -> (match q with
                | XI q0 -> eqb p0 q0
                | _ -> false)
    | XO p0 -> (match q with
                | XO q0 -> eqb p0 q0
                | _ -> false)
    | XH -> (match q with
             | XH -> true
             | _ -> false)

  (** val coq_lor : positive -> positive -> positive **)

  let rec coq_lor p q =
    match p with
    | XI p0 ->
      (match q with
       | XI q0 -> XI (coq_lor p0 q0)
       | XO q0 -> XI (coq_lor p0 q0)
       | XH -> p)
    | XO p0 ->
      (match q with
       | XI q0 -> XI (coq_lor p0 q0)
       | XO q0 -> XO (coq_lor p0 q0)
       | XH -> XI p0)
    | XH -> (match q with
             | XO q0 -> XI q0
             | _ -> q)

  (** val shiftl : positive -> n -> positive **)

  let shiftl p = function
  | N0 -> p
  | Npos n1 -> iter (fun x -> XO x) p n1

  (** val iter_op : ('a1 -> 'a1 -> 'a1) -> positive -> 'a1 -> 'a1 **)

  let rec iter_op op p a =
    match p with
    | XI p0 -> op a (iter_op op p0 (op a a))
    | XO p0 -> iter_op op p0 (op a a)
    | XH -> a

  (** val to_nat : positive -> nat **)

  let to_nat x =
    iter_op Coq__1.add x (S O)

  (** val of_succ_nat : nat -> positive **)

  let rec of_succ_nat = function
  | O -> XH
  | S x -> succ (of_succ_nat x)
 end

module N =
 struct
  (** val succ_double : n -> n **)

  let succ_double = function
  | N0 -> Npos XH
  | Npos p -> Npos (XI p)

  (** val double : n -> n **)

  let double = function
  | N0 -> N0
  | Npos p -> Npos (XO p)

  (** val add : n -> n -> n **)

  let add n0 m =
    match n0 with
    | N0 -> m
    | Npos p -> (match m with
                 | N0 -> n0
                 | Npos q -> Npos (Coq_Pos.add p q))

  (** val sub : n -> n -> n **)

  let sub n0 m =
    match n0 with
    | N0 -> N0
    | Npos n' ->
      (match m with
       | N0 -> n0
       | Npos m' ->
         (match Coq_Pos.sub_mask n' m' with
          | Coq_Pos.IsPos p -> Npos p
          | _ -> N0))

  (** val mul : n -> n -> n **)

  let mul n0 m =
    match n0 with
    | N0 -> N0
    | Npos p -> (match m with
                 | N0 -> N0
                 | Npos q -> Npos (Coq_Pos.mul p q))

  (** val compare : n -> n -> comparison **)

  let compare n0 m =
    match n0 with
    | N0 -> (match m with
             | N0 -> Eq
             | Npos _ -> Lt)
    | Npos n' -> (match m with
                  | N0 -> Gt
                  | Npos m' -> Coq_Pos.compare n' m')

  (** val eqb : n -> n -> bool **)

  let eqb n0 m =
    match n0 with
    | N0 -> (match m with
             | N0 -> true
             | Npos _ -> false)
    | Npos p -> (match m with
                 | N0 -> false
                 | Npos q -> Coq_Pos.eqb p q)

  (** val leb : n -> n -> bool **)

  let leb x y =
    match compare x y with
    | Gt -> false
    | _ -> true

  (** val ltb : n -> n -> bool **)

  let ltb x y =
    match compare x y with
    | Lt -> true
    | _ -> false

  (** val min : n -> n -> n **)

  let min n0 n' =
    match compare n0 n' with
    | Gt -> n'
    | _ -> n0

  (** val max : n -> n -> n **)

  let max n0 n' =
    match compare n0 n' with
    | Gt -> n0
    | _ -> n'

  (** val pow : n -> n -> n **)

  let pow n0 = function
  | N0 -> Npos XH
  | Npos p0 -> (match n0 with
                | N0 -> N0
                | Npos q -> Npos (Coq_Pos.pow q p0))

  (** val size : n -> n **)

  let size = function
  | N0 -> N0
  | Npos p -> Npos (Coq_Pos.size p)

  (** val pos_div_eucl : positive -> n -> n * n **)

  let rec pos_div_eucl a b =
    match a with
    | XI a' ->
      let (q, r) = pos_div_eucl a' b in
      let r' = succ_double r in
      if leb b r' then ((succ_double q), (sub r' b)) else ((double q), r')
    | XO a' ->
      let (q, r) = pos_div_eucl a' b in
      let r' = double r in
      if leb b r' then ((succ_double q), (sub r' b)) else ((double q), r')
    | XH ->
      (match b with
       | N0 -> (N0, (Npos XH))
       | Npos p -> (match p with
                    | XH -> ((Npos XH), N0)
                    | _ -> (N0, (Npos XH))))

  (** val div_eucl : n -> n -> n * n **)

  let div_eucl a b =
    match a with
    | N0 -> (N0, N0)
    | Npos na -> (match b with
                  | N0 -> (N0, a)
                  | Npos _ -> pos_div_eucl na b)

  (** val div : n -> n -> n **)

  let div a b =
    fst (div_eucl a b)

  (** val modulo : n -> n -> n **)

  let modulo a b =
    snd (div_eucl a b)

  (** val coq_lor : n -> n -> n **)

  let coq_lor n0 m =
    match n0 with
    | N0 -> m
    | Npos p -> (match m with
                 | N0 -> n0
                 | Npos q -> Npos (Coq_Pos.coq_lor p q))

  (** val shiftl : n -> n -> n **)

  let shiftl a n0 =
    match a with
    | N0 -> N0
    | Npos a0 -> Npos (Coq_Pos.shiftl a0 n0)

  (** val to_nat : n -> nat **)

  let to_nat = function
  | N0 -> O
  | Npos p -> Coq_Pos.to_nat p

  (** val of_nat : nat -> n **)

  let of_nat = function
  | O -> N0
  | S n' -> Npos (Coq_Pos.of_succ_nat n')
 end

(** val tl : 'a1 list -> 'a1 list **)

let tl = function
| [] -> []
| _ :: m -> m

(** val nth : nat -> 'a1 list -> 'a1 -> 'a1 **)

let rec nth n0 l default =
  match n0 with
  | O -> (match l with
          | [] -> default
          | x :: _ -> x)
  | S m -> (match l with
            | [] -> default
            | _ :: t -> nth m t default)

(** val nth_error : 'a1 list -> nat -> 'a1 option **)

let rec nth_error l = function
| O -> (match l with
        | [] -> None
        | x :: _ -> Some x)
| S n1 -> (match l with
           | [] -> None
           | _ :: l0 -> nth_error l0 n1)

(** val remove : ('a1 -> 'a1 -> bool) -> 'a1 -> 'a1 list -> 'a1 list **)

let rec remove eq_dec0 x = function
| [] -> []
| y :: tl0 ->
  if eq_dec0 x y then remove eq_dec0 x tl0 else y :: (remove eq_dec0 x tl0)

(** val rev : 'a1 list -> 'a1 list **)

let rec rev = function
| [] -> []
| x :: l' -> app (rev l') (x :: [])

(** val map : ('a1 -> 'a2) -> 'a1 list -> 'a2 list **)

let rec map f = function
| [] -> []
| a :: t -> (f a) :: (map f t)

(** val flat_map : ('a1 -> 'a2 list) -> 'a1 list -> 'a2 list **)

let rec flat_map f = function
| [] -> []
| x :: t -> app (f x) (flat_map f t)

(** val fold_left : ('a1 -> 'a2 -> 'a1) -> 'a2 list -> 'a1 -> 'a1 **)

let rec fold_left f l a0 =
  match l with
  | [] -> a0
  | b :: t -> fold_left f t (f a0 b)

(** val fold_right : ('a2 -> 'a1 -> 'a1) -> 'a1 -> 'a2 list -> 'a1 **)

let rec fold_right f a0 = function
| [] -> a0
| b :: t -> f b (fold_right f a0 t)

(** val existsb : ('a1 -> bool) -> 'a1 list -> bool **)

let rec existsb f = function
| [] -> false
| a :: l0 -> (||) (f a) (existsb f l0)

(** val filter : ('a1 -> bool) -> 'a1 list -> 'a1 list **)

let rec filter f = function
| [] -> []
| x :: l0 -> if f x then x :: (filter f l0) else filter f l0

(** val find : ('a1 -> bool) -> 'a1 list -> 'a1 option **)

let rec find f = function
| [] -> None
| x :: tl0 -> if f x then Some x else find f tl0

(** val combine : 'a1 list -> 'a2 list -> ('a1 * 'a2) list **)

let rec combine l l' =
  match l with
  | [] -> []
  | x :: tl0 ->
    (match l' with
     | [] -> []
     | y :: tl' -> (x, y) :: (combine tl0 tl'))

(** val skipn : nat -> 'a1 list -> 'a1 list **)

let rec skipn n0 l =
  match n0 with
  | O -> l
  | S n1 -> (match l with
             | [] -> []
             | _ :: l0 -> skipn n1 l0)

(** val seq : nat -> nat -> nat list **)

let rec seq start = function
| O -> []
| S len0 -> start :: (seq (S start) len0)

(** val repeat : 'a1 -> nat -> 'a1 list **)

let rec repeat x = function
| O -> []
| S k -> x :: (repeat x k)

module Z =
 struct
  (** val double : z -> z **)

  let double = function
  | Z0 -> Z0
  | Zpos p -> Zpos (XO p)
  | Zneg p -> Zneg (XO p)

  (** val succ_double : z -> z **)

  let succ_double = function
  | Z0 -> Zpos XH
  | Zpos p -> Zpos (XI p)
  | Zneg p -> Zneg (Coq_Pos.pred_double p)

  (** val pred_double : z -> z **)

  let pred_double = function
  | Z0 -> Zneg XH
  | Zpos p -> Zpos (Coq_Pos.pred_double p)
  | Zneg p -> Zneg (XI p)

  (** val pos_sub : positive -> positive -> z **)

  let rec pos_sub x y =
    match x with
    | XI p ->
      (match y with
       | XI q -> double (pos_sub p q)
       | XO q -> succ_double (pos_sub p q)
       | XH -> Zpos (XO p))
    | XO p ->
      (match y with
       | XI q -> pred_double (pos_sub p q)
       | XO q -> double (pos_sub p q)
       | XH -> Zpos (Coq_Pos.pred_double p))
    | XH ->
      (match y with
       | XI q -> Zneg (XO q)
       | XO q -> Zneg (Coq_Pos.pred_double q)
       | XH -> Z0)

  (** val add : z -> z -> z **)

  let add x y =
    match x with
    | Z0 -> y
    | Zpos x' ->
      (match y with
       | Z0 -> x
       | Zpos y' -> Zpos (Coq_Pos.add x' y')
       | Zneg y' -> pos_sub x' y')
    | Zneg x' ->
      (match y with
       | Z0 -> x
       | Zpos y' -> pos_sub y' x'
       | Zneg y' -> Zneg (Coq_Pos.add x' y'))

  (** val opp : z -> z **)

  let opp = function
  | Z0 -> Z0
  | Zpos x0 -> Zneg x0
  | Zneg x0 -> Zpos x0

  (** val sub : z -> z -> z **)

  let sub m n0 =
    add m (opp n0)

  (** val mul : z -> z -> z **)

  let mul x y =
    match x with
    | Z0 -> Z0
    | Zpos x' ->
      (match y with
       | Z0 -> Z0
       | Zpos y' -> Zpos (Coq_Pos.mul x' y')
       | Zneg y' -> Zneg (Coq_Pos.mul x' y'))
    | Zneg x' ->
      (match y with
       | Z0 -> Z0
       | Zpos y' -> Zneg (Coq_Pos.mul x' y')
       | Zneg y' -> Zpos (Coq_Pos.mul x' y'))

  (** val compare : z -> z -> comparison **)

  let compare x y =
    match x with
    | Z0 -> (match y with
             | Z0 -> Eq
             | Zpos _ -> Lt
             | Zneg _ -> Gt)
    | Zpos x' -> (match y with
                  | Zpos y' -> Coq_Pos.compare x' y'
                  | _ -> Gt)
    | Zneg x' ->
      (match y with
       | Zneg y' -> compOpp (Coq_Pos.compare x' y')
       | _ -> Lt)

  (** val leb : z -> z -> bool **)

  let leb x y =
    match compare x y with
    | Gt -> false
    | _ -> true

  (** val ltb : z -> z -> bool **)

  let ltb x y =
    match compare x y with
    | Lt -> true
    | _ -> false

  (** val eqb : z -> z -> bool **)

  let eqb x y =
    match x with
    | Z0 -> (match y with
             | Z0 -> true
             | _ -> false)
    | Zpos p -> (match y with
                 | Zpos q -> Coq_Pos.eqb p q
                 | _ -> false)
    | Zneg p -> (match y with
                 | Zneg q -> Coq_Pos.eqb p q
                 | _ -> false)

  (** val to_N : z -> n **)

  let to_N = function
  | Zpos p -> Npos p
  | _ -> N0

  (** val of_N : n -> z **)

  let of_N = function
  | N0 -> Z0
  | Npos p -> Zpos p

  (** val pos_div_eucl : positive -> z -> z * z **)

  let rec pos_div_eucl a b =
    match a with
    | XI a' ->
      let (q, r) = pos_div_eucl a' b in
      let r' = add (mul (Zpos (XO XH)) r) (Zpos XH) in
      if ltb r' b
      then ((mul (Zpos (XO XH)) q), r')
      else ((add (mul (Zpos (XO XH)) q) (Zpos XH)), (sub r' b))
    | XO a' ->
      let (q, r) = pos_div_eucl a' b in
      let r' = mul (Zpos (XO XH)) r in
      if ltb r' b
      then ((mul (Zpos (XO XH)) q), r')
      else ((add (mul (Zpos (XO XH)) q) (Zpos XH)), (sub r' b))
    | XH -> if leb (Zpos (XO XH)) b then (Z0, (Zpos XH)) else ((Zpos XH), Z0)

  (** val div_eucl : z -> z -> z * z **)

  let div_eucl a b =
    match a with
    | Z0 -> (Z0, Z0)
    | Zpos a' ->
      (match b with
       | Z0 -> (Z0, a)
       | Zpos _ -> pos_div_eucl a' b
       | Zneg b' ->
         let (q, r) = pos_div_eucl a' (Zpos b') in
         (match r with
          | Z0 -> ((opp q), Z0)
          | _ -> ((opp (add q (Zpos XH))), (add b r))))
    | Zneg a' ->
      (match b with
       | Z0 -> (Z0, a)
       | Zpos _ ->
         let (q, r) = pos_div_eucl a' b in
         (match r with
          | Z0 -> ((opp q), Z0)
          | _ -> ((opp (add q (Zpos XH))), (sub b r)))
       | Zneg b' -> let (q, r) = pos_div_eucl a' (Zpos b') in (q, (opp r)))

  (** val modulo : z -> z -> z **)

  let modulo a b =
    let (_, r) = div_eucl a b in r
 end

type ascii =
| Ascii of bool * bool * bool * bool * bool * bool * bool * bool

(** val n_of_digits : bool list -> n **)

let rec n_of_digits = function
| [] -> N0
| b :: l' ->
  N.add (if b then Npos XH else N0) (N.mul (Npos (XO XH)) (n_of_digits l'))

(** val n_of_ascii : ascii -> n **)

let n_of_ascii = function
| Ascii (a0, a1, a2, a3, a4, a5, a6, a7) ->
  n_of_digits
    (a0 :: (a1 :: (a2 :: (a3 :: (a4 :: (a5 :: (a6 :: (a7 :: []))))))))

type string =
| EmptyString
| String of ascii * string

(** val list_ascii_of_string : string -> ascii list **)

let rec list_ascii_of_string = function
| EmptyString -> []
| String (ch, s0) -> ch :: (list_ascii_of_string s0)

type str = n list

(** val bytes_of_string : string -> str **)

let bytes_of_string s =
  map n_of_ascii (list_ascii_of_string s)

(** val str_eqb : str -> str -> bool **)

let rec str_eqb a b =
  match a with
  | [] -> (match b with
           | [] -> true
           | _ :: _ -> false)
  | x :: a' ->
    (match b with
     | [] -> false
     | y :: b' -> (&&) (N.eqb x y) (str_eqb a' b'))

(** val is_nil : 'a1 list -> bool **)

let is_nil = function
| [] -> true
| _ :: _ -> false

(** val strip_prefix : str -> str -> str option **)

let rec strip_prefix p s =
  match p with
  | [] -> Some s
  | c :: p' ->
    (match s with
     | [] -> None
     | d :: s' -> if N.eqb c d then strip_prefix p' s' else None)

(** val starts_with : str -> str -> bool **)

let starts_with p s =
  match strip_prefix p s with
  | Some _ -> true
  | None -> false

(** val split_once : n -> str -> (str * str) option **)

let rec split_once c = function
| [] -> None
| d :: s' ->
  if N.eqb c d
  then Some ([], s')
  else (match split_once c s' with
        | Some p -> let (a, b) = p in Some ((d :: a), b)
        | None -> None)

(** val str_ltb : str -> str -> bool **)

let rec str_ltb a b =
  match a with
  | [] -> (match b with
           | [] -> false
           | _ :: _ -> true)
  | x :: a' ->
    (match b with
     | [] -> false
     | y :: b' ->
       if N.ltb x y then true else if N.eqb x y then str_ltb a' b' else false)

(** val dec_digits_fuel : nat -> n -> str -> str **)

let rec dec_digits_fuel fuel n0 acc =
  match fuel with
  | O -> acc
  | S f ->
    let acc' =
      (N.add (Npos (XO (XO (XO (XO (XI XH))))))
        (N.modulo n0 (Npos (XO (XI (XO XH)))))) :: acc
    in
    if N.ltb n0 (Npos (XO (XI (XO XH))))
    then acc'
    else dec_digits_fuel f (N.div n0 (Npos (XO (XI (XO XH))))) acc'

(** val dec_of_N : n -> str **)

let dec_of_N n0 =
  dec_digits_fuel (S (N.to_nat (N.size n0))) n0 []

(** val is_digit : n -> bool **)

let is_digit c =
  (&&) (N.leb (Npos (XO (XO (XO (XO (XI XH)))))) c)
    (N.leb c (Npos (XI (XO (XO (XI (XI XH)))))))

(** val digits_value : str -> n -> n option **)

let rec digits_value s acc =
  match s with
  | [] -> Some acc
  | c :: s' ->
    if is_digit c
    then digits_value s'
           (N.add (N.mul acc (Npos (XO (XI (XO XH)))))
             (N.sub c (Npos (XO (XO (XO (XO (XI XH))))))))
    else None

(** val parse_u64 : str -> n option **)

let parse_u64 s =
  let ds =
    match s with
    | [] -> s
    | n0 :: r ->
      (match n0 with
       | N0 -> s
       | Npos p ->
         (match p with
          | XI p0 ->
            (match p0 with
             | XI p1 ->
               (match p1 with
                | XO p2 ->
                  (match p2 with
                   | XI p3 ->
                     (match p3 with
                      | XO p4 -> (match p4 with
                                  | XH -> r
                                  | _ -> s)
                      | _ -> s)
                   | _ -> s)
                | _ -> s)
             | _ -> s)
          | _ -> s))
  in
  (match ds with
   | [] -> None
   | _ :: _ ->
     (match digits_value ds N0 with
      | Some v ->
        if N.ltb v
             (N.pow (Npos (XO XH)) (Npos (XO (XO (XO (XO (XO (XO XH))))))))
        then Some v
        else None
      | None -> None))

(** val parse_int : str -> z option **)

let parse_int s = match s with
| [] -> None
| n0 :: r ->
  (match n0 with
   | N0 ->
     (match digits_value s N0 with
      | Some v -> Some (Z.of_N v)
      | None -> None)
   | Npos p ->
     (match p with
      | XI p0 ->
        (match p0 with
         | XO p1 ->
           (match p1 with
            | XI p2 ->
              (match p2 with
               | XI p3 ->
                 (match p3 with
                  | XO p4 ->
                    (match p4 with
                     | XH ->
                       (match r with
                        | [] -> None
                        | _ :: _ ->
                          (match digits_value r N0 with
                           | Some v -> Some (Z.opp (Z.of_N v))
                           | None -> None))
                     | _ ->
                       (match digits_value s N0 with
                        | Some v -> Some (Z.of_N v)
                        | None -> None))
                  | _ ->
                    (match digits_value s N0 with
                     | Some v -> Some (Z.of_N v)
                     | None -> None))
               | _ ->
                 (match digits_value s N0 with
                  | Some v -> Some (Z.of_N v)
                  | None -> None))
            | _ ->
              (match digits_value s N0 with
               | Some v -> Some (Z.of_N v)
               | None -> None))
         | _ ->
           (match digits_value s N0 with
            | Some v -> Some (Z.of_N v)
            | None -> None))
      | _ ->
        (match digits_value s N0 with
         | Some v -> Some (Z.of_N v)
         | None -> None)))

(** val hex_digit : n -> n **)

let hex_digit n0 =
  if N.ltb n0 (Npos (XO (XI (XO XH))))
  then N.add (Npos (XO (XO (XO (XO (XI XH)))))) n0
  else N.add (Npos (XI (XI (XI (XO (XI (XO XH))))))) n0

(** val hex_of_bytes : str -> str **)

let rec hex_of_bytes = function
| [] -> []
| b :: s' ->
  (hex_digit (N.div b (Npos (XO (XO (XO (XO XH))))))) :: ((hex_digit
                                                            (N.modulo b (Npos
                                                              (XO (XO (XO (XO
                                                              XH))))))) :: 
    (hex_of_bytes s'))

(** val hex_field : str -> str **)

let hex_field s = match s with
| [] -> (Npos (XI (XO (XI (XI (XO XH)))))) :: []
| _ :: _ -> hex_of_bytes s

(** val hex_val : n -> n option **)

let hex_val c =
  if is_digit c
  then Some (N.sub c (Npos (XO (XO (XO (XO (XI XH)))))))
  else if (&&) (N.leb (Npos (XI (XO (XO (XO (XO (XI XH))))))) c)
            (N.leb c (Npos (XO (XI (XI (XO (XO (XI XH))))))))
       then Some (N.sub c (Npos (XI (XI (XI (XO (XI (XO XH))))))))
       else None

(** val bytes_of_hex : str -> str option **)

let rec bytes_of_hex = function
| [] -> Some []
| a :: l ->
  (match l with
   | [] -> None
   | b :: s' ->
     (match hex_val a with
      | Some x ->
        (match hex_val b with
         | Some y ->
           (match bytes_of_hex s' with
            | Some r ->
              Some ((N.add (N.mul x (Npos (XO (XO (XO (XO XH)))))) y) :: r)
            | None -> None)
         | None -> None)
      | None -> None))

(** val unhex_field : str -> str option **)

let unhex_field s = match s with
| [] -> bytes_of_hex s
| n0 :: l ->
  (match n0 with
   | N0 -> bytes_of_hex s
   | Npos p ->
     (match p with
      | XI p0 ->
        (match p0 with
         | XO p1 ->
           (match p1 with
            | XI p2 ->
              (match p2 with
               | XI p3 ->
                 (match p3 with
                  | XO p4 ->
                    (match p4 with
                     | XH ->
                       (match l with
                        | [] -> Some []
                        | _ :: _ -> bytes_of_hex s)
                     | _ -> bytes_of_hex s)
                  | _ -> bytes_of_hex s)
               | _ -> bytes_of_hex s)
            | _ -> bytes_of_hex s)
         | _ -> bytes_of_hex s)
      | _ -> bytes_of_hex s))

(** val alookup :
    ('a1 -> 'a1 -> bool) -> 'a1 -> ('a1 * 'a2) list -> 'a2 option **)

let rec alookup eqb0 k = function
| [] -> None
| p :: l' ->
  let (k', v) = p in if eqb0 k k' then Some v else alookup eqb0 k l'

(** val aremove :
    ('a1 -> 'a1 -> bool) -> 'a1 -> ('a1 * 'a2) list -> ('a1 * 'a2) list **)

let rec aremove eqb0 k = function
| [] -> []
| p :: l' ->
  let (k', v) = p in if eqb0 k k' then l' else (k', v) :: (aremove eqb0 k l')

(** val aupdate :
    ('a1 -> 'a1 -> bool) -> 'a1 -> 'a2 -> ('a1 * 'a2) list -> ('a1 * 'a2) list **)

let rec aupdate eqb0 k v = function
| [] -> []
| p :: l' ->
  let (k', v') = p in
  if eqb0 k k' then (k', v) :: l' else (k', v') :: (aupdate eqb0 k v l')

(** val amem : ('a1 -> 'a1 -> bool) -> 'a1 -> ('a1 * 'a2) list -> bool **)

let amem eqb0 k l =
  match alookup eqb0 k l with
  | Some _ -> true
  | None -> false

(** val insert_sorted :
    ('a1 -> 'a1 -> bool) -> 'a1 -> 'a1 list -> 'a1 list **)

let rec insert_sorted ltb0 x l = match l with
| [] -> x :: []
| y :: l' -> if ltb0 x y then x :: l else y :: (insert_sorted ltb0 x l')

(** val isort : ('a1 -> 'a1 -> bool) -> 'a1 list -> 'a1 list **)

let isort ltb0 l =
  fold_right (insert_sorted ltb0) [] l

(** val skip_N : n -> 'a1 list -> 'a1 list **)

let rec skip_N n0 l = match l with
| [] -> []
| _ :: l' -> if N.eqb n0 N0 then l else skip_N (N.sub n0 (Npos XH)) l'

(** val take_N : n -> 'a1 list -> 'a1 list **)

let rec take_N n0 = function
| [] -> []
| x :: l' -> if N.eqb n0 N0 then [] else x :: (take_N (N.sub n0 (Npos XH)) l')

(** val len_N : 'a1 list -> n **)

let len_N l =
  N.of_nat (length l)

(** val projects_prefix : str **)

let projects_prefix =
  (Npos (XO (XO (XO (XO (XI (XI XH))))))) :: ((Npos (XO (XI (XO (XO (XI (XI
    XH))))))) :: ((Npos (XI (XI (XI (XI (XO (XI XH))))))) :: ((Npos (XO (XI
    (XO (XI (XO (XI XH))))))) :: ((Npos (XI (XO (XI (XO (XO (XI
    XH))))))) :: ((Npos (XI (XI (XO (XO (XO (XI XH))))))) :: ((Npos (XO (XO
    (XI (XO (XI (XI XH))))))) :: ((Npos (XI (XI (XO (XO (XI (XI
    XH))))))) :: ((Npos (XI (XI (XI (XI (XO XH)))))) :: []))))))))

(** val topics_seg : str **)

let topics_seg =
  (Npos (XO (XO (XI (XO (XI (XI XH))))))) :: ((Npos (XI (XI (XI (XI (XO (XI
    XH))))))) :: ((Npos (XO (XO (XO (XO (XI (XI XH))))))) :: ((Npos (XI (XO
    (XO (XI (XO (XI XH))))))) :: ((Npos (XI (XI (XO (XO (XO (XI
    XH))))))) :: ((Npos (XI (XI (XO (XO (XI (XI XH))))))) :: ((Npos (XI (XI
    (XI (XI (XO XH)))))) :: []))))))

(** val subscriptions_seg : str **)

let subscriptions_seg =
  (Npos (XI (XI (XO (XO (XI (XI XH))))))) :: ((Npos (XI (XO (XI (XO (XI (XI
    XH))))))) :: ((Npos (XO (XI (XO (XO (XO (XI XH))))))) :: ((Npos (XI (XI
    (XO (XO (XI (XI XH))))))) :: ((Npos (XI (XI (XO (XO (XO (XI
    XH))))))) :: ((Npos (XO (XI (XO (XO (XI (XI XH))))))) :: ((Npos (XI (XO
    (XO (XI (XO (XI XH))))))) :: ((Npos (XO (XO (XO (XO (XI (XI
    XH))))))) :: ((Npos (XO (XO (XI (XO (XI (XI XH))))))) :: ((Npos (XI (XO
    (XO (XI (XO (XI XH))))))) :: ((Npos (XI (XI (XI (XI (XO (XI
    XH))))))) :: ((Npos (XO (XI (XI (XI (XO (XI XH))))))) :: ((Npos (XI (XI
    (XO (XO (XI (XI XH))))))) :: ((Npos (XI (XI (XI (XI (XO
    XH)))))) :: [])))))))))))))

(** val slash : n **)

let slash =
  Npos (XI (XI (XI (XI (XO XH)))))

type name = str * str

(** val name_eqb : name -> name -> bool **)

let name_eqb a b =
  (&&) (str_eqb (fst a) (fst b)) (str_eqb (snd a) (snd b))

(** val parse_name : str -> str -> name option **)

let parse_name seg s =
  match strip_prefix projects_prefix s with
  | Some r ->
    (match split_once slash r with
     | Some p ->
       let (proj, rest) = p in
       (match strip_prefix seg rest with
        | Some id ->
          if (||) (is_nil proj) (is_nil id) then None else Some (proj, id)
        | None -> None)
     | None -> None)
  | None -> None

(** val show_name : str -> name -> str **)

let show_name seg n0 =
  app projects_prefix (app (fst n0) (slash :: (app seg (snd n0))))

(** val parse_topic_name : str -> name option **)

let parse_topic_name =
  parse_name topics_seg

(** val parse_sub_name : str -> name option **)

let parse_sub_name =
  parse_name subscriptions_seg

(** val show_topic_name : name -> str **)

let show_topic_name =
  show_name topics_seg

(** val show_sub_name : name -> str **)

let show_sub_name =
  show_name subscriptions_seg

(** val parse_project : str -> str option **)

let parse_project s =
  strip_prefix projects_prefix s

(** val ns_per_s : n **)

let ns_per_s =
  Npos (XO (XO (XO (XO (XO (XO (XO (XO (XO (XI (XO (XI (XO (XO (XI (XI (XO
    (XI (XO (XI (XI (XO (XO (XI (XI (XI (XO (XI (XI
    XH)))))))))))))))))))))))))))))

(** val ns_per_ms : n **)

let ns_per_ms =
  Npos (XO (XO (XO (XO (XO (XO (XI (XO (XO (XI (XO (XO (XO (XO (XI (XO (XI
    (XI (XI XH)))))))))))))))))))

(** val us_ceil : n -> n **)

let us_ceil t =
  N.div (N.add t (Npos (XI (XI (XI (XO (XO (XI (XI (XI (XI XH)))))))))))
    (Npos (XO (XO (XO (XI (XO (XI (XI (XI (XI XH))))))))))

(** val round_deadline : n -> n **)

let round_deadline t =
  let m = us_ceil t in
  N.mul (Npos (XO (XO (XO (XI (XO (XI (XI (XI (XI XH))))))))))
    (N.add m
      (N.modulo m (Npos (XO (XO (XO (XO (XO (XI (XO (XI (XO (XI (XI (XO (XO
        (XO (XO (XI XH)))))))))))))))))))

(** val effective_ackdl : z -> n **)

let effective_ackdl secs =
  if Z.leb secs (Zpos (XO (XI (XO XH))))
  then Npos (XO (XI (XO XH)))
  else Z.to_N secs

type ext =
| ExtErr
| ExtNack
| ExtSecs of n

(** val parse_ext : z -> ext **)

let parse_ext secs =
  if Z.ltb secs Z0
  then ExtErr
  else if Z.leb (Zpos (XO (XO (XO (XI (XI (XO (XI (XO (XO XH)))))))))) secs
       then ExtSecs (Npos (XO (XO (XO (XI (XI (XO (XI (XO (XO XH))))))))))
       else if Z.eqb secs Z0 then ExtNack else ExtSecs (Z.to_N secs)

(** val tick_of : n -> n **)

let tick_of d =
  N.mul ns_per_ms (N.div (N.add d (N.sub ns_per_ms (Npos XH))) ns_per_ms)

(** val b64_char : n -> n **)

let b64_char v =
  if N.ltb v (Npos (XO (XI (XO (XI XH)))))
  then N.add (Npos (XI (XO (XO (XO (XO (XO XH))))))) v
  else if N.ltb v (Npos (XO (XO (XI (XO (XI XH))))))
       then N.add (Npos (XI (XO (XO (XO (XO (XI XH)))))))
              (N.sub v (Npos (XO (XI (XO (XI XH))))))
       else if N.ltb v (Npos (XO (XI (XI (XI (XI XH))))))
            then N.add (Npos (XO (XO (XO (XO (XI XH))))))
                   (N.sub v (Npos (XO (XO (XI (XO (XI XH)))))))
            else if N.eqb v (Npos (XO (XI (XI (XI (XI XH))))))
                 then Npos (XI (XI (XO (XI (XO XH)))))
                 else Npos (XI (XI (XI (XI (XO XH)))))

(** val b64_val : n -> n option **)

let b64_val c =
  if (&&) (N.leb (Npos (XI (XO (XO (XO (XO (XO XH))))))) c)
       (N.leb c (Npos (XO (XI (XO (XI (XI (XO XH))))))))
  then Some (N.sub c (Npos (XI (XO (XO (XO (XO (XO XH))))))))
  else if (&&) (N.leb (Npos (XI (XO (XO (XO (XO (XI XH))))))) c)
            (N.leb c (Npos (XO (XI (XO (XI (XI (XI XH))))))))
       then Some
              (N.add (N.sub c (Npos (XI (XO (XO (XO (XO (XI XH)))))))) (Npos
                (XO (XI (XO (XI XH))))))
       else if (&&) (N.leb (Npos (XO (XO (XO (XO (XI XH)))))) c)
                 (N.leb c (Npos (XI (XO (XO (XI (XI XH)))))))
            then Some
                   (N.add (N.sub c (Npos (XO (XO (XO (XO (XI XH))))))) (Npos
                     (XO (XO (XI (XO (XI XH)))))))
            else if N.eqb c (Npos (XI (XI (XO (XI (XO XH))))))
                 then Some (Npos (XO (XI (XI (XI (XI XH))))))
                 else if N.eqb c (Npos (XI (XI (XI (XI (XO XH))))))
                      then Some (Npos (XI (XI (XI (XI (XI XH))))))
                      else None

(** val pad : n **)

let pad =
  Npos (XI (XO (XI (XI (XI XH)))))

(** val b64_encode : str -> str **)

let rec b64_encode = function
| [] -> []
| a :: l ->
  (match l with
   | [] ->
     (b64_char (N.div a (Npos (XO (XO XH))))) :: ((b64_char
                                                    (N.mul
                                                      (N.modulo a (Npos (XO
                                                        (XO XH)))) (Npos (XO
                                                      (XO (XO (XO XH))))))) :: (pad :: (pad :: [])))
   | b :: l0 ->
     (match l0 with
      | [] ->
        (b64_char (N.div a (Npos (XO (XO XH))))) :: ((b64_char
                                                       (N.add
                                                         (N.mul
                                                           (N.modulo a (Npos
                                                             (XO (XO XH))))
                                                           (Npos (XO (XO (XO
                                                           (XO XH))))))
                                                         (N.div b (Npos (XO
                                                           (XO (XO (XO
                                                           XH)))))))) :: (
          (b64_char
            (N.mul (N.modulo b (Npos (XO (XO (XO (XO XH)))))) (Npos (XO (XO
              XH))))) :: (pad :: [])))
      | c :: s' ->
        (b64_char (N.div a (Npos (XO (XO XH))))) :: ((b64_char
                                                       (N.add
                                                         (N.mul
                                                           (N.modulo a (Npos
                                                             (XO (XO XH))))
                                                           (Npos (XO (XO (XO
                                                           (XO XH))))))
                                                         (N.div b (Npos (XO
                                                           (XO (XO (XO
                                                           XH)))))))) :: (
          (b64_char
            (N.add
              (N.mul (N.modulo b (Npos (XO (XO (XO (XO XH)))))) (Npos (XO (XO
                XH)))) (N.div c (Npos (XO (XO (XO (XO (XO (XO XH)))))))))) :: (
          (b64_char (N.modulo c (Npos (XO (XO (XO (XO (XO (XO XH))))))))) :: 
          (b64_encode s'))))))

(** val b64_decode : str -> str option **)

let rec b64_decode = function
| [] -> Some []
| c1 :: l ->
  (match l with
   | [] -> None
   | c2 :: l0 ->
     (match l0 with
      | [] -> None
      | c3 :: l1 ->
        (match l1 with
         | [] -> None
         | c4 :: s' ->
           (match s' with
            | [] ->
              (match b64_val c1 with
               | Some v1 ->
                 (match b64_val c2 with
                  | Some v2 ->
                    if N.eqb c3 pad
                    then if N.eqb c4 pad
                         then if N.eqb
                                   (N.modulo v2 (Npos (XO (XO (XO (XO XH))))))
                                   N0
                              then Some
                                     ((N.add (N.mul v1 (Npos (XO (XO XH))))
                                        (N.div v2 (Npos (XO (XO (XO (XO
                                          XH))))))) :: [])
                              else None
                         else None
                    else (match b64_val c3 with
                          | Some v3 ->
                            if N.eqb c4 pad
                            then if N.eqb (N.modulo v3 (Npos (XO (XO XH)))) N0
                                 then Some
                                        ((N.add
                                           (N.mul v1 (Npos (XO (XO XH))))
                                           (N.div v2 (Npos (XO (XO (XO (XO
                                             XH))))))) :: ((N.add
                                                             (N.mul
                                                               (N.modulo v2
                                                                 (Npos (XO
                                                                 (XO (XO (XO
                                                                 XH))))))
                                                               (Npos (XO (XO
                                                               (XO (XO
                                                               XH))))))
                                                             (N.div v3 (Npos
                                                               (XO (XO XH))))) :: []))
                                 else None
                            else (match b64_val c4 with
                                  | Some v4 ->
                                    Some
                                      ((N.add (N.mul v1 (Npos (XO (XO XH))))
                                         (N.div v2 (Npos (XO (XO (XO (XO
                                           XH))))))) :: ((N.add
                                                           (N.mul
                                                             (N.modulo v2
                                                               (Npos (XO (XO
                                                               (XO (XO
                                                               XH)))))) (Npos
                                                             (XO (XO (XO (XO
                                                             XH))))))
                                                           (N.div v3 (Npos
                                                             (XO (XO XH))))) :: (
                                      (N.add
                                        (N.mul
                                          (N.modulo v3 (Npos (XO (XO XH))))
                                          (Npos (XO (XO (XO (XO (XO (XO
                                          XH)))))))) v4) :: [])))
                                  | None -> None)
                          | None -> None)
                  | None -> None)
               | None -> None)
            | _ :: _ ->
              (match b64_val c1 with
               | Some v1 ->
                 (match b64_val c2 with
                  | Some v2 ->
                    (match b64_val c3 with
                     | Some v3 ->
                       (match b64_val c4 with
                        | Some v4 ->
                          (match b64_decode s' with
                           | Some r ->
                             Some
                               ((N.add (N.mul v1 (Npos (XO (XO XH))))
                                  (N.div v2 (Npos (XO (XO (XO (XO XH))))))) :: (
                               (N.add
                                 (N.mul
                                   (N.modulo v2 (Npos (XO (XO (XO (XO XH))))))
                                   (Npos (XO (XO (XO (XO XH))))))
                                 (N.div v3 (Npos (XO (XO XH))))) :: (
                               (N.add
                                 (N.mul (N.modulo v3 (Npos (XO (XO XH))))
                                   (Npos (XO (XO (XO (XO (XO (XO XH))))))))
                                 v4) :: r)))
                           | None -> None)
                        | None -> None)
                     | None -> None)
                  | None -> None)
               | None -> None)))))

(** val le_bytes : nat -> n -> str **)

let rec le_bytes k n0 =
  match k with
  | O -> []
  | S k' ->
    (N.modulo n0 (Npos (XO (XO (XO (XO (XO (XO (XO (XO XH)))))))))) :: 
      (le_bytes k'
        (N.div n0 (Npos (XO (XO (XO (XO (XO (XO (XO (XO XH)))))))))))

(** val le_value : str -> n **)

let rec le_value = function
| [] -> N0
| b :: s' ->
  N.add b
    (N.mul (Npos (XO (XO (XO (XO (XO (XO (XO (XO XH))))))))) (le_value s'))

(** val token_encode : n -> str **)

let token_encode n0 =
  b64_encode (le_bytes (S (S (S (S (S (S (S (S O)))))))) n0)

(** val token_decode : str -> n option **)

let token_decode s =
  match b64_decode s with
  | Some bytes0 ->
    if Nat.eqb (length bytes0) (S (S (S (S (S (S (S (S O))))))))
    then Some (le_value bytes0)
    else None
  | None -> None

(** val as_u16 : z -> n **)

let as_u16 z0 =
  Z.to_N
    (Z.modulo z0 (Zpos (XO (XO (XO (XO (XO (XO (XO (XO (XO (XO (XO (XO (XO
      (XO (XO (XO XH))))))))))))))))))

(** val len_as_u16 : n -> n **)

let len_as_u16 n0 =
  N.modulo n0 (Npos (XO (XO (XO (XO (XO (XO (XO (XO (XO (XO (XO (XO (XO (XO
    (XO (XO XH)))))))))))))))))

(** val try_u16 : z -> n option **)

let try_u16 z0 =
  if (&&) (Z.leb Z0 z0)
       (Z.leb z0 (Zpos (XI (XI (XI (XI (XI (XI (XI (XI (XI (XI (XI (XI (XI
         (XI (XI XH)))))))))))))))))
  then Some (Z.to_N z0)
  else None

(** val pull_capacity : n -> n -> n **)

let pull_capacity max_count backlog_len =
  N.min max_count
    (N.max (len_as_u16 backlog_len) (Npos (XO (XO (XO (XI (XO (XI (XI (XI (XI
      XH)))))))))))

(** val pull_count : n -> n -> n **)

let pull_count max_count backlog_len =
  N.min backlog_len (N.max (Npos XH) (pull_capacity max_count backlog_len))

(** val message_id : n -> n -> n **)

let message_id tid ctr =
  N.coq_lor (N.shiftl tid (Npos (XO (XO (XO (XO (XO XH))))))) ctr

type paging = { pg_size : n; pg_offset : n option }

(** val paging_new : n -> n option -> paging **)

let paging_new size0 offset =
  { pg_size =
    (if N.eqb size0 N0
     then Npos (XO (XO (XI (XO XH))))
     else if N.ltb (Npos (XO (XO (XO (XI (XO (XI (XI (XI (XI XH))))))))))
               size0
          then Npos (XO (XO (XO (XI (XO (XI (XI (XI (XI XH)))))))))
          else size0); pg_offset = offset }

(** val pg_take : paging -> n **)

let pg_take p =
  N.min p.pg_size (Npos (XO (XO (XO (XO (XI (XO (XO (XO (XI (XI (XI (XO (XO
    XH))))))))))))))

(** val pg_skip : paging -> n **)

let pg_skip p =
  match p.pg_offset with
  | Some o -> o
  | None -> N0

(** val parse_page_token : str -> n option option **)

let parse_page_token tok = match tok with
| [] -> Some None
| _ :: _ ->
  (match token_decode tok with
   | Some v -> Some (Some v)
   | None -> None)

(** val parse_paging : z -> str -> paging option **)

let parse_paging size0 tok =
  match parse_page_token tok with
  | Some off ->
    if Z.ltb size0 Z0 then None else Some (paging_new (Z.to_N size0) off)
  | None -> None

(** val page_of : paging -> 'a1 list -> 'a1 list * n option **)

let page_of p all =
  let items = take_N (pg_take p) (skip_N (pg_skip p) all) in
  (items,
  (match items with
   | [] -> None
   | _ :: _ -> Some (N.add (pg_skip p) (len_N items))))

(** val next_token : n option -> str **)

let next_token = function
| Some n0 -> token_encode n0
| None -> []

type msg = { m_id : n; m_data : str; m_attrs : (str * str) list; m_pt : n }

type lease = { l_ack : n; l_dl : n; l_msg : msg }

type ekey = n * n

(** val key_ltb : ekey -> ekey -> bool **)

let key_ltb a b =
  (||) (N.ltb (fst a) (fst b))
    ((&&) (N.eqb (fst a) (fst b)) (N.ltb (snd a) (snd b)))

(** val key_eqb : ekey -> ekey -> bool **)

let key_eqb a b =
  (&&) (N.eqb (fst a) (fst b)) (N.eqb (snd a) (snd b))

(** val set_insert : ekey -> ekey list -> ekey list **)

let rec set_insert k l = match l with
| [] -> k :: []
| k' :: l' ->
  if key_ltb k k'
  then k :: l
  else if key_eqb k k' then l else k' :: (set_insert k l')

(** val set_remove : ekey -> ekey list -> ekey list **)

let rec set_remove k = function
| [] -> []
| k' :: l' -> if key_eqb k k' then l' else k' :: (set_remove k l')

type tracker = { tr_msgs : (n * lease) list; tr_exp : ekey list }

(** val tr_empty : tracker **)

let tr_empty =
  { tr_msgs = []; tr_exp = [] }

(** val lease_key : lease -> ekey **)

let lease_key l =
  (l.l_dl, l.l_ack)

(** val map_insert : n -> lease -> (n * lease) list -> (n * lease) list **)

let map_insert k v m =
  if amem N.eqb k m then aupdate N.eqb k v m else app m ((k, v) :: [])

(** val tr_add : lease -> tracker -> tracker **)

let tr_add l t =
  { tr_msgs = (map_insert l.l_ack l t.tr_msgs); tr_exp =
    (set_insert (lease_key l) t.tr_exp) }

(** val tr_remove1 : tracker -> n -> tracker **)

let tr_remove1 t a =
  match alookup N.eqb a t.tr_msgs with
  | Some l ->
    { tr_msgs = (aremove N.eqb a t.tr_msgs); tr_exp =
      (set_remove (lease_key l) t.tr_exp) }
  | None -> t

(** val tr_remove : n list -> tracker -> tracker **)

let tr_remove ids t =
  fold_left tr_remove1 ids t

(** val tr_modify1 :
    (tracker * lease list) -> (n * n option) -> tracker * lease list **)

let tr_modify1 acc m =
  let (t, nacked) = acc in
  let (a, nd) = m in
  (match alookup N.eqb a t.tr_msgs with
   | Some l ->
     let exp' = set_remove (lease_key l) t.tr_exp in
     (match nd with
      | Some d ->
        let l' = { l_ack = l.l_ack; l_dl = d; l_msg = l.l_msg } in
        ({ tr_msgs = (aupdate N.eqb a l' t.tr_msgs); tr_exp =
        (set_insert (lease_key l') exp') }, nacked)
      | None ->
        ({ tr_msgs = (aremove N.eqb a t.tr_msgs); tr_exp = exp' },
          (app nacked (l :: []))))
   | None -> acc)

(** val tr_modify : (n * n option) list -> tracker -> tracker * lease list **)

let tr_modify mods t =
  fold_left tr_modify1 mods (t, [])

(** val take_expired :
    n -> ekey list -> (n * lease) list -> ((lease list * ekey
    list) * (n * lease) list) option **)

let rec take_expired now exp msgs0 =
  match exp with
  | [] -> Some (([], []), msgs0)
  | e :: exp' ->
    let (d, a) = e in
    if N.ltb now d
    then Some (([], exp), msgs0)
    else (match alookup N.eqb a msgs0 with
          | Some l ->
            (match take_expired now exp' (aremove N.eqb a msgs0) with
             | Some p ->
               let (p0, m) = p in let (r, e0) = p0 in Some (((l :: r), e0), m)
             | None -> None)
          | None -> None)

type sub0 = { s_name : name; s_uid : n; s_topic : n; s_ackdl : n;
              s_push : str option; s_backlog : msg list; s_tr : tracker;
              s_next_ack : n; s_deleted : bool }

(** val set_backlog_tr : sub0 -> msg list -> tracker -> n -> sub0 **)

let set_backlog_tr s b t na =
  { s_name = s.s_name; s_uid = s.s_uid; s_topic = s.s_topic; s_ackdl =
    s.s_ackdl; s_push = s.s_push; s_backlog = b; s_tr = t; s_next_ack = na;
    s_deleted = s.s_deleted }

(** val sub_new : name -> n -> n -> n -> str option -> sub0 **)

let sub_new n0 uid topic0 ackdl push =
  { s_name = n0; s_uid = uid; s_topic = topic0; s_ackdl = ackdl; s_push =
    push; s_backlog = []; s_tr = tr_empty; s_next_ack = (Npos XH);
    s_deleted = false }

(** val sub_post : msg list -> sub0 -> sub0 **)

let sub_post ms s =
  if s.s_deleted
  then s
  else set_backlog_tr s (app s.s_backlog ms) s.s_tr s.s_next_ack

(** val lease_out :
    n -> n -> msg list -> tracker -> (lease list * tracker) * n **)

let rec lease_out dl na ms t =
  match ms with
  | [] -> (([], t), na)
  | m :: ms' ->
    let l = { l_ack = na; l_dl = dl; l_msg = m } in
    let (p, na') = lease_out dl (N.add na (Npos XH)) ms' (tr_add l t) in
    let (ls, t') = p in (((l :: ls), t'), na')

(** val sub_pull : n -> n -> sub0 -> sub0 * lease list **)

let sub_pull max_count now s =
  if s.s_deleted
  then (s, [])
  else let k = pull_count max_count (len_N s.s_backlog) in
       let dl = round_deadline (N.add now (N.mul s.s_ackdl ns_per_s)) in
       let (p, na') = lease_out dl s.s_next_ack (take_N k s.s_backlog) s.s_tr
       in
       let (ls, t') = p in
       ((set_backlog_tr s (skip_N k s.s_backlog) t' na'), ls)

(** val sub_ack : n list -> sub0 -> sub0 **)

let sub_ack ids s =
  if s.s_deleted
  then s
  else set_backlog_tr s s.s_backlog (tr_remove ids s.s_tr) s.s_next_ack

(** val sub_modify : (n * n option) list -> sub0 -> sub0 **)

let sub_modify mods s =
  if s.s_deleted
  then s
  else let (t', nacked) = tr_modify mods s.s_tr in
       set_backlog_tr s (app s.s_backlog (map (fun l -> l.l_msg) nacked)) t'
         s.s_next_ack

(** val sub_expire : n -> sub0 -> sub0 **)

let sub_expire now s =
  match take_expired now s.s_tr.tr_exp s.s_tr.tr_msgs with
  | Some p ->
    let (p0, m) = p in
    let (ls, e) = p0 in
    set_backlog_tr s (app s.s_backlog (map (fun l -> l.l_msg) ls))
      { tr_msgs = m; tr_exp = e } s.s_next_ack
  | None -> s

(** val sub_outstanding : sub0 -> n **)

let sub_outstanding s =
  len_N s.s_tr.tr_msgs

(** val sub_backlog_len : sub0 -> n **)

let sub_backlog_len s =
  len_N s.s_backlog

(** val iNVALID_ARGUMENT : n **)

let iNVALID_ARGUMENT =
  Npos (XI XH)

(** val nOT_FOUND : n **)

let nOT_FOUND =
  Npos (XI (XO XH))

(** val aLREADY_EXISTS : n **)

let aLREADY_EXISTS =
  Npos (XO (XI XH))

(** val deleted_topic_str : str **)

let deleted_topic_str =
  (Npos (XI (XI (XI (XI (XI (XO XH))))))) :: ((Npos (XO (XO (XI (XO (XO (XI
    XH))))))) :: ((Npos (XI (XO (XI (XO (XO (XI XH))))))) :: ((Npos (XO (XO
    (XI (XI (XO (XI XH))))))) :: ((Npos (XI (XO (XI (XO (XO (XI
    XH))))))) :: ((Npos (XO (XO (XI (XO (XI (XI XH))))))) :: ((Npos (XI (XO
    (XI (XO (XO (XI XH))))))) :: ((Npos (XO (XO (XI (XO (XO (XI
    XH))))))) :: ((Npos (XI (XI (XI (XI (XI (XO XH))))))) :: ((Npos (XO (XO
    (XI (XO (XI (XI XH))))))) :: ((Npos (XI (XI (XI (XI (XO (XI
    XH))))))) :: ((Npos (XO (XO (XO (XO (XI (XI XH))))))) :: ((Npos (XI (XO
    (XO (XI (XO (XI XH))))))) :: ((Npos (XI (XI (XO (XO (XO (XI
    XH))))))) :: ((Npos (XI (XI (XI (XI (XI (XO XH))))))) :: []))))))))))))))

(** val deleted_topic_name : name **)

let deleted_topic_name =
  ([], deleted_topic_str)

(** val http_str : str **)

let http_str =
  (Npos (XO (XO (XO (XI (XO (XI XH))))))) :: ((Npos (XO (XO (XI (XO (XI (XI
    XH))))))) :: ((Npos (XO (XO (XI (XO (XI (XI XH))))))) :: ((Npos (XO (XO
    (XO (XO (XI (XI XH))))))) :: [])))

type topic = { t_name : name; t_uid : n; t_subs : (name * n) list;
               t_next_msg : n }

type stream = { st_id : n; st_sub : n; st_subname : name; st_max : n;
                st_pending : lease list list; st_term : n option;
                st_reqopen : bool }

type consumer =
| CStream of n
| CPull of n * n * n

type cons = { c_streams : stream list; c_waiters : (n * consumer) list;
              c_done : (n * (n, lease list) sum) list }

type server = { sv_now : n; sv_topics : topic list; sv_tnext : n;
                sv_subs : sub0 list; sv_snext : n;
                sv_reg : (name * str) list; sv_ptnext : n; sv_cons : 
                cons }

(** val sv_streams : server -> stream list **)

let sv_streams sv =
  sv.sv_cons.c_streams

(** val init_server : server **)

let init_server =
  { sv_now = N0; sv_topics = []; sv_tnext = (Npos XH); sv_subs = [];
    sv_snext = (Npos XH); sv_reg = []; sv_ptnext = N0; sv_cons =
    { c_streams = []; c_waiters = []; c_done = [] } }

(** val find_topic : name -> topic list -> topic option **)

let rec find_topic n0 = function
| [] -> None
| t :: ts' -> if name_eqb n0 t.t_name then Some t else find_topic n0 ts'

(** val topic_by_uid : n -> topic list -> topic option **)

let rec topic_by_uid u = function
| [] -> None
| t :: ts' -> if N.eqb u t.t_uid then Some t else topic_by_uid u ts'

(** val find_sub : name -> sub0 list -> sub0 option **)

let rec find_sub n0 = function
| [] -> None
| s :: ss' -> if name_eqb n0 s.s_name then Some s else find_sub n0 ss'

(** val upd_sub : n -> (sub0 -> sub0) -> sub0 list -> sub0 list **)

let upd_sub u f ss =
  map (fun s -> if N.eqb u s.s_uid then f s else s) ss

(** val upd_topic : n -> (topic -> topic) -> topic list -> topic list **)

let upd_topic u f ts =
  map (fun t -> if N.eqb u t.t_uid then f t else t) ts

(** val del_sub : n -> sub0 list -> sub0 list **)

let del_sub u ss =
  filter (fun s -> negb (N.eqb u s.s_uid)) ss

(** val del_topic : n -> topic list -> topic list **)

let del_topic u ts =
  filter (fun t -> negb (N.eqb u t.t_uid)) ts

(** val with_subs : server -> sub0 list -> server **)

let with_subs sv ss =
  { sv_now = sv.sv_now; sv_topics = sv.sv_topics; sv_tnext = sv.sv_tnext;
    sv_subs = ss; sv_snext = sv.sv_snext; sv_reg = sv.sv_reg; sv_ptnext =
    sv.sv_ptnext; sv_cons = sv.sv_cons }

(** val with_cons : server -> cons -> server **)

let with_cons sv c =
  { sv_now = sv.sv_now; sv_topics = sv.sv_topics; sv_tnext = sv.sv_tnext;
    sv_subs = sv.sv_subs; sv_snext = sv.sv_snext; sv_reg = sv.sv_reg;
    sv_ptnext = sv.sv_ptnext; sv_cons = c }

(** val set_streams : cons -> stream list -> cons **)

let set_streams c st =
  { c_streams = st; c_waiters = c.c_waiters; c_done = c.c_done }

(** val with_streams : server -> stream list -> server **)

let with_streams sv st =
  with_cons sv (set_streams sv.sv_cons st)

(** val with_topics : server -> topic list -> server **)

let with_topics sv ts =
  { sv_now = sv.sv_now; sv_topics = ts; sv_tnext = sv.sv_tnext; sv_subs =
    sv.sv_subs; sv_snext = sv.sv_snext; sv_reg = sv.sv_reg; sv_ptnext =
    sv.sv_ptnext; sv_cons = sv.sv_cons }

type raw_msg = str * (str * str) list

type outcome =
| OStatus of n
| OReset
| ORefused
| OHang

(** val accepted : outcome -> bool **)

let accepted = function
| OStatus c ->
  existsb (N.eqb c) ((Npos (XO (XI (XI (XO (XO (XI XH))))))) :: ((Npos (XO
    (XO (XO (XI (XO (XO (XI XH)))))))) :: ((Npos (XI (XO (XO (XI (XO (XO (XI
    XH)))))))) :: ((Npos (XO (XI (XO (XI (XO (XO (XI XH)))))))) :: ((Npos (XO
    (XO (XI (XI (XO (XO (XI XH)))))))) :: [])))))
| _ -> false

type req =
| RCreateTopic of str
| RGetTopic of str
| RDeleteTopic of str
| RListTopics of str * z * str
| RListTopicSubs of str * z * str
| RCreateSub of str * str * z * str option
| RGetSub of str
| RDeleteSub of str
| RListSubs of str * z * str
| RPublish of str * raw_msg list
| RPull of str * z * bool
| RAck of str * str list
| RModify of str * z * str list
| RAdvance of n
| RStats of str
| RReg
| RStreamOpen of n * str * z * z
| RStreamSend of n * str * z * z * str list * str list * z list
| RStreamClose of n
| RStreamRead of n
| RPullBg of n * str * z
| RJoin of n
| RPushSub of name * outcome list

type subres = { r_name : str; r_topic : str; r_ackdl : n; r_push : str option }

type resp =
| PErr of n
| POk
| PTopic of str
| PNames of str list * str
| PSub of subres
| PSubs of subres list * str
| PIds of n list
| PMsgs of lease list
| PStats of n * n * str
| PReg of (str * str) list
| PStream of lease list list * n option
| PPending
| PJoined of (n, lease list) sum
| PPushed of (lease * outcome) list
| PNone

(** val timer_fired : n -> sub0 -> bool **)

let timer_fired now s =
  match s.s_tr.tr_exp with
  | [] -> false
  | e :: _ -> let (d, _) = e in N.leb (tick_of d) now

(** val first_waiter :
    n -> (n * consumer) list -> (consumer * (n * consumer) list) option **)

let rec first_waiter u = function
| [] -> None
| p :: ws' ->
  let (v, c) = p in
  if N.eqb u v
  then Some (c, ws')
  else (match first_waiter u ws' with
        | Some p0 -> let (c', r) = p0 in Some (c', ((v, c) :: r))
        | None -> None)

(** val stream_push : n -> lease list list -> stream list -> stream list **)

let stream_push sid rs sts =
  map (fun st ->
    if N.eqb sid st.st_id
    then { st_id = st.st_id; st_sub = st.st_sub; st_subname = st.st_subname;
           st_max = st.st_max; st_pending = (app st.st_pending rs); st_term =
           st.st_term; st_reqopen = st.st_reqopen }
    else st) sts

(** val stream_terminate :
    (stream -> bool) -> n -> stream list -> stream list **)

let stream_terminate p code sts =
  map (fun st ->
    match st.st_term with
    | Some _ -> st
    | None ->
      if p st
      then { st_id = st.st_id; st_sub = st.st_sub; st_subname =
             st.st_subname; st_max = st.st_max; st_pending = st.st_pending;
             st_term = (Some code); st_reqopen = st.st_reqopen }
      else st) sts

(** val find_stream : n -> stream list -> stream option **)

let find_stream sid sts =
  find (fun st -> N.eqb sid st.st_id) sts

(** val serve : nat -> n -> sub0 -> cons -> sub0 * cons **)

let rec serve fuel now s c =
  match fuel with
  | O -> (s, c)
  | S f ->
    (match s.s_backlog with
     | [] -> (s, c)
     | _ :: _ ->
       (match first_waiter s.s_uid c.c_waiters with
        | Some p ->
          let (c0, rest) = p in
          (match c0 with
           | CStream sid ->
             (match find_stream sid c.c_streams with
              | Some st ->
                serve f now (fst (sub_pull st.st_max now s)) { c_streams =
                  (stream_push sid ((snd (sub_pull st.st_max now s)) :: [])
                    c.c_streams); c_waiters =
                  (app rest ((s.s_uid, (CStream sid)) :: [])); c_done =
                  c.c_done }
              | None ->
                serve f now s { c_streams = c.c_streams; c_waiters = rest;
                  c_done = c.c_done })
           | CPull (id, max0, _) ->
             serve f now (fst (sub_pull max0 now s)) { c_streams =
               c.c_streams; c_waiters = rest; c_done =
               (app c.c_done ((id, (Inr (snd (sub_pull max0 now s)))) :: [])) })
        | None -> (s, c)))

(** val has_waiter : n -> cons -> bool **)

let has_waiter u c =
  match first_waiter u c.c_waiters with
  | Some _ -> true
  | None -> false

(** val actor_runs : n -> bool -> cons -> sub0 -> bool **)

let actor_runs now touched c s =
  (||) ((||) touched (timer_fired now s))
    ((&&) (negb (is_nil s.s_backlog)) (has_waiter s.s_uid c))

(** val settle_sub : n -> bool -> cons -> sub0 -> sub0 * cons **)

let settle_sub now touched c s =
  let s1 = if actor_runs now touched c s then sub_expire now s else s in
  serve (add (length s1.s_backlog) (length c.c_waiters)) now s1 c

(** val settle_subs :
    n -> (n -> bool) -> sub0 list -> cons -> sub0 list * cons **)

let rec settle_subs now touched ss c =
  match ss with
  | [] -> ([], c)
  | s :: ss' ->
    let (s', c1) = settle_sub now (touched s.s_uid) c s in
    let (r, c2) = settle_subs now touched ss' c1 in ((s' :: r), c2)

(** val expire_pulls : n -> cons -> cons **)

let expire_pulls now c =
  { c_streams = c.c_streams; c_waiters =
    (filter (fun w ->
      match snd w with
      | CStream _ -> true
      | CPull (_, _, limit) -> N.ltb now limit) c.c_waiters); c_done =
    (app c.c_done
      (flat_map (fun w ->
        match snd w with
        | CStream _ -> []
        | CPull (id, _, limit) ->
          if N.ltb now limit then [] else (id, (Inr [])) :: []) c.c_waiters)) }

(** val settle : (n -> bool) -> server -> server **)

let settle touched sv =
  let (ss, c) = settle_subs sv.sv_now touched sv.sv_subs sv.sv_cons in
  with_cons (with_subs sv ss) (expire_pulls sv.sv_now c)

(** val topic_display : server -> sub0 -> str **)

let topic_display sv s =
  match topic_by_uid s.s_topic sv.sv_topics with
  | Some t -> show_topic_name t.t_name
  | None -> deleted_topic_str

(** val sub_resource : server -> sub0 -> subres **)

let sub_resource sv s =
  { r_name = (show_sub_name s.s_name); r_topic = (topic_display sv s);
    r_ackdl = s.s_ackdl; r_push = s.s_push }

(** val uid_ltb_sub : sub0 -> sub0 -> bool **)

let uid_ltb_sub a b =
  N.ltb a.s_uid b.s_uid

(** val uid_ltb_topic : topic -> topic -> bool **)

let uid_ltb_topic a b =
  N.ltb a.t_uid b.t_uid

(** val snd_ltb : (name * n) -> (name * n) -> bool **)

let snd_ltb a b =
  N.ltb (snd a) (snd b)

(** val is_space : n -> bool **)

let is_space c =
  (||) (N.eqb c (Npos (XO (XO (XO (XO (XO XH)))))))
    ((&&) (N.leb (Npos (XI (XO (XO XH)))) c)
      (N.leb c (Npos (XI (XO (XI XH))))))

(** val trim_start : str -> str **)

let rec trim_start s = match s with
| [] -> []
| c :: s' -> if is_space c then trim_start s' else s

(** val trim : str -> str **)

let trim s =
  rev (trim_start (rev (trim_start s)))

(** val parse_push : str option -> str option option **)

let parse_push = function
| Some e ->
  let e' = trim e in if starts_with http_str e' then Some (Some e') else None
| None -> Some None

(** val no_touch : n -> bool **)

let no_touch _ =
  false

(** val touch1 : n -> n -> bool **)

let touch1 =
  N.eqb

(** val touch_list : n list -> n -> bool **)

let touch_list l v =
  existsb (N.eqb v) l

(** val parse_all : ('a1 -> 'a2 option) -> 'a1 list -> 'a2 list option **)

let rec parse_all f = function
| [] -> Some []
| x :: l' ->
  (match f x with
   | Some y ->
     (match parse_all f l' with
      | Some r -> Some (y :: r)
      | None -> None)
   | None -> None)

(** val parse_mods : n -> str list -> z list -> (n * n option) list option **)

let rec parse_mods now ids secs =
  match ids with
  | [] -> Some []
  | i :: ids' ->
    (match secs with
     | [] -> Some []
     | sc :: secs' ->
       (match parse_u64 i with
        | Some a ->
          (match parse_ext sc with
           | ExtErr -> None
           | ExtNack ->
             (match parse_mods now ids' secs' with
              | Some r -> Some ((a, None) :: r)
              | None -> None)
           | ExtSecs n0 ->
             (match parse_mods now ids' secs' with
              | Some r ->
                Some ((a, (Some
                  (round_deadline (N.add now (N.mul n0 ns_per_s))))) :: r)
              | None -> None))
        | None -> None))

(** val mk_msgs : n -> n -> n -> raw_msg list -> msg list **)

let rec mk_msgs tid ctr pt = function
| [] -> []
| r :: l' ->
  let (d, a) = r in
  { m_id = (message_id tid (N.add ctr (Npos XH))); m_data = d; m_attrs =
  (isort (fun x y -> str_ltb (fst x) (fst y)) a); m_pt =
  pt } :: (mk_msgs tid (N.add ctr (Npos XH)) pt l')

(** val set_topic_subs : topic -> (name * n) list -> topic **)

let set_topic_subs t l =
  { t_name = t.t_name; t_uid = t.t_uid; t_subs = l; t_next_msg =
    t.t_next_msg }

(** val set_topic_next : topic -> n -> topic **)

let set_topic_next t n0 =
  { t_name = t.t_name; t_uid = t.t_uid; t_subs = t.t_subs; t_next_msg = n0 }

(** val attached : name -> (name * n) list -> bool **)

let attached n0 l =
  amem name_eqb n0 l

(** val release_consumers : n -> cons -> cons **)

let release_consumers u c =
  { c_streams =
    (stream_terminate (fun st -> N.eqb st.st_sub u) nOT_FOUND c.c_streams);
    c_waiters = (filter (fun w -> negb (N.eqb (fst w) u)) c.c_waiters);
    c_done =
    (app c.c_done
      (flat_map (fun w ->
        if N.eqb (fst w) u
        then (match snd w with
              | CStream _ -> []
              | CPull (id, _, _) -> (id, (Inl nOT_FOUND)) :: [])
        else []) c.c_waiters)) }

(** val unpark_stream : n -> cons -> cons **)

let unpark_stream sid c =
  { c_streams = c.c_streams; c_waiters =
    (filter (fun w ->
      match snd w with
      | CStream x -> negb (N.eqb x sid)
      | CPull (_, _, _) -> true) c.c_waiters); c_done = c.c_done }

(** val park : n -> consumer -> cons -> cons **)

let park u k c =
  { c_streams = c.c_streams; c_waiters = (app c.c_waiters ((u, k) :: []));
    c_done = c.c_done }

(** val pull_limit_ns : n **)

let pull_limit_ns =
  N.mul (Npos (XO (XO (XI (XI (XO (XI (XO (XO XH))))))))) ns_per_s

(** val rotate_waiter : cons -> n -> cons **)

let rotate_waiter c u =
  match first_waiter u c.c_waiters with
  | Some p ->
    let (k, rest) = p in
    { c_streams = c.c_streams; c_waiters = (app rest ((u, k) :: []));
    c_done = c.c_done }
  | None -> c

(** val handle : server -> req -> (server * resp) * (n -> bool) **)

let handle sv r =
  let now = sv.sv_now in
  (match r with
   | RCreateTopic n0 ->
     (match parse_topic_name n0 with
      | Some tn ->
        (match find_topic tn sv.sv_topics with
         | Some _ -> ((sv, (PErr aLREADY_EXISTS)), no_touch)
         | None ->
           let uid = N.add sv.sv_tnext (Npos XH) in
           let t = { t_name = tn; t_uid = uid; t_subs = []; t_next_msg = N0 }
           in
           (({ sv_now = now; sv_topics = (app sv.sv_topics (t :: []));
           sv_tnext = uid; sv_subs = sv.sv_subs; sv_snext = sv.sv_snext;
           sv_reg = sv.sv_reg; sv_ptnext = sv.sv_ptnext; sv_cons =
           sv.sv_cons }, (PTopic (show_topic_name tn))), no_touch))
      | None -> ((sv, (PErr iNVALID_ARGUMENT)), no_touch))
   | RGetTopic n0 ->
     (match parse_topic_name n0 with
      | Some tn ->
        (match find_topic tn sv.sv_topics with
         | Some t -> ((sv, (PTopic (show_topic_name t.t_name))), no_touch)
         | None -> ((sv, (PErr nOT_FOUND)), no_touch))
      | None -> ((sv, (PErr iNVALID_ARGUMENT)), no_touch))
   | RDeleteTopic n0 ->
     (match parse_topic_name n0 with
      | Some tn ->
        (match find_topic tn sv.sv_topics with
         | Some t ->
           (((with_topics sv (del_topic t.t_uid sv.sv_topics)), POk),
             no_touch)
         | None -> ((sv, (PErr nOT_FOUND)), no_touch))
      | None -> ((sv, (PErr iNVALID_ARGUMENT)), no_touch))
   | RListTopics (project, size0, tok) ->
     (match parse_paging size0 tok with
      | Some pg ->
        (match parse_project project with
         | Some p ->
           let all =
             isort uid_ltb_topic
               (filter (fun t -> str_eqb (fst t.t_name) p) sv.sv_topics)
           in
           let (items, next) = page_of pg all in
           ((sv, (PNames ((map (fun t -> show_topic_name t.t_name) items),
           (next_token next)))), no_touch)
         | None -> ((sv, (PErr iNVALID_ARGUMENT)), no_touch))
      | None -> ((sv, (PErr iNVALID_ARGUMENT)), no_touch))
   | RListTopicSubs (n0, size0, tok) ->
     (match parse_topic_name n0 with
      | Some tn ->
        (match parse_paging size0 tok with
         | Some pg ->
           (match find_topic tn sv.sv_topics with
            | Some t ->
              let all = isort snd_ltb t.t_subs in
              let (items, next) = page_of pg all in
              ((sv, (PNames ((map (fun e -> show_sub_name (fst e)) items),
              (next_token next)))), no_touch)
            | None -> ((sv, (PErr nOT_FOUND)), no_touch))
         | None -> ((sv, (PErr iNVALID_ARGUMENT)), no_touch))
      | None -> ((sv, (PErr iNVALID_ARGUMENT)), no_touch))
   | RCreateSub (n0, topic0, ackdl, push) ->
     (match parse_topic_name topic0 with
      | Some tn ->
        (match parse_sub_name n0 with
         | Some sn ->
           (match parse_push push with
            | Some pcfg ->
              (match find_topic tn sv.sv_topics with
               | Some t ->
                 if negb (str_eqb (fst tn) (fst sn))
                 then ((sv, (PErr iNVALID_ARGUMENT)), no_touch)
                 else (match find_sub sn sv.sv_subs with
                       | Some _ -> ((sv, (PErr aLREADY_EXISTS)), no_touch)
                       | None ->
                         let uid = N.add sv.sv_snext (Npos XH) in
                         let s =
                           sub_new sn uid t.t_uid (effective_ackdl ackdl) pcfg
                         in
                         let reg' =
                           match pcfg with
                           | Some e ->
                             if amem name_eqb sn sv.sv_reg
                             then sv.sv_reg
                             else app sv.sv_reg ((sn, e) :: [])
                           | None -> sv.sv_reg
                         in
                         let ts' =
                           upd_topic t.t_uid (fun t0 ->
                             if attached sn t0.t_subs
                             then t0
                             else set_topic_subs t0
                                    (app t0.t_subs ((sn, uid) :: [])))
                             sv.sv_topics
                         in
                         let sv' = { sv_now = now; sv_topics = ts';
                           sv_tnext = sv.sv_tnext; sv_subs =
                           (app sv.sv_subs (s :: [])); sv_snext = uid;
                           sv_reg = reg'; sv_ptnext = sv.sv_ptnext; sv_cons =
                           sv.sv_cons }
                         in
                         ((sv', (PSub (sub_resource sv' s))), (touch1 uid)))
               | None -> ((sv, (PErr nOT_FOUND)), no_touch))
            | None -> ((sv, (PErr iNVALID_ARGUMENT)), no_touch))
         | None -> ((sv, (PErr iNVALID_ARGUMENT)), no_touch))
      | None -> ((sv, (PErr iNVALID_ARGUMENT)), no_touch))
   | RGetSub n0 ->
     (match parse_sub_name n0 with
      | Some sn ->
        (match find_sub sn sv.sv_subs with
         | Some s -> ((sv, (PSub (sub_resource sv s))), (touch1 s.s_uid))
         | None -> ((sv, (PErr nOT_FOUND)), no_touch))
      | None -> ((sv, (PErr iNVALID_ARGUMENT)), no_touch))
   | RDeleteSub n0 ->
     (match parse_sub_name n0 with
      | Some sn ->
        (match find_sub sn sv.sv_subs with
         | Some s ->
           let ts' =
             upd_topic s.s_topic (fun t0 ->
               set_topic_subs t0 (aremove name_eqb sn t0.t_subs)) sv.sv_topics
           in
           (({ sv_now = now; sv_topics = ts'; sv_tnext = sv.sv_tnext;
           sv_subs = (del_sub s.s_uid sv.sv_subs); sv_snext = sv.sv_snext;
           sv_reg = (aremove name_eqb sn sv.sv_reg); sv_ptnext =
           sv.sv_ptnext; sv_cons = (release_consumers s.s_uid sv.sv_cons) },
           POk), no_touch)
         | None -> ((sv, (PErr nOT_FOUND)), no_touch))
      | None -> ((sv, (PErr iNVALID_ARGUMENT)), no_touch))
   | RListSubs (project, size0, tok) ->
     (match parse_paging size0 tok with
      | Some pg ->
        (match parse_project project with
         | Some p ->
           let all =
             isort uid_ltb_sub
               (filter (fun s -> str_eqb (fst s.s_name) p) sv.sv_subs)
           in
           let (items, next) = page_of pg all in
           ((sv, (PSubs ((map (sub_resource sv) items), (next_token next)))),
           (touch_list (map (fun s -> s.s_uid) items)))
         | None -> ((sv, (PErr iNVALID_ARGUMENT)), no_touch))
      | None -> ((sv, (PErr iNVALID_ARGUMENT)), no_touch))
   | RPublish (n0, raws) ->
     (match parse_topic_name n0 with
      | Some tn ->
        (match find_topic tn sv.sv_topics with
         | Some t ->
           let ms = mk_msgs t.t_uid t.t_next_msg sv.sv_ptnext raws in
           let targets = map snd t.t_subs in
           let ss' =
             map (fun s ->
               if existsb (N.eqb s.s_uid) targets then sub_post ms s else s)
               sv.sv_subs
           in
           (({ sv_now = now; sv_topics =
           (upd_topic t.t_uid (fun t0 ->
             set_topic_next t0 (N.add t0.t_next_msg (len_N raws)))
             sv.sv_topics); sv_tnext = sv.sv_tnext; sv_subs = ss'; sv_snext =
           sv.sv_snext; sv_reg = sv.sv_reg; sv_ptnext =
           (N.add sv.sv_ptnext (Npos XH)); sv_cons =
           (if is_nil raws
            then fold_left rotate_waiter targets sv.sv_cons
            else sv.sv_cons) }, (PIds (map (fun m -> m.m_id) ms))),
           (touch_list targets))
         | None -> ((sv, (PErr nOT_FOUND)), no_touch))
      | None -> ((sv, (PErr iNVALID_ARGUMENT)), no_touch))
   | RPull (n0, max0, _) ->
     (match parse_sub_name n0 with
      | Some sn ->
        (match find_sub sn sv.sv_subs with
         | Some s ->
           (((with_subs sv
               (upd_sub s.s_uid (fun s0 ->
                 fst (sub_pull (as_u16 max0) now s0)) sv.sv_subs)), (PMsgs
             (snd (sub_pull (as_u16 max0) now s)))), (touch1 s.s_uid))
         | None -> ((sv, (PErr nOT_FOUND)), no_touch))
      | None -> ((sv, (PErr iNVALID_ARGUMENT)), no_touch))
   | RAck (n0, ids) ->
     (match parse_all parse_u64 ids with
      | Some acks ->
        (match parse_sub_name n0 with
         | Some sn ->
           (match find_sub sn sv.sv_subs with
            | Some s ->
              (((with_subs sv (upd_sub s.s_uid (sub_ack acks) sv.sv_subs)),
                POk), (touch1 s.s_uid))
            | None -> ((sv, (PErr nOT_FOUND)), no_touch))
         | None -> ((sv, (PErr iNVALID_ARGUMENT)), no_touch))
      | None -> ((sv, (PErr iNVALID_ARGUMENT)), no_touch))
   | RModify (n0, secs, ids) ->
     (match parse_mods now ids (map (fun _ -> secs) ids) with
      | Some mods ->
        (match parse_sub_name n0 with
         | Some sn ->
           (match find_sub sn sv.sv_subs with
            | Some s ->
              (((with_subs sv (upd_sub s.s_uid (sub_modify mods) sv.sv_subs)),
                POk), (touch1 s.s_uid))
            | None -> ((sv, (PErr nOT_FOUND)), no_touch))
         | None -> ((sv, (PErr iNVALID_ARGUMENT)), no_touch))
      | None -> ((sv, (PErr iNVALID_ARGUMENT)), no_touch))
   | RAdvance d ->
     (({ sv_now = (N.add now d); sv_topics = sv.sv_topics; sv_tnext =
       sv.sv_tnext; sv_subs = sv.sv_subs; sv_snext = sv.sv_snext; sv_reg =
       sv.sv_reg; sv_ptnext = sv.sv_ptnext; sv_cons = sv.sv_cons }, PNone),
       no_touch)
   | RStats n0 ->
     (match parse_sub_name n0 with
      | Some sn ->
        (match find_sub sn sv.sv_subs with
         | Some s ->
           ((sv, (PStats ((sub_outstanding s), (sub_backlog_len s),
             (match topic_by_uid s.s_topic sv.sv_topics with
              | Some t -> show_topic_name t.t_name
              | None -> show_topic_name deleted_topic_name)))),
             (touch1 s.s_uid))
         | None -> ((sv, (PErr nOT_FOUND)), no_touch))
      | None -> ((sv, (PErr iNVALID_ARGUMENT)), no_touch))
   | RReg ->
     ((sv, (PReg
       (map (fun e -> ((show_sub_name (fst e)), (snd e)))
         (isort (fun a b ->
           str_ltb (show_sub_name (fst a)) (show_sub_name (fst b))) sv.sv_reg)))),
       no_touch)
   | RStreamOpen (sid, n0, maxmsgs, _) ->
     (match parse_sub_name n0 with
      | Some sn ->
        (match find_sub sn sv.sv_subs with
         | Some s ->
           (match try_u16 maxmsgs with
            | Some mx ->
              let st = { st_id = sid; st_sub = s.s_uid; st_subname = sn;
                st_max = mx; st_pending = []; st_term = None; st_reqopen =
                true }
              in
              (((with_cons sv
                  (park s.s_uid (CStream sid)
                    (set_streams sv.sv_cons (app (sv_streams sv) (st :: []))))),
              POk), (touch1 s.s_uid))
            | None -> ((sv, (PErr iNVALID_ARGUMENT)), no_touch))
         | None -> ((sv, (PErr nOT_FOUND)), no_touch))
      | None -> ((sv, (PErr iNVALID_ARGUMENT)), no_touch))
   | RStreamSend (sid, n0, maxmsgs, maxbytes, acks, modids, secs) ->
     (match find (fun st -> N.eqb sid st.st_id) (sv_streams sv) with
      | Some st ->
        (match st.st_term with
         | Some _ -> ((sv, PNone), no_touch)
         | None ->
           if negb st.st_reqopen
           then ((sv, PNone), no_touch)
           else let fail = fun code ->
                  (((with_cons sv
                      (unpark_stream sid
                        (set_streams sv.sv_cons
                          (stream_terminate (fun x -> N.eqb sid x.st_id) code
                            (sv_streams sv))))), PNone), no_touch)
                in
                if negb (is_nil n0)
                then fail iNVALID_ARGUMENT
                else if Z.ltb Z0 maxbytes
                     then fail iNVALID_ARGUMENT
                     else if Z.ltb Z0 maxmsgs
                          then fail iNVALID_ARGUMENT
                          else if negb (Nat.eqb (length secs) (length modids))
                               then fail iNVALID_ARGUMENT
                               else (match parse_all parse_u64 acks with
                                     | Some aids ->
                                       (match parse_mods now modids secs with
                                        | Some mods ->
                                          (((with_subs sv
                                              (upd_sub st.st_sub (fun s ->
                                                sub_modify mods
                                                  (sub_ack aids s))
                                                sv.sv_subs)), PNone),
                                            (touch1 st.st_sub))
                                        | None -> fail iNVALID_ARGUMENT)
                                     | None -> fail iNVALID_ARGUMENT))
      | None -> ((sv, PNone), no_touch))
   | RStreamClose sid ->
     (((with_streams sv
         (map (fun x ->
           if N.eqb sid x.st_id
           then { st_id = x.st_id; st_sub = x.st_sub; st_subname =
                  x.st_subname; st_max = x.st_max; st_pending = x.st_pending;
                  st_term = x.st_term; st_reqopen = false }
           else x) (sv_streams sv))), PNone), no_touch)
   | RStreamRead sid ->
     (match find (fun st -> N.eqb sid st.st_id) (sv_streams sv) with
      | Some st ->
        (((with_streams sv
            (map (fun x ->
              if N.eqb sid x.st_id
              then { st_id = x.st_id; st_sub = x.st_sub; st_subname =
                     x.st_subname; st_max = x.st_max; st_pending = [];
                     st_term = x.st_term; st_reqopen = x.st_reqopen }
              else x) (sv_streams sv))), (PStream (st.st_pending,
          st.st_term))), no_touch)
      | None -> ((sv, (PStream ([], None))), no_touch))
   | RPullBg (opid, n0, max0) ->
     let finish0 = fun r0 ->
       (((with_cons sv { c_streams = (sv_streams sv); c_waiters =
           sv.sv_cons.c_waiters; c_done =
           (app sv.sv_cons.c_done ((opid, r0) :: [])) }), PNone), no_touch)
     in
     (match parse_sub_name n0 with
      | Some sn ->
        (match find_sub sn sv.sv_subs with
         | Some s ->
           (((with_cons sv
               (park s.s_uid (CPull (opid, (as_u16 max0),
                 (N.add now pull_limit_ns))) sv.sv_cons)), PNone),
             (touch1 s.s_uid))
         | None -> finish0 (Inl nOT_FOUND))
      | None -> finish0 (Inl iNVALID_ARGUMENT))
   | RJoin opid ->
     (match alookup N.eqb opid sv.sv_cons.c_done with
      | Some r0 ->
        (((with_cons sv { c_streams = (sv_streams sv); c_waiters =
            sv.sv_cons.c_waiters; c_done =
            (aremove N.eqb opid sv.sv_cons.c_done) }), (PJoined r0)),
          no_touch)
      | None -> ((sv, PPending), no_touch))
   | RPushSub (sn, script) ->
     (match find_sub sn sv.sv_subs with
      | Some s ->
        let ls =
          snd
            (sub_pull (Npos (XO (XO (XO (XI (XO (XI (XI (XI (XI XH))))))))))
              now s)
        in
        let posts =
          combine ls
            (app script
              (repeat (OStatus (Npos (XO (XO (XO (XI (XO (XO (XI XH)))))))))
                (length ls)))
        in
        let settle_one = fun x p ->
          match snd p with
          | OHang -> x
          | x0 ->
            if accepted x0
            then sub_ack ((fst p).l_ack :: []) x
            else sub_modify (((fst p).l_ack, None) :: []) x
        in
        (((with_subs sv
            (upd_sub s.s_uid (fun s0 ->
              fold_left settle_one
                (combine
                  (snd
                    (sub_pull (Npos (XO (XO (XO (XI (XO (XI (XI (XI (XI
                      XH)))))))))) now s0))
                  (app script
                    (repeat (OStatus (Npos (XO (XO (XO (XI (XO (XO (XI
                      XH)))))))))
                      (length
                        (snd
                          (sub_pull (Npos (XO (XO (XO (XI (XO (XI (XI (XI (XI
                            XH)))))))))) now s0))))))
                (fst
                  (sub_pull (Npos (XO (XO (XO (XI (XO (XI (XI (XI (XI
                    XH)))))))))) now s0))) sv.sv_subs)), (PPushed posts)),
        (touch1 s.s_uid))
      | None -> ((sv, (PPushed [])), no_touch)))

(** val api_step : server -> req -> server * resp **)

let api_step sv r =
  let (p0, touched) = handle sv r in
  let (sv1, p) = p0 in ((settle touched sv1), p)

(** val split_on : n -> str -> str list **)

let rec split_on c = function
| [] -> [] :: []
| d :: s' ->
  if N.eqb d c
  then [] :: (split_on c s')
  else (match split_on c s' with
        | [] -> (d :: []) :: []
        | w :: ws -> (d :: w) :: ws)

(** val kw : string -> str **)

let kw =
  bytes_of_string

(** val bind : 'a1 option -> ('a1 -> 'a2 option) -> 'a2 option **)

let bind o f =
  match o with
  | Some x -> f x
  | None -> None

(** val p_str : str -> str option **)

let p_str =
  unhex_field

(** val p_int : str -> z option **)

let p_int =
  parse_int

(** val p_nat : str -> n option **)

let p_nat t =
  digits_value t N0

(** val p_strs : nat -> str list -> (str list * str list) option **)

let rec p_strs n0 ts =
  match n0 with
  | O -> Some ([], ts)
  | S n' ->
    (match ts with
     | [] -> None
     | t :: ts' ->
       bind (p_str t) (fun x ->
         bind (p_strs n' ts') (fun r -> Some ((x :: (fst r)), (snd r)))))

(** val p_ints : nat -> str list -> (z list * str list) option **)

let rec p_ints n0 ts =
  match n0 with
  | O -> Some ([], ts)
  | S n' ->
    (match ts with
     | [] -> None
     | t :: ts' ->
       bind (p_int t) (fun x ->
         bind (p_ints n' ts') (fun r -> Some ((x :: (fst r)), (snd r)))))

(** val p_pairs : nat -> str list -> ((str * str) list * str list) option **)

let rec p_pairs n0 ts =
  match n0 with
  | O -> Some ([], ts)
  | S n' ->
    (match ts with
     | [] -> None
     | k :: l ->
       (match l with
        | [] -> None
        | v :: ts' ->
          bind (p_str k) (fun a ->
            bind (p_str v) (fun b ->
              bind (p_pairs n' ts') (fun r -> Some (((a, b) :: (fst r)),
                (snd r)))))))

(** val p_msgs : nat -> str list -> (raw_msg list * str list) option **)

let rec p_msgs n0 ts =
  match n0 with
  | O -> Some ([], ts)
  | S n' ->
    (match ts with
     | [] -> None
     | d :: l ->
       (match l with
        | [] -> None
        | na :: ts' ->
          bind (p_str d) (fun data ->
            bind (p_nat na) (fun k ->
              bind (p_pairs (N.to_nat k) ts') (fun at_ ->
                bind (p_msgs n' (snd at_)) (fun r -> Some (((data,
                  (fst at_)) :: (fst r)), (snd r))))))))

(** val counted_strs : str list -> (str list * str list) option **)

let counted_strs = function
| [] -> None
| n0 :: ts' -> bind (p_nat n0) (fun k -> p_strs (N.to_nat k) ts')

(** val counted_ints : str list -> (z list * str list) option **)

let counted_ints = function
| [] -> None
| n0 :: ts' -> bind (p_nat n0) (fun k -> p_ints (N.to_nat k) ts')

(** val is_kw : string -> str -> bool **)

let is_kw s t =
  str_eqb (kw s) t

(** val parse_op : str list -> req option **)

let parse_op = function
| [] -> None
| op :: args ->
  if is_kw (String ((Ascii (true, true, false, false, false, false, true,
       false)), (String ((Ascii (false, false, true, false, true, false,
       true, false)), EmptyString)))) op
  then (match args with
        | [] -> None
        | n0 :: l ->
          (match l with
           | [] -> bind (p_str n0) (fun x -> Some (RCreateTopic x))
           | _ :: _ -> None))
  else if is_kw (String ((Ascii (true, true, true, false, false, false, true,
            false)), (String ((Ascii (false, false, true, false, true, false,
            true, false)), EmptyString)))) op
       then (match args with
             | [] -> None
             | n0 :: l ->
               (match l with
                | [] -> bind (p_str n0) (fun x -> Some (RGetTopic x))
                | _ :: _ -> None))
       else if is_kw (String ((Ascii (false, false, true, false, false,
                 false, true, false)), (String ((Ascii (false, false, true,
                 false, true, false, true, false)), EmptyString)))) op
            then (match args with
                  | [] -> None
                  | n0 :: l ->
                    (match l with
                     | [] -> bind (p_str n0) (fun x -> Some (RDeleteTopic x))
                     | _ :: _ -> None))
            else if is_kw (String ((Ascii (false, false, true, true, false,
                      false, true, false)), (String ((Ascii (false, false,
                      true, false, true, false, true, false)),
                      EmptyString)))) op
                 then (match args with
                       | [] -> None
                       | p :: l ->
                         (match l with
                          | [] -> None
                          | sz :: l0 ->
                            (match l0 with
                             | [] -> None
                             | tk :: l1 ->
                               (match l1 with
                                | [] ->
                                  bind (p_str p) (fun a ->
                                    bind (p_int sz) (fun b ->
                                      bind (p_str tk) (fun c -> Some
                                        (RListTopics (a, b, c)))))
                                | _ :: _ -> None))))
                 else if is_kw (String ((Ascii (false, false, true, true,
                           false, false, true, false)), (String ((Ascii
                           (false, false, true, false, true, false, true,
                           false)), (String ((Ascii (true, true, false,
                           false, true, false, true, false)),
                           EmptyString)))))) op
                      then (match args with
                            | [] -> None
                            | p :: l ->
                              (match l with
                               | [] -> None
                               | sz :: l0 ->
                                 (match l0 with
                                  | [] -> None
                                  | tk :: l1 ->
                                    (match l1 with
                                     | [] ->
                                       bind (p_str p) (fun a ->
                                         bind (p_int sz) (fun b ->
                                           bind (p_str tk) (fun c -> Some
                                             (RListTopicSubs (a, b, c)))))
                                     | _ :: _ -> None))))
                      else if is_kw (String ((Ascii (false, false, true,
                                true, false, false, true, false)), (String
                                ((Ascii (true, true, false, false, true,
                                false, true, false)), EmptyString)))) op
                           then (match args with
                                 | [] -> None
                                 | p :: l ->
                                   (match l with
                                    | [] -> None
                                    | sz :: l0 ->
                                      (match l0 with
                                       | [] -> None
                                       | tk :: l1 ->
                                         (match l1 with
                                          | [] ->
                                            bind (p_str p) (fun a ->
                                              bind (p_int sz) (fun b ->
                                                bind (p_str tk) (fun c ->
                                                  Some (RListSubs (a, b, c)))))
                                          | _ :: _ -> None))))
                           else if is_kw (String ((Ascii (true, true, false,
                                     false, false, false, true, false)),
                                     (String ((Ascii (true, true, false,
                                     false, true, false, true, false)),
                                     EmptyString)))) op
                                then (match args with
                                      | [] -> None
                                      | n0 :: l ->
                                        (match l with
                                         | [] -> None
                                         | t :: l0 ->
                                           (match l0 with
                                            | [] -> None
                                            | dl :: l1 ->
                                              (match l1 with
                                               | [] -> None
                                               | ep :: l2 ->
                                                 (match l2 with
                                                  | [] ->
                                                    bind (p_str n0) (fun a ->
                                                      bind (p_str t)
                                                        (fun b ->
                                                        bind (p_int dl)
                                                          (fun c ->
                                                          if str_eqb ep
                                                               ((Npos (XO (XI
                                                               (XI (XI (XI
                                                               (XI
                                                               XH))))))) :: [])
                                                          then Some
                                                                 (RCreateSub
                                                                 (a, b, c,
                                                                 None))
                                                          else bind
                                                                 (p_str ep)
                                                                 (fun e ->
                                                                 Some
                                                                 (RCreateSub
                                                                 (a, b, c,
                                                                 (Some e)))))))
                                                  | _ :: _ -> None)))))
                                else if is_kw (String ((Ascii (true, true,
                                          true, false, false, false, true,
                                          false)), (String ((Ascii (true,
                                          true, false, false, true, false,
                                          true, false)), EmptyString)))) op
                                     then (match args with
                                           | [] -> None
                                           | n0 :: l ->
                                             (match l with
                                              | [] ->
                                                bind (p_str n0) (fun x ->
                                                  Some (RGetSub x))
                                              | _ :: _ -> None))
                                     else if is_kw (String ((Ascii (false,
                                               false, true, false, false,
                                               false, true, false)), (String
                                               ((Ascii (true, true, false,
                                               false, true, false, true,
                                               false)), EmptyString)))) op
                                          then (match args with
                                                | [] -> None
                                                | n0 :: l ->
                                                  (match l with
                                                   | [] ->
                                                     bind (p_str n0)
                                                       (fun x -> Some
                                                       (RDeleteSub x))
                                                   | _ :: _ -> None))
                                          else if is_kw (String ((Ascii
                                                    (false, false, false,
                                                    false, true, false, true,
                                                    false)), (String ((Ascii
                                                    (true, false, true,
                                                    false, true, false, true,
                                                    false)), (String ((Ascii
                                                    (false, true, false,
                                                    false, false, false,
                                                    true, false)),
                                                    EmptyString)))))) op
                                               then (match args with
                                                     | [] -> None
                                                     | t :: l ->
                                                       (match l with
                                                        | [] -> None
                                                        | k :: rest ->
                                                          bind (p_str t)
                                                            (fun a ->
                                                            bind (p_nat k)
                                                              (fun n0 ->
                                                              bind
                                                                (p_msgs
                                                                  (N.to_nat
                                                                    n0) rest)
                                                                (fun m ->
                                                                match 
                                                                snd m with
                                                                | [] ->
                                                                  Some
                                                                    (RPublish
                                                                    (a,
                                                                    (fst m)))
                                                                | _ :: _ ->
                                                                  None)))))
                                               else if is_kw (String ((Ascii
                                                         (false, false,
                                                         false, false, true,
                                                         false, true,
                                                         false)), (String
                                                         ((Ascii (true,
                                                         false, true, false,
                                                         true, false, true,
                                                         false)), (String
                                                         ((Ascii (false,
                                                         true, false, false,
                                                         false, false, true,
                                                         false)), (String
                                                         ((Ascii (false,
                                                         true, true, true,
                                                         false, false, true,
                                                         false)),
                                                         EmptyString))))))))
                                                         op
                                                    then (match args with
                                                          | [] -> None
                                                          | t :: l ->
                                                            (match l with
                                                             | [] -> None
                                                             | k :: l0 ->
                                                               (match l0 with
                                                                | [] -> None
                                                                | d :: l1 ->
                                                                  (match l1 with
                                                                   | [] ->
                                                                    bind
                                                                    (p_str t)
                                                                    (fun a ->
                                                                    bind
                                                                    (p_nat k)
                                                                    (fun n0 ->
                                                                    bind
                                                                    (p_str d)
                                                                    (fun x ->
                                                                    Some
                                                                    (RPublish
                                                                    (a,
                                                                    (repeat
                                                                    (x, [])
                                                                    (N.to_nat
                                                                    n0)))))))
                                                                   | _ :: _ ->
                                                                    None))))
                                                    else if is_kw (String
                                                              ((Ascii (false,
                                                              false, false,
                                                              false, true,
                                                              false, true,
                                                              false)),
                                                              (String ((Ascii
                                                              (true, false,
                                                              true, false,
                                                              true, false,
                                                              true, false)),
                                                              (String ((Ascii
                                                              (false, false,
                                                              true, true,
                                                              false, false,
                                                              true, false)),
                                                              (String ((Ascii
                                                              (false, false,
                                                              true, true,
                                                              false, false,
                                                              true, false)),
                                                              EmptyString))))))))
                                                              op
                                                         then (match args with
                                                               | [] -> None
                                                               | s :: l ->
                                                                 (match l with
                                                                  | [] -> None
                                                                  | m :: l0 ->
                                                                    (match l0 with
                                                                    | [] ->
                                                                    None
                                                                    | ri :: l1 ->
                                                                    (match l1 with
                                                                    | [] ->
                                                                    bind
                                                                    (p_str s)
                                                                    (fun a ->
                                                                    bind
                                                                    (p_int m)
                                                                    (fun b ->
                                                                    bind
                                                                    (p_nat ri)
                                                                    (fun c ->
                                                                    Some
                                                                    (RPull
                                                                    (a, b,
                                                                    (negb
                                                                    (N.eqb c
                                                                    N0)))))))
                                                                    | _ :: _ ->
                                                                    None))))
                                                         else if is_kw
                                                                   (String
                                                                   ((Ascii
                                                                   (true,
                                                                   false,
                                                                   false,
                                                                   false,
                                                                   false,
                                                                   false,
                                                                   true,
                                                                   false)),
                                                                   (String
                                                                   ((Ascii
                                                                   (true,
                                                                   true,
                                                                   false,
                                                                   false,
                                                                   false,
                                                                   false,
                                                                   true,
                                                                   false)),
                                                                   (String
                                                                   ((Ascii
                                                                   (true,
                                                                   true,
                                                                   false,
                                                                   true,
                                                                   false,
                                                                   false,
                                                                   true,
                                                                   false)),
                                                                   EmptyString))))))
                                                                   op
                                                              then (match args with
                                                                    | [] ->
                                                                    None
                                                                    | s :: rest ->
                                                                    bind
                                                                    (p_str s)
                                                                    (fun a ->
                                                                    bind
                                                                    (counted_strs
                                                                    rest)
                                                                    (fun l ->
                                                                    match 
                                                                    snd l with
                                                                    | [] ->
                                                                    Some
                                                                    (RAck (a,
                                                                    (fst l)))
                                                                    | _ :: _ ->
                                                                    None)))
                                                              else if 
                                                                    is_kw
                                                                    (String
                                                                    ((Ascii
                                                                    (true,
                                                                    false,
                                                                    true,
                                                                    true,
                                                                    false,
                                                                    false,
                                                                    true,
                                                                    false)),
                                                                    (String
                                                                    ((Ascii
                                                                    (true,
                                                                    true,
                                                                    true,
                                                                    true,
                                                                    false,
                                                                    false,
                                                                    true,
                                                                    false)),
                                                                    (String
                                                                    ((Ascii
                                                                    (false,
                                                                    false,
                                                                    true,
                                                                    false,
                                                                    false,
                                                                    false,
                                                                    true,
                                                                    false)),
                                                                    EmptyString))))))
                                                                    op
                                                                   then 
                                                                    (match args with
                                                                    | [] ->
                                                                    None
                                                                    | s :: l ->
                                                                    (match l with
                                                                    | [] ->
                                                                    None
                                                                    | sc :: rest ->
                                                                    bind
                                                                    (p_str s)
                                                                    (fun a ->
                                                                    bind
                                                                    (p_int sc)
                                                                    (fun b ->
                                                                    bind
                                                                    (counted_strs
                                                                    rest)
                                                                    (fun l0 ->
                                                                    match 
                                                                    snd l0 with
                                                                    | [] ->
                                                                    Some
                                                                    (RModify
                                                                    (a, b,
                                                                    (fst l0)))
                                                                    | _ :: _ ->
                                                                    None)))))
                                                                   else 
                                                                    if 
                                                                    is_kw
                                                                    (String
                                                                    ((Ascii
                                                                    (true,
                                                                    false,
                                                                    false,
                                                                    false,
                                                                    false,
                                                                    false,
                                                                    true,
                                                                    false)),
                                                                    (String
                                                                    ((Ascii
                                                                    (false,
                                                                    false,
                                                                    true,
                                                                    false,
                                                                    false,
                                                                    false,
                                                                    true,
                                                                    false)),
                                                                    (String
                                                                    ((Ascii
                                                                    (false,
                                                                    true,
                                                                    true,
                                                                    false,
                                                                    true,
                                                                    false,
                                                                    true,
                                                                    false)),
                                                                    EmptyString))))))
                                                                    op
                                                                    then 
                                                                    (match args with
                                                                    | [] ->
                                                                    None
                                                                    | d :: l ->
                                                                    (match l with
                                                                    | [] ->
                                                                    bind
                                                                    (p_nat d)
                                                                    (fun x ->
                                                                    Some
                                                                    (RAdvance
                                                                    x))
                                                                    | _ :: _ ->
                                                                    None))
                                                                    else 
                                                                    if 
                                                                    is_kw
                                                                    (String
                                                                    ((Ascii
                                                                    (true,
                                                                    true,
                                                                    false,
                                                                    false,
                                                                    true,
                                                                    false,
                                                                    true,
                                                                    false)),
                                                                    (String
                                                                    ((Ascii
                                                                    (false,
                                                                    false,
                                                                    true,
                                                                    false,
                                                                    true,
                                                                    false,
                                                                    true,
                                                                    false)),
                                                                    (String
                                                                    ((Ascii
                                                                    (true,
                                                                    false,
                                                                    false,
                                                                    false,
                                                                    false,
                                                                    false,
                                                                    true,
                                                                    false)),
                                                                    (String
                                                                    ((Ascii
                                                                    (false,
                                                                    false,
                                                                    true,
                                                                    false,
                                                                    true,
                                                                    false,
                                                                    true,
                                                                    false)),
                                                                    (String
                                                                    ((Ascii
                                                                    (true,
                                                                    true,
                                                                    false,
                                                                    false,
                                                                    true,
                                                                    false,
                                                                    true,
                                                                    false)),
                                                                    EmptyString))))))))))
                                                                    op
                                                                    then 
                                                                    (match args with
                                                                    | [] ->
                                                                    None
                                                                    | n0 :: l ->
                                                                    (match l with
                                                                    | [] ->
                                                                    bind
                                                                    (p_str n0)
                                                                    (fun x ->
                                                                    Some
                                                                    (RStats
                                                                    x))
                                                                    | _ :: _ ->
                                                                    None))
                                                                    else 
                                                                    if 
                                                                    is_kw
                                                                    (String
                                                                    ((Ascii
                                                                    (false,
                                                                    true,
                                                                    false,
                                                                    false,
                                                                    true,
                                                                    false,
                                                                    true,
                                                                    false)),
                                                                    (String
                                                                    ((Ascii
                                                                    (true,
                                                                    false,
                                                                    true,
                                                                    false,
                                                                    false,
                                                                    false,
                                                                    true,
                                                                    false)),
                                                                    (String
                                                                    ((Ascii
                                                                    (true,
                                                                    true,
                                                                    true,
                                                                    false,
                                                                    false,
                                                                    false,
                                                                    true,
                                                                    false)),
                                                                    EmptyString))))))
                                                                    op
                                                                    then 
                                                                    (match args with
                                                                    | [] ->
                                                                    Some RReg
                                                                    | _ :: _ ->
                                                                    None)
                                                                    else 
                                                                    if 
                                                                    is_kw
                                                                    (String
                                                                    ((Ascii
                                                                    (true,
                                                                    true,
                                                                    false,
                                                                    false,
                                                                    true,
                                                                    false,
                                                                    true,
                                                                    false)),
                                                                    (String
                                                                    ((Ascii
                                                                    (true,
                                                                    true,
                                                                    true,
                                                                    true,
                                                                    false,
                                                                    false,
                                                                    true,
                                                                    false)),
                                                                    EmptyString))))
                                                                    op
                                                                    then 
                                                                    (match args with
                                                                    | [] ->
                                                                    None
                                                                    | sid :: l ->
                                                                    (match l with
                                                                    | [] ->
                                                                    None
                                                                    | s :: l0 ->
                                                                    (match l0 with
                                                                    | [] ->
                                                                    None
                                                                    | mm :: l1 ->
                                                                    (match l1 with
                                                                    | [] ->
                                                                    None
                                                                    | mb :: l2 ->
                                                                    (match l2 with
                                                                    | [] ->
                                                                    None
                                                                    | _ :: l3 ->
                                                                    (match l3 with
                                                                    | [] ->
                                                                    bind
                                                                    (p_nat
                                                                    sid)
                                                                    (fun a ->
                                                                    bind
                                                                    (p_str s)
                                                                    (fun b ->
                                                                    bind
                                                                    (p_int mm)
                                                                    (fun c ->
                                                                    bind
                                                                    (p_int mb)
                                                                    (fun d ->
                                                                    Some
                                                                    (RStreamOpen
                                                                    (a, b, c,
                                                                    d))))))
                                                                    | _ :: _ ->
                                                                    None))))))
                                                                    else 
                                                                    if 
                                                                    is_kw
                                                                    (String
                                                                    ((Ascii
                                                                    (true,
                                                                    true,
                                                                    false,
                                                                    false,
                                                                    true,
                                                                    false,
                                                                    true,
                                                                    false)),
                                                                    (String
                                                                    ((Ascii
                                                                    (true,
                                                                    true,
                                                                    false,
                                                                    false,
                                                                    true,
                                                                    false,
                                                                    true,
                                                                    false)),
                                                                    EmptyString))))
                                                                    op
                                                                    then 
                                                                    (match args with
                                                                    | [] ->
                                                                    None
                                                                    | sid :: l ->
                                                                    (match l with
                                                                    | [] ->
                                                                    None
                                                                    | s :: l0 ->
                                                                    (match l0 with
                                                                    | [] ->
                                                                    None
                                                                    | mm :: l1 ->
                                                                    (match l1 with
                                                                    | [] ->
                                                                    None
                                                                    | mb :: rest ->
                                                                    bind
                                                                    (p_nat
                                                                    sid)
                                                                    (fun a ->
                                                                    bind
                                                                    (p_str s)
                                                                    (fun b ->
                                                                    bind
                                                                    (p_int mm)
                                                                    (fun c ->
                                                                    bind
                                                                    (p_int mb)
                                                                    (fun d ->
                                                                    bind
                                                                    (counted_strs
                                                                    rest)
                                                                    (fun l2 ->
                                                                    bind
                                                                    (counted_strs
                                                                    (snd l2))
                                                                    (fun l3 ->
                                                                    bind
                                                                    (counted_ints
                                                                    (snd l3))
                                                                    (fun l4 ->
                                                                    match 
                                                                    snd l4 with
                                                                    | [] ->
                                                                    Some
                                                                    (RStreamSend
                                                                    (a, b, c,
                                                                    d,
                                                                    (fst l2),
                                                                    (fst l3),
                                                                    (fst l4)))
                                                                    | _ :: _ ->
                                                                    None)))))))))))
                                                                    else 
                                                                    if 
                                                                    is_kw
                                                                    (String
                                                                    ((Ascii
                                                                    (true,
                                                                    true,
                                                                    false,
                                                                    false,
                                                                    true,
                                                                    false,
                                                                    true,
                                                                    false)),
                                                                    (String
                                                                    ((Ascii
                                                                    (true,
                                                                    true,
                                                                    false,
                                                                    false,
                                                                    false,
                                                                    false,
                                                                    true,
                                                                    false)),
                                                                    EmptyString))))
                                                                    op
                                                                    then 
                                                                    (match args with
                                                                    | [] ->
                                                                    None
                                                                    | sid :: l ->
                                                                    (match l with
                                                                    | [] ->
                                                                    bind
                                                                    (p_nat
                                                                    sid)
                                                                    (fun a ->
                                                                    Some
                                                                    (RStreamClose
                                                                    a))
                                                                    | _ :: _ ->
                                                                    None))
                                                                    else 
                                                                    if 
                                                                    is_kw
                                                                    (String
                                                                    ((Ascii
                                                                    (true,
                                                                    true,
                                                                    false,
                                                                    false,
                                                                    true,
                                                                    false,
                                                                    true,
                                                                    false)),
                                                                    (String
                                                                    ((Ascii
                                                                    (false,
                                                                    true,
                                                                    false,
                                                                    false,
                                                                    true,
                                                                    false,
                                                                    true,
                                                                    false)),
                                                                    EmptyString))))
                                                                    op
                                                                    then 
                                                                    (match args with
                                                                    | [] ->
                                                                    None
                                                                    | sid :: l ->
                                                                    (match l with
                                                                    | [] ->
                                                                    bind
                                                                    (p_nat
                                                                    sid)
                                                                    (fun a ->
                                                                    Some
                                                                    (RStreamRead
                                                                    a))
                                                                    | _ :: _ ->
                                                                    None))
                                                                    else 
                                                                    if 
                                                                    is_kw
                                                                    (String
                                                                    ((Ascii
                                                                    (false,
                                                                    true,
                                                                    false,
                                                                    true,
                                                                    false,
                                                                    false,
                                                                    true,
                                                                    false)),
                                                                    (String
                                                                    ((Ascii
                                                                    (true,
                                                                    true,
                                                                    true,
                                                                    true,
                                                                    false,
                                                                    false,
                                                                    true,
                                                                    false)),
                                                                    (String
                                                                    ((Ascii
                                                                    (true,
                                                                    false,
                                                                    false,
                                                                    true,
                                                                    false,
                                                                    false,
                                                                    true,
                                                                    false)),
                                                                    (String
                                                                    ((Ascii
                                                                    (false,
                                                                    true,
                                                                    true,
                                                                    true,
                                                                    false,
                                                                    false,
                                                                    true,
                                                                    false)),
                                                                    EmptyString))))))))
                                                                    op
                                                                    then 
                                                                    (match args with
                                                                    | [] ->
                                                                    None
                                                                    | id :: l ->
                                                                    (match l with
                                                                    | [] ->
                                                                    bind
                                                                    (p_nat id)
                                                                    (fun a ->
                                                                    Some
                                                                    (RJoin a))
                                                                    | _ :: _ ->
                                                                    None))
                                                                    else None

(** val sp : n **)

let sp =
  Npos (XO (XO (XO (XO (XO XH)))))

(** val join_sp : str list -> str **)

let rec join_sp = function
| [] -> []
| x :: l' -> (match l' with
              | [] -> x
              | _ :: _ -> app x (sp :: (join_sp l')))

(** val r_num : n -> str **)

let r_num =
  dec_of_N

(** val r_str : str -> str **)

let r_str =
  hex_field

(** val r_pushcfg : str option -> str **)

let r_pushcfg = function
| Some e -> hex_field e
| None -> (Npos (XO (XI (XI (XI (XI (XI XH))))))) :: []

(** val rank_of : n -> n list -> n -> n option **)

let rec rank_of pt seen i =
  match seen with
  | [] -> None
  | x :: seen' ->
    if N.eqb x pt then Some i else rank_of pt seen' (N.add i (Npos XH))

(** val r_msg : n list -> lease -> str list * n list **)

let r_msg seen l =
  let m = l.l_msg in
  (match rank_of m.m_pt seen N0 with
   | Some i ->
     ((app
        ((r_str (dec_of_N l.l_ack)) :: ((r_str (dec_of_N m.m_id)) :: (
        (r_str m.m_data) :: ((r_num (len_N m.m_attrs)) :: []))))
        (app
          (flat_map (fun kv -> (r_str (fst kv)) :: ((r_str (snd kv)) :: []))
            m.m_attrs) ((r_num i) :: ((r_num N0) :: [])))), seen)
   | None ->
     let rk = len_N seen in
     let seen' = app seen (m.m_pt :: []) in
     ((app
        ((r_str (dec_of_N l.l_ack)) :: ((r_str (dec_of_N m.m_id)) :: (
        (r_str m.m_data) :: ((r_num (len_N m.m_attrs)) :: []))))
        (app
          (flat_map (fun kv -> (r_str (fst kv)) :: ((r_str (snd kv)) :: []))
            m.m_attrs) ((r_num rk) :: ((r_num N0) :: [])))), seen'))

(** val r_msgs : n list -> lease list -> str list * n list **)

let rec r_msgs seen = function
| [] -> ([], seen)
| l :: ls' ->
  let (a, s1) = r_msg seen l in let (b, s2) = r_msgs s1 ls' in ((app a b), s2)

(** val r_batches : n list -> lease list list -> str list * n list **)

let rec r_batches seen = function
| [] -> ([], seen)
| b :: bs' ->
  let (a, s1) = r_msgs seen b in
  let (r, s2) = r_batches s1 bs' in (((r_num (len_N b)) :: (app a r)), s2)

(** val r_subres : subres -> str list **)

let r_subres r =
  (r_str r.r_name) :: ((r_str r.r_topic) :: ((r_num r.r_ackdl) :: ((r_pushcfg
                                                                    r.r_push) :: [])))

(** val op_name : req -> str **)

let op_name = function
| RCreateTopic _ ->
  kw (String ((Ascii (true, true, false, false, false, false, true, false)),
    (String ((Ascii (false, false, true, false, true, false, true, false)),
    EmptyString))))
| RGetTopic _ ->
  kw (String ((Ascii (true, true, true, false, false, false, true, false)),
    (String ((Ascii (false, false, true, false, true, false, true, false)),
    EmptyString))))
| RDeleteTopic _ ->
  kw (String ((Ascii (false, false, true, false, false, false, true, false)),
    (String ((Ascii (false, false, true, false, true, false, true, false)),
    EmptyString))))
| RListTopics (_, _, _) ->
  kw (String ((Ascii (false, false, true, true, false, false, true, false)),
    (String ((Ascii (false, false, true, false, true, false, true, false)),
    EmptyString))))
| RListTopicSubs (_, _, _) ->
  kw (String ((Ascii (false, false, true, true, false, false, true, false)),
    (String ((Ascii (false, false, true, false, true, false, true, false)),
    (String ((Ascii (true, true, false, false, true, false, true, false)),
    EmptyString))))))
| RCreateSub (_, _, _, _) ->
  kw (String ((Ascii (true, true, false, false, false, false, true, false)),
    (String ((Ascii (true, true, false, false, true, false, true, false)),
    EmptyString))))
| RGetSub _ ->
  kw (String ((Ascii (true, true, true, false, false, false, true, false)),
    (String ((Ascii (true, true, false, false, true, false, true, false)),
    EmptyString))))
| RDeleteSub _ ->
  kw (String ((Ascii (false, false, true, false, false, false, true, false)),
    (String ((Ascii (true, true, false, false, true, false, true, false)),
    EmptyString))))
| RListSubs (_, _, _) ->
  kw (String ((Ascii (false, false, true, true, false, false, true, false)),
    (String ((Ascii (true, true, false, false, true, false, true, false)),
    EmptyString))))
| RPublish (_, _) ->
  kw (String ((Ascii (false, false, false, false, true, false, true, false)),
    (String ((Ascii (true, false, true, false, true, false, true, false)),
    (String ((Ascii (false, true, false, false, false, false, true, false)),
    EmptyString))))))
| RAck (_, _) ->
  kw (String ((Ascii (true, false, false, false, false, false, true, false)),
    (String ((Ascii (true, true, false, false, false, false, true, false)),
    (String ((Ascii (true, true, false, true, false, false, true, false)),
    EmptyString))))))
| RModify (_, _, _) ->
  kw (String ((Ascii (true, false, true, true, false, false, true, false)),
    (String ((Ascii (true, true, true, true, false, false, true, false)),
    (String ((Ascii (false, false, true, false, false, false, true, false)),
    EmptyString))))))
| RAdvance _ ->
  kw (String ((Ascii (true, false, false, false, false, false, true, false)),
    (String ((Ascii (false, false, true, false, false, false, true, false)),
    (String ((Ascii (false, true, true, false, true, false, true, false)),
    EmptyString))))))
| RStats _ ->
  kw (String ((Ascii (true, true, false, false, true, false, true, false)),
    (String ((Ascii (false, false, true, false, true, false, true, false)),
    (String ((Ascii (true, false, false, false, false, false, true, false)),
    (String ((Ascii (false, false, true, false, true, false, true, false)),
    (String ((Ascii (true, true, false, false, true, false, true, false)),
    EmptyString))))))))))
| RReg ->
  kw (String ((Ascii (false, true, false, false, true, false, true, false)),
    (String ((Ascii (true, false, true, false, false, false, true, false)),
    (String ((Ascii (true, true, true, false, false, false, true, false)),
    EmptyString))))))
| RStreamOpen (_, _, _, _) ->
  kw (String ((Ascii (true, true, false, false, true, false, true, false)),
    (String ((Ascii (true, true, true, true, false, false, true, false)),
    EmptyString))))
| RStreamSend (_, _, _, _, _, _, _) ->
  kw (String ((Ascii (true, true, false, false, true, false, true, false)),
    (String ((Ascii (true, true, false, false, true, false, true, false)),
    EmptyString))))
| RStreamClose _ ->
  kw (String ((Ascii (true, true, false, false, true, false, true, false)),
    (String ((Ascii (true, true, false, false, false, false, true, false)),
    EmptyString))))
| RStreamRead _ ->
  kw (String ((Ascii (true, true, false, false, true, false, true, false)),
    (String ((Ascii (false, true, false, false, true, false, true, false)),
    EmptyString))))
| RPullBg (_, _, _) ->
  kw (String ((Ascii (false, true, false, false, false, false, true, false)),
    (String ((Ascii (true, true, true, false, false, false, true, false)),
    EmptyString))))
| RPushSub (_, _) ->
  kw (String ((Ascii (false, true, false, false, true, false, true, false)),
    (String ((Ascii (true, true, true, true, false, false, true, false)),
    (String ((Ascii (true, false, true, false, true, false, true, false)),
    (String ((Ascii (false, true, true, true, false, false, true, false)),
    (String ((Ascii (false, false, true, false, false, false, true, false)),
    EmptyString))))))))))
| _ ->
  kw (String ((Ascii (false, false, false, false, true, false, true, false)),
    (String ((Ascii (true, false, true, false, true, false, true, false)),
    (String ((Ascii (false, false, true, true, false, false, true, false)),
    (String ((Ascii (false, false, true, true, false, false, true, false)),
    EmptyString))))))))

(** val render : n list -> req -> resp -> str * n list **)

let render seen r p =
  let nm = op_name r in
  (match p with
   | PErr c -> ((join_sp (nm :: ((r_num c) :: []))), seen)
   | POk -> ((join_sp (nm :: ((r_num N0) :: []))), seen)
   | PTopic n0 -> ((join_sp (nm :: ((r_num N0) :: ((r_str n0) :: [])))), seen)
   | PNames (ns, tok) ->
     ((join_sp
        (app (nm :: ((r_num N0) :: ((r_num (len_N ns)) :: [])))
          (app (map r_str ns) ((r_str tok) :: [])))), seen)
   | PSub sr ->
     ((join_sp (app (nm :: ((r_num N0) :: [])) (r_subres sr))), seen)
   | PSubs (l, tok) ->
     ((join_sp
        (app (nm :: ((r_num N0) :: ((r_num (len_N l)) :: [])))
          (app (flat_map r_subres l) ((r_str tok) :: [])))), seen)
   | PIds ids ->
     ((join_sp
        (app (nm :: ((r_num N0) :: ((r_num (len_N ids)) :: [])))
          (map (fun i -> r_str (dec_of_N i)) ids))), seen)
   | PMsgs ls ->
     let (a, s') = r_msgs seen ls in
     ((join_sp (app (nm :: ((r_num N0) :: ((r_num (len_N ls)) :: []))) a)),
     s')
   | PStats (o, b, t) ->
     ((join_sp
        (nm :: ((r_num N0) :: ((r_num o) :: ((r_num b) :: ((r_str t) :: [])))))),
       seen)
   | PReg l ->
     ((join_sp
        (app (nm :: ((r_num (len_N l)) :: []))
          (flat_map (fun e -> (r_str (fst e)) :: ((r_str (snd e)) :: [])) l))),
       seen)
   | PStream (bs, term) ->
     let (a, s') = r_batches seen bs in
     ((join_sp
        (app (nm :: ((r_num (len_N bs)) :: []))
          (app a
            ((match term with
              | Some c -> r_num c
              | None -> (Npos (XI (XO (XI (XI (XO XH)))))) :: []) :: [])))),
     s')
   | PPending -> (((Npos (XI (XO (XI (XI (XO XH)))))) :: []), seen)
   | PJoined r0 ->
     (match r0 with
      | Inl c -> ((join_sp (nm :: ((r_num c) :: []))), seen)
      | Inr ls ->
        let (a, s') = r_msgs seen ls in
        ((join_sp (app (nm :: ((r_num N0) :: ((r_num (len_N ls)) :: []))) a)),
        s'))
   | _ -> (nm, seen))

(** val nl : n **)

let nl =
  Npos (XO (XI (XO XH)))

(** val nth_mod : str list -> n -> bool -> str **)

let nth_mod acks k from_end =
  match acks with
  | [] -> (Npos (XO (XO (XO (XO (XI XH)))))) :: []
  | _ :: _ ->
    let n0 = len_N acks in
    let i = N.modulo k n0 in
    nth (N.to_nat (if from_end then N.sub (N.sub n0 (Npos XH)) i else i))
      acks ((Npos (XO (XO (XO (XO (XI XH)))))) :: [])

(** val resolve_tok : str list -> str -> str **)

let resolve_tok acks t = match t with
| [] -> t
| n0 :: r ->
  (match n0 with
   | N0 -> t
   | Npos p ->
     (match p with
      | XO p0 ->
        (match p0 with
         | XI p1 ->
           (match p1 with
            | XI p2 ->
              (match p2 with
               | XI p3 ->
                 (match p3 with
                  | XI p4 ->
                    (match p4 with
                     | XO p5 ->
                       (match p5 with
                        | XH ->
                          (match digits_value r N0 with
                           | Some k -> hex_field (nth_mod acks k false)
                           | None -> t)
                        | _ -> t)
                     | _ -> t)
                  | _ -> t)
               | _ -> t)
            | _ -> t)
         | XO p1 ->
           (match p1 with
            | XO p2 ->
              (match p2 with
               | XO p3 ->
                 (match p3 with
                  | XO p4 ->
                    (match p4 with
                     | XO p5 ->
                       (match p5 with
                        | XH ->
                          (match digits_value r N0 with
                           | Some k -> hex_field (nth_mod acks k true)
                           | None -> t)
                        | _ -> t)
                     | _ -> t)
                  | _ -> t)
               | _ -> t)
            | _ -> t)
         | XH -> t)
      | _ -> t))

(** val resp_acks : resp -> str list **)

let resp_acks = function
| PMsgs ls -> map (fun l -> dec_of_N l.l_ack) ls
| PStream (bs, _) -> flat_map (map (fun l -> dec_of_N l.l_ack)) bs
| PJoined r ->
  (match r with
   | Inl _ -> []
   | Inr ls -> map (fun l -> dec_of_N l.l_ack) ls)
| _ -> []

(** val is_blocking_pull : str list -> (str * str) option **)

let is_blocking_pull = function
| [] -> None
| op :: l ->
  (match l with
   | [] -> None
   | s :: l0 ->
     (match l0 with
      | [] -> None
      | m :: l1 ->
        (match l1 with
         | [] -> None
         | ri :: l2 ->
           (match l2 with
            | [] ->
              if (&&)
                   (is_kw (String ((Ascii (false, false, false, false, true,
                     false, true, false)), (String ((Ascii (true, false,
                     true, false, true, false, true, false)), (String ((Ascii
                     (false, false, true, true, false, false, true, false)),
                     (String ((Ascii (false, false, true, true, false, false,
                     true, false)), EmptyString)))))))) op)
                   (str_eqb ri ((Npos (XO (XO (XO (XO (XI XH)))))) :: []))
              then Some (s, m)
              else None
            | _ :: _ -> None))))

(** val split_on_tok : str -> str list -> str list list **)

let rec split_on_tok sep = function
| [] -> [] :: []
| t :: ts' ->
  if str_eqb t sep
  then [] :: (split_on_tok sep ts')
  else (match split_on_tok sep ts' with
        | [] -> (t :: []) :: []
        | w :: ws -> (t :: w) :: ws)

(** val intersperse : str -> str list -> str list **)

let rec intersperse sep = function
| [] -> []
| x :: l' ->
  (match l' with
   | [] -> x :: []
   | _ :: _ -> x :: (sep :: (intersperse sep l')))

(** val ep_prefix : str **)

let ep_prefix =
  (Npos (XO (XO (XO (XI (XO (XI XH))))))) :: ((Npos (XO (XO (XI (XO (XI (XI
    XH))))))) :: ((Npos (XO (XO (XI (XO (XI (XI XH))))))) :: ((Npos (XO (XO
    (XO (XO (XI (XI XH))))))) :: ((Npos (XO (XI (XO (XI (XI
    XH)))))) :: ((Npos (XI (XI (XI (XI (XO XH)))))) :: ((Npos (XI (XI (XI (XI
    (XO XH)))))) :: ((Npos (XI (XO (XI (XO (XO (XI XH))))))) :: ((Npos (XO
    (XO (XO (XO (XI (XI XH))))))) :: ((Npos (XI (XI (XI (XI (XO
    XH)))))) :: ((Npos (XI (XO (XI (XO (XO (XI XH))))))) :: []))))))))))

(** val parse_outcome : str -> outcome option **)

let parse_outcome t =
  if is_kw (String ((Ascii (false, true, false, false, true, true, true,
       false)), (String ((Ascii (true, false, true, false, false, true, true,
       false)), (String ((Ascii (true, true, false, false, true, true, true,
       false)), (String ((Ascii (true, false, true, false, false, true, true,
       false)), (String ((Ascii (false, false, true, false, true, true, true,
       false)), EmptyString)))))))))) t
  then Some OReset
  else if is_kw (String ((Ascii (false, false, false, true, false, true,
            true, false)), (String ((Ascii (true, false, false, false, false,
            true, true, false)), (String ((Ascii (false, true, true, true,
            false, true, true, false)), (String ((Ascii (true, true, true,
            false, false, true, true, false)), EmptyString)))))))) t
       then Some OHang
       else (match p_nat t with
             | Some c -> Some (OStatus c)
             | None -> None)

(** val r_outcome : outcome -> str **)

let r_outcome = function
| OStatus c -> r_num c
| OReset ->
  kw (String ((Ascii (false, true, false, false, true, true, true, false)),
    (String ((Ascii (true, false, true, false, false, true, true, false)),
    (String ((Ascii (true, true, false, false, true, true, true, false)),
    (String ((Ascii (true, false, true, false, false, true, true, false)),
    (String ((Ascii (false, false, true, false, true, true, true, false)),
    EmptyString))))))))))
| ORefused ->
  kw (String ((Ascii (false, true, false, false, true, true, true, false)),
    (String ((Ascii (true, false, true, false, false, true, true, false)),
    (String ((Ascii (false, true, true, false, false, true, true, false)),
    (String ((Ascii (true, false, true, false, true, true, true, false)),
    (String ((Ascii (true, true, false, false, true, true, true, false)),
    (String ((Ascii (true, false, true, false, false, true, true, false)),
    (String ((Ascii (false, false, true, false, false, true, true, false)),
    EmptyString))))))))))))))
| OHang ->
  kw (String ((Ascii (false, false, false, true, false, true, true, false)),
    (String ((Ascii (true, false, false, false, false, true, true, false)),
    (String ((Ascii (false, true, true, true, false, true, true, false)),
    (String ((Ascii (true, true, true, false, false, true, true, false)),
    EmptyString))))))))

(** val ep_index : str -> n option **)

let ep_index e =
  match strip_prefix ep_prefix e with
  | Some s ->
    (match s with
     | [] -> None
     | d :: l ->
       (match l with
        | [] ->
          if is_digit d
          then Some (N.sub d (Npos (XO (XO (XO (XO (XI XH)))))))
          else None
        | _ :: _ -> None))
  | None -> None

(** val ep_script : (n * outcome list) list -> n -> outcome list **)

let ep_script eps k =
  match alookup N.eqb k eps with
  | Some l -> l
  | None -> []

(** val ep_set :
    (n * outcome list) list -> n -> outcome list -> (n * outcome list) list **)

let ep_set eps k l =
  (k, l) :: (aremove N.eqb k eps)

(** val r_post : n -> str -> (lease * outcome) -> str list **)

let r_post k subname p =
  let m = (fst p).l_msg in
  app
    ((r_num k) :: ((r_str subname) :: ((r_str (dec_of_N m.m_id)) :: (
    (r_num (Npos XH)) :: ((r_str m.m_data) :: ((r_num (len_N m.m_attrs)) :: []))))))
    (app
      (flat_map (fun kv -> (r_str (fst kv)) :: ((r_str (snd kv)) :: []))
        m.m_attrs) ((r_outcome (snd p)) :: []))

(** val push_round :
    server -> (n * outcome list) list -> (name * str) list ->
    ((server * (n * outcome list) list) * ((n * str) * (lease * outcome))
    list) * bool **)

let rec push_round sv eps = function
| [] -> (((sv, eps), []), false)
| p :: rest ->
  let (sn, e) = p in
  (match ep_index e with
   | Some k ->
     let script = ep_script eps k in
     let k0 = Some k in
     let (sv1, p0) = api_step sv (RPushSub (sn, script)) in
     let posts =
       match p0 with
       | PErr _ -> []
       | POk -> []
       | PTopic _ -> []
       | PNames (_, _) -> []
       | PSub _ -> []
       | PSubs (_, _) -> []
       | PIds _ -> []
       | PMsgs _ -> []
       | PStats (_, _, _) -> []
       | PReg _ -> []
       | PStream (_, _) -> []
       | PPending -> []
       | PJoined _ -> []
       | PPushed l -> l
       | PNone -> []
     in
     let eps1 =
       match k0 with
       | Some k' -> ep_set eps k' (skipn (length posts) script)
       | None -> eps
     in
     let hung =
       existsb (fun x -> match snd x with
                         | OHang -> true
                         | _ -> false) posts
     in
     let (p1, h2) = push_round sv1 eps1 rest in
     let (p2, more) = p1 in
     let mine =
       match k0 with
       | Some k' -> map (fun x -> ((k', (show_sub_name sn)), x)) posts
       | None -> []
     in
     ((p2, (app mine more)), ((||) hung h2))
   | None ->
     let script =
       repeat ORefused (S (S (S (S (S (S (S (S (S (S (S (S (S (S (S (S (S (S
         (S (S (S (S (S (S (S (S (S (S (S (S (S (S (S (S (S (S (S (S (S (S (S
         (S (S (S (S (S (S (S (S (S (S (S (S (S (S (S (S (S (S (S (S (S (S (S
         (S (S (S (S (S (S (S (S (S (S (S (S (S (S (S (S (S (S (S (S (S (S (S
         (S (S (S (S (S (S (S (S (S (S (S (S (S (S (S (S (S (S (S (S (S (S (S
         (S (S (S (S (S (S (S (S (S (S (S (S (S (S (S (S (S (S (S (S (S (S (S
         (S (S (S (S (S (S (S (S (S (S (S (S (S (S (S (S (S (S (S (S (S (S (S
         (S (S (S (S (S (S (S (S (S (S (S (S (S (S (S (S (S (S (S (S (S (S (S
         (S (S (S (S (S (S (S (S (S (S (S (S (S (S (S (S (S (S (S (S (S (S (S
         (S (S (S (S (S (S (S (S (S (S (S (S (S (S (S (S (S (S (S (S (S (S (S
         (S (S (S (S (S (S (S (S (S (S (S (S (S (S (S (S (S (S (S (S (S (S (S
         (S (S (S (S (S (S (S (S (S (S (S (S (S (S (S (S (S (S (S (S (S (S (S
         (S (S (S (S (S (S (S (S (S (S (S (S (S (S (S (S (S (S (S (S (S (S (S
         (S (S (S (S (S (S (S (S (S (S (S (S (S (S (S (S (S (S (S (S (S (S (S
         (S (S (S (S (S (S (S (S (S (S (S (S (S (S (S (S (S (S (S (S (S (S (S
         (S (S (S (S (S (S (S (S (S (S (S (S (S (S (S (S (S (S (S (S (S (S (S
         (S (S (S (S (S (S (S (S (S (S (S (S (S (S (S (S (S (S (S (S (S (S (S
         (S (S (S (S (S (S (S (S (S (S (S (S (S (S (S (S (S (S (S (S (S (S (S
         (S (S (S (S (S (S (S (S (S (S (S (S (S (S (S (S (S (S (S (S (S (S (S
         (S (S (S (S (S (S (S (S (S (S (S (S (S (S (S (S (S (S (S (S (S (S (S
         (S (S (S (S (S (S (S (S (S (S (S (S (S (S (S (S (S (S (S (S (S (S (S
         (S (S (S (S (S (S (S (S (S (S (S (S (S (S (S (S (S (S (S (S (S (S (S
         (S (S (S (S (S (S (S (S (S (S (S (S (S (S (S (S (S (S (S (S (S (S (S
         (S (S (S (S (S (S (S (S (S (S (S (S (S (S (S (S (S (S (S (S (S (S (S
         (S (S (S (S (S (S (S (S (S (S (S (S (S (S (S (S (S (S (S (S (S (S (S
         (S (S (S (S (S (S (S (S (S (S (S (S (S (S (S (S (S (S (S (S (S (S (S
         (S (S (S (S (S (S (S (S (S (S (S (S (S (S (S (S (S (S (S (S (S (S (S
         (S (S (S (S (S (S (S (S (S (S (S (S (S (S (S (S (S (S (S (S (S (S (S
         (S (S (S (S (S (S (S (S (S (S (S (S (S (S (S (S (S (S (S (S (S (S (S
         (S (S (S (S (S (S (S (S (S (S (S (S (S (S (S (S (S (S (S (S (S (S (S
         (S (S (S (S (S (S (S (S (S (S (S (S (S (S (S (S (S (S (S (S (S (S (S
         (S (S (S (S (S (S (S (S (S (S (S (S (S (S (S (S (S (S (S (S (S (S (S
         (S (S (S (S (S (S (S (S (S (S (S (S (S (S (S (S (S (S (S (S (S (S (S
         (S (S (S (S (S (S (S (S (S (S (S (S (S (S (S (S (S (S (S (S (S (S (S
         (S (S (S (S (S (S (S (S (S (S (S (S (S (S (S (S (S (S (S (S (S (S (S
         (S (S (S (S (S (S (S (S (S (S (S (S (S (S (S (S (S (S (S (S (S (S (S
         (S (S (S (S (S (S (S (S (S (S (S (S (S (S (S (S (S (S (S (S (S (S (S
         (S (S (S (S (S (S (S (S (S (S (S (S (S (S (S (S (S (S (S (S (S (S (S
         (S (S (S (S (S (S (S (S (S (S (S (S (S (S (S (S (S (S (S (S (S (S (S
         (S (S (S (S (S (S (S (S (S (S (S (S (S (S (S (S (S (S (S (S (S (S (S
         (S (S (S (S (S (S (S (S (S (S (S (S (S (S (S (S (S (S (S (S (S (S (S
         (S (S (S (S (S (S (S (S (S (S (S (S (S (S (S (S (S (S (S (S (S (S (S
         (S (S (S (S (S (S (S (S (S (S (S (S (S (S (S (S (S (S (S (S (S (S (S
         (S (S (S (S (S (S (S (S (S (S (S (S (S (S (S (S
         O))))))))))))))))))))))))))))))))))))))))))))))))))))))))))))))))))))))))))))))))))))))))))))))))))))))))))))))))))))))))))))))))))))))))))))))))))))))))))))))))))))))))))))))))))))))))))))))))))))))))))))))))))))))))))))))))))))))))))))))))))))))))))))))))))))))))))))))))))))))))))))))))))))))))))))))))))))))))))))))))))))))))))))))))))))))))))))))))))))))))))))))))))))))))))))))))))))))))))))))))))))))))))))))))))))))))))))))))))))))))))))))))))))))))))))))))))))))))))))))))))))))))))))))))))))))))))))))))))))))))))))))))))))))))))))))))))))))))))))))))))))))))))))))))))))))))))))))))))))))))))))))))))))))))))))))))))))))))))))))))))))))))))))))))))))))))))))))))))))))))))))))))))))))))))))))))))))))))))))))))))))))))))))))))))))))))))))))))))))))))))))))))))))))))))))))))))))))))))))))))))))))))))))))))))))))))))))))))))))))))))))))))))))))))))))))))))))))))))))))))))))))))))))))))))))))))))))))))))))))))))))))))))))))))))))))))))))))))))))))))))))))))))))))))))))))))))))))))))))))))
     in
     let k = None in
     let (sv1, p0) = api_step sv (RPushSub (sn, script)) in
     let posts =
       match p0 with
       | PErr _ -> []
       | POk -> []
       | PTopic _ -> []
       | PNames (_, _) -> []
       | PSub _ -> []
       | PSubs (_, _) -> []
       | PIds _ -> []
       | PMsgs _ -> []
       | PStats (_, _, _) -> []
       | PReg _ -> []
       | PStream (_, _) -> []
       | PPending -> []
       | PJoined _ -> []
       | PPushed l -> l
       | PNone -> []
     in
     let eps1 =
       match k with
       | Some k' -> ep_set eps k' (skipn (length posts) script)
       | None -> eps
     in
     let hung =
       existsb (fun x -> match snd x with
                         | OHang -> true
                         | _ -> false) posts
     in
     let (p1, h2) = push_round sv1 eps1 rest in
     let (p2, more) = p1 in
     let mine =
       match k with
       | Some k' -> map (fun x -> ((k', (show_sub_name sn)), x)) posts
       | None -> []
     in
     ((p2, (app mine more)), ((||) hung h2)))

(** val push_rounds :
    nat -> server -> (n * outcome list) list -> (server * (n * outcome list)
    list) * ((n * str) * (lease * outcome)) list **)

let rec push_rounds n0 sv eps =
  match n0 with
  | O -> ((sv, eps), [])
  | S n' ->
    let (p, _) =
      push_round sv eps
        (isort (fun a b ->
          str_ltb (show_sub_name (fst a)) (show_sub_name (fst b))) sv.sv_reg)
    in
    let (p0, posts) = p in
    let (sv1, eps1) = p0 in
    let (p1, more) = push_rounds n' sv1 eps1 in (p1, (app posts more))

(** val dedup_sorted : n list -> n list **)

let rec dedup_sorted l = match l with
| [] -> l
| a :: r ->
  (match r with
   | [] -> l
   | b :: _ -> if N.eqb a b then dedup_sorted r else a :: (dedup_sorted r))

(** val sorted_registry : server -> (name * str) list **)

let sorted_registry sv =
  isort (fun a b -> str_ltb (show_sub_name (fst a)) (show_sub_name (fst b)))
    sv.sv_reg

(** val run_seq_parts :
    server -> n list -> str list -> str list -> ((server * n list) * str
    list) * str **)

let run_seq_parts sv seen acks args =
  let parts =
    split_on_tok ((Npos (XI (XI (XO (XI (XI XH)))))) :: ((Npos (XI (XI (XO
      (XI (XI XH)))))) :: [])) args
  in
  let (p, outs) =
    fold_left (fun acc part ->
      let (p, o0) = acc in
      let (p0, ak0) = p in
      let (s0, sn0) = p0 in
      (match parse_op part with
       | Some r ->
         let (s1, p1) = api_step s0 r in
         let (line, sn1) = render sn0 r p1 in
         (((s1, sn1), (app ak0 (resp_acks p1))), (app o0 (line :: [])))
       | None ->
         (((s0, sn0), ak0),
           (app o0 (((Npos (XI (XI (XI (XI (XI XH)))))) :: []) :: [])))))
      parts (((sv, seen), acks), [])
  in
  (p,
  (join_sp
    ((kw (String ((Ascii (true, true, false, false, true, false, true,
       false)), (String ((Ascii (true, false, true, false, false, false,
       true, false)), (String ((Ascii (true, false, false, false, true,
       false, true, false)), EmptyString))))))) :: (intersperse ((Npos (XI
                                                     (XI (XO (XI (XI
                                                     XH)))))) :: ((Npos (XI
                                                     (XI (XO (XI (XI
                                                     XH)))))) :: [])) outs))))

(** val run_lines :
    server -> n list -> str list -> (n * str) list -> (n * outcome list) list
    -> str list list -> str list **)

let rec run_lines sv seen acks bg eps = function
| [] -> []
| ts :: rest ->
  let ts0 = map (resolve_tok acks) ts in
  (match ts0 with
   | [] -> run_lines sv seen acks bg eps rest
   | op :: args ->
     if is_kw (String ((Ascii (true, true, false, false, true, false, true,
          false)), (String ((Ascii (true, false, true, false, false, false,
          true, false)), (String ((Ascii (true, false, true, false, false,
          false, true, false)), (String ((Ascii (false, false, true, false,
          false, false, true, false)), EmptyString)))))))) op
     then (kw (String ((Ascii (true, true, false, false, true, false, true,
            false)), (String ((Ascii (true, false, true, false, false, false,
            true, false)), (String ((Ascii (true, false, true, false, false,
            false, true, false)), (String ((Ascii (false, false, true, false,
            false, false, true, false)), EmptyString))))))))) :: (run_lines
                                                                   sv seen
                                                                   acks bg
                                                                   eps rest)
     else if is_kw (String ((Ascii (true, false, false, false, true, false,
               true, false)), EmptyString)) op
          then (kw (String ((Ascii (true, false, false, false, true, false,
                 true, false)), EmptyString))) :: (run_lines sv seen acks bg
                                                    eps rest)
          else if is_kw (String ((Ascii (true, false, false, true, true,
                    false, true, false)), (String ((Ascii (true, false,
                    false, true, false, false, true, false)), (String ((Ascii
                    (true, false, true, false, false, false, true, false)),
                    (String ((Ascii (false, false, true, true, false, false,
                    true, false)), (String ((Ascii (false, false, true,
                    false, false, false, true, false)), EmptyString))))))))))
                    op
               then (kw (String ((Ascii (true, false, false, true, true,
                      false, true, false)), (String ((Ascii (true, false,
                      false, true, false, false, true, false)), (String
                      ((Ascii (true, false, true, false, false, false, true,
                      false)), (String ((Ascii (false, false, true, true,
                      false, false, true, false)), (String ((Ascii (false,
                      false, true, false, false, false, true, false)),
                      EmptyString))))))))))) :: (run_lines sv seen acks bg
                                                  eps rest)
               else if is_kw (String ((Ascii (true, true, false, false, true,
                         false, true, false)), (String ((Ascii (true, false,
                         true, false, false, false, true, false)), (String
                         ((Ascii (true, false, false, false, true, false,
                         true, false)), EmptyString)))))) op
                    then let (p, line) = run_seq_parts sv seen acks args in
                         let (p0, acks') = p in
                         let (sv', seen') = p0 in
                         line :: (run_lines sv' seen' acks' bg eps rest)
                    else if is_kw (String ((Ascii (true, false, true, true,
                              false, false, true, false)), (String ((Ascii
                              (true, true, true, true, false, false, true,
                              false)), (String ((Ascii (false, false, true,
                              false, false, false, true, false)), (String
                              ((Ascii (true, false, true, false, false,
                              false, true, false)), EmptyString)))))))) op
                         then (kw (String ((Ascii (true, false, true, true,
                                false, false, true, false)), (String ((Ascii
                                (true, true, true, true, false, false, true,
                                false)), (String ((Ascii (false, false, true,
                                false, false, false, true, false)), (String
                                ((Ascii (true, false, true, false, false,
                                false, true, false)), EmptyString))))))))) :: 
                                (run_lines sv seen acks bg eps rest)
                         else if is_kw (String ((Ascii (true, false, true,
                                   false, false, false, true, false)),
                                   (String ((Ascii (false, false, false,
                                   false, true, false, true, false)),
                                   EmptyString)))) op
                              then (match args with
                                    | [] ->
                                      ((Npos (XI (XI (XI (XI (XI
                                        XH)))))) :: []) :: (run_lines sv seen
                                                             acks bg eps rest)
                                    | kt :: l ->
                                      (match l with
                                       | [] ->
                                         ((Npos (XI (XI (XI (XI (XI
                                           XH)))))) :: []) :: (run_lines sv
                                                                seen acks bg
                                                                eps rest)
                                       | _ :: outs ->
                                         (match p_nat kt with
                                          | Some k ->
                                            (match parse_all parse_outcome
                                                     outs with
                                             | Some l0 ->
                                               (kw (String ((Ascii (true,
                                                 false, true, false, false,
                                                 false, true, false)),
                                                 (String ((Ascii (false,
                                                 false, false, false, true,
                                                 false, true, false)),
                                                 EmptyString))))) :: 
                                                 (run_lines sv seen acks bg
                                                   (ep_set eps k
                                                     (app (ep_script eps k)
                                                       l0)) rest)
                                             | None ->
                                               ((Npos (XI (XI (XI (XI (XI
                                                 XH)))))) :: []) :: (run_lines
                                                                    sv seen
                                                                    acks bg
                                                                    eps rest))
                                          | None ->
                                            ((Npos (XI (XI (XI (XI (XI
                                              XH)))))) :: []) :: (run_lines
                                                                   sv seen
                                                                   acks bg
                                                                   eps rest))))
                              else if is_kw (String ((Ascii (false, true,
                                        false, false, true, false, true,
                                        false)), (String ((Ascii (true, true,
                                        true, true, false, false, true,
                                        false)), (String ((Ascii (true,
                                        false, true, false, true, false,
                                        true, false)), (String ((Ascii
                                        (false, true, true, true, false,
                                        false, true, false)), (String ((Ascii
                                        (false, false, true, false, false,
                                        false, true, false)),
                                        EmptyString)))))))))) op
                                   then let (p, hung) =
                                          push_round sv eps
                                            (sorted_registry sv)
                                        in
                                        let (p0, posts) = p in
                                        let (sv1, eps1) = p0 in
                                        let sv2 =
                                          if hung
                                          then fst
                                                 (api_step sv1 (RAdvance
                                                   (N.mul (Npos (XO (XO (XI
                                                     (XO XH))))) ns_per_s)))
                                          else sv1
                                        in
                                        (join_sp
                                          (app
                                            ((kw (String ((Ascii (false,
                                               true, false, false, true,
                                               false, true, false)), (String
                                               ((Ascii (true, true, true,
                                               true, false, false, true,
                                               false)), (String ((Ascii
                                               (true, false, true, false,
                                               true, false, true, false)),
                                               (String ((Ascii (false, true,
                                               true, true, false, false,
                                               true, false)), (String ((Ascii
                                               (false, false, true, false,
                                               false, false, true, false)),
                                               EmptyString))))))))))) :: (
                                            (r_num (len_N posts)) :: []))
                                            (flat_map (fun x ->
                                              r_post (fst (fst x))
                                                (snd (fst x)) (snd x)) posts))) :: 
                                        (run_lines sv2 seen acks bg eps1 rest)
                                   else if is_kw (String ((Ascii (false,
                                             false, true, true, false, false,
                                             true, false)), (String ((Ascii
                                             (true, true, true, true, false,
                                             false, true, false)), (String
                                             ((Ascii (true, true, true, true,
                                             false, false, true, false)),
                                             (String ((Ascii (false, false,
                                             false, false, true, false, true,
                                             false)), EmptyString)))))))) op
                                        then let n0 =
                                               match args with
                                               | [] -> S O
                                               | _ :: l ->
                                                 (match l with
                                                  | [] -> S O
                                                  | r :: l0 ->
                                                    (match l0 with
                                                     | [] ->
                                                       (match p_nat r with
                                                        | Some k ->
                                                          S (N.to_nat k)
                                                        | None -> S O)
                                                     | _ :: _ -> S O))
                                             in
                                             let (p, posts) =
                                               push_rounds n0 sv eps
                                             in
                                             let (sv1, eps1) = p in
                                             let subs =
                                               map (fun e ->
                                                 show_sub_name (fst e))
                                                 (sorted_registry sv)
                                             in
                                             let per = fun s ->
                                               filter (fun x ->
                                                 str_eqb (snd (fst x)) s)
                                                 posts
                                             in
                                             let groups =
                                               filter (fun s ->
                                                 negb (is_nil (per s))) subs
                                             in
                                             (join_sp
                                               (app
                                                 ((kw (String ((Ascii (false,
                                                    false, true, true, false,
                                                    false, true, false)),
                                                    (String ((Ascii (true,
                                                    true, true, true, false,
                                                    false, true, false)),
                                                    (String ((Ascii (true,
                                                    true, true, true, false,
                                                    false, true, false)),
                                                    (String ((Ascii (false,
                                                    false, false, false,
                                                    true, false, true,
                                                    false)),
                                                    EmptyString))))))))) :: (
                                                 (r_num (len_N groups)) :: []))
                                                 (flat_map (fun s ->
                                                   let ids =
                                                     dedup_sorted
                                                       (isort N.ltb
                                                         (map (fun x ->
                                                           (fst (snd x)).l_msg.m_id)
                                                           (per s)))
                                                   in
                                                   app
                                                     ((r_str s) :: ((r_num
                                                                    (len_N
                                                                    (per s))) :: (
                                                     (r_num (len_N ids)) :: [])))
                                                     (map (fun i ->
                                                       r_str (dec_of_N i))
                                                       ids)) groups))) :: 
                                             (run_lines sv1 seen acks bg eps1
                                               rest)
                                        else if is_kw (String ((Ascii (false,
                                                  true, false, false, false,
                                                  false, true, false)),
                                                  (String ((Ascii (true,
                                                  true, true, false, false,
                                                  false, true, false)),
                                                  EmptyString)))) op
                                             then (match args with
                                                   | [] ->
                                                     ((Npos (XI (XI (XI (XI
                                                       (XI
                                                       XH)))))) :: []) :: 
                                                       (run_lines sv seen
                                                         acks bg eps rest)
                                                   | idt :: inner ->
                                                     (match p_nat idt with
                                                      | Some id ->
                                                        (match is_blocking_pull
                                                                 inner with
                                                         | Some p ->
                                                           let (s, m) = p in
                                                           (match p_str s with
                                                            | Some s' ->
                                                              (match 
                                                               p_int m with
                                                               | Some m' ->
                                                                 let (
                                                                   sv', _) =
                                                                   api_step
                                                                    sv
                                                                    (RPullBg
                                                                    (id, s',
                                                                    m'))
                                                                 in
                                                                 (kw (String
                                                                   ((Ascii
                                                                   (false,
                                                                   true,
                                                                   false,
                                                                   false,
                                                                   false,
                                                                   false,
                                                                   true,
                                                                   false)),
                                                                   (String
                                                                   ((Ascii
                                                                   (true,
                                                                   true,
                                                                   true,
                                                                   false,
                                                                   false,
                                                                   false,
                                                                   true,
                                                                   false)),
                                                                   EmptyString))))) :: 
                                                                 (run_lines
                                                                   sv' seen
                                                                   acks bg
                                                                   eps rest)
                                                               | None ->
                                                                 ((Npos (XI
                                                                   (XI (XI
                                                                   (XI (XI
                                                                   XH)))))) :: []) :: 
                                                                   (run_lines
                                                                    sv seen
                                                                    acks bg
                                                                    eps rest))
                                                            | None ->
                                                              ((Npos (XI (XI
                                                                (XI (XI (XI
                                                                XH)))))) :: []) :: 
                                                                (run_lines sv
                                                                  seen acks
                                                                  bg eps rest))
                                                         | None ->
                                                           if match inner with
                                                              | [] -> false
                                                              | t0 :: _ ->
                                                                is_kw (String
                                                                  ((Ascii
                                                                  (true,
                                                                  true,
                                                                  false,
                                                                  false,
                                                                  true,
                                                                  false,
                                                                  true,
                                                                  false)),
                                                                  (String
                                                                  ((Ascii
                                                                  (true,
                                                                  false,
                                                                  true,
                                                                  false,
                                                                  false,
                                                                  false,
                                                                  true,
                                                                  false)),
                                                                  (String
                                                                  ((Ascii
                                                                  (true,
                                                                  false,
                                                                  false,
                                                                  false,
                                                                  true,
                                                                  false,
                                                                  true,
                                                                  false)),
                                                                  EmptyString))))))
                                                                  t0
                                                           then let (
                                                                  p, line) =
                                                                  run_seq_parts
                                                                    sv seen
                                                                    acks
                                                                    (tl inner)
                                                                in
                                                                let (
                                                                  p0, acks') =
                                                                  p
                                                                in
                                                                let (
                                                                  sv', seen') =
                                                                  p0
                                                                in
                                                                (kw (String
                                                                  ((Ascii
                                                                  (false,
                                                                  true,
                                                                  false,
                                                                  false,
                                                                  false,
                                                                  false,
                                                                  true,
                                                                  false)),
                                                                  (String
                                                                  ((Ascii
                                                                  (true,
                                                                  true, true,
                                                                  false,
                                                                  false,
                                                                  false,
                                                                  true,
                                                                  false)),
                                                                  EmptyString))))) :: 
                                                                (run_lines
                                                                  sv' seen'
                                                                  acks' ((id,
                                                                  line) :: bg)
                                                                  eps rest)
                                                           else (match 
                                                                 parse_op
                                                                   inner with
                                                                 | Some r ->
                                                                   let (
                                                                    sv', p) =
                                                                    api_step
                                                                    sv r
                                                                   in
                                                                   let (
                                                                    line,
                                                                    seen') =
                                                                    render
                                                                    seen r p
                                                                   in
                                                                   (kw
                                                                    (String
                                                                    ((Ascii
                                                                    (false,
                                                                    true,
                                                                    false,
                                                                    false,
                                                                    false,
                                                                    false,
                                                                    true,
                                                                    false)),
                                                                    (String
                                                                    ((Ascii
                                                                    (true,
                                                                    true,
                                                                    true,
                                                                    false,
                                                                    false,
                                                                    false,
                                                                    true,
                                                                    false)),
                                                                    EmptyString))))) :: 
                                                                   (run_lines
                                                                    sv' seen'
                                                                    (app acks
                                                                    (resp_acks
                                                                    p)) ((id,
                                                                    line) :: bg)
                                                                    eps rest)
                                                                 | None ->
                                                                   ((Npos (XI
                                                                    (XI (XI
                                                                    (XI (XI
                                                                    XH)))))) :: []) :: 
                                                                    (run_lines
                                                                    sv seen
                                                                    acks bg
                                                                    eps rest)))
                                                      | None ->
                                                        ((Npos (XI (XI (XI
                                                          (XI (XI
                                                          XH)))))) :: []) :: 
                                                          (run_lines sv seen
                                                            acks bg eps rest)))
                                             else if is_kw (String ((Ascii
                                                       (false, true, false,
                                                       true, false, false,
                                                       true, false)), (String
                                                       ((Ascii (true, true,
                                                       true, true, false,
                                                       false, true, false)),
                                                       (String ((Ascii (true,
                                                       false, false, true,
                                                       false, false, true,
                                                       false)), (String
                                                       ((Ascii (false, true,
                                                       true, true, false,
                                                       false, true, false)),
                                                       EmptyString)))))))) op
                                                  then (match args with
                                                        | [] ->
                                                          ((Npos (XI (XI (XI
                                                            (XI (XI
                                                            XH)))))) :: []) :: 
                                                            (run_lines sv
                                                              seen acks bg
                                                              eps rest)
                                                        | idt :: l ->
                                                          (match l with
                                                           | [] ->
                                                             (match p_nat idt with
                                                              | Some id ->
                                                                (match 
                                                                 alookup
                                                                   N.eqb id bg with
                                                                 | Some line ->
                                                                   (join_sp
                                                                    ((kw
                                                                    (String
                                                                    ((Ascii
                                                                    (false,
                                                                    true,
                                                                    false,
                                                                    true,
                                                                    false,
                                                                    false,
                                                                    true,
                                                                    false)),
                                                                    (String
                                                                    ((Ascii
                                                                    (true,
                                                                    true,
                                                                    true,
                                                                    true,
                                                                    false,
                                                                    false,
                                                                    true,
                                                                    false)),
                                                                    (String
                                                                    ((Ascii
                                                                    (true,
                                                                    false,
                                                                    false,
                                                                    true,
                                                                    false,
                                                                    false,
                                                                    true,
                                                                    false)),
                                                                    (String
                                                                    ((Ascii
                                                                    (false,
                                                                    true,
                                                                    true,
                                                                    true,
                                                                    false,
                                                                    false,
                                                                    true,
                                                                    false)),
                                                                    EmptyString))))))))) :: (
                                                                    (r_num id) :: (line :: [])))) :: 
                                                                    (run_lines
                                                                    sv seen
                                                                    acks
                                                                    (aremove
                                                                    N.eqb id
                                                                    bg) eps
                                                                    rest)
                                                                 | None ->
                                                                   let (
                                                                    sv', p) =
                                                                    api_step
                                                                    sv (RJoin
                                                                    id)
                                                                   in
                                                                   let (
                                                                    line,
                                                                    seen') =
                                                                    render
                                                                    seen
                                                                    (RJoin
                                                                    id) p
                                                                   in
                                                                   (join_sp
                                                                    ((kw
                                                                    (String
                                                                    ((Ascii
                                                                    (false,
                                                                    true,
                                                                    false,
                                                                    true,
                                                                    false,
                                                                    false,
                                                                    true,
                                                                    false)),
                                                                    (String
                                                                    ((Ascii
                                                                    (true,
                                                                    true,
                                                                    true,
                                                                    true,
                                                                    false,
                                                                    false,
                                                                    true,
                                                                    false)),
                                                                    (String
                                                                    ((Ascii
                                                                    (true,
                                                                    false,
                                                                    false,
                                                                    true,
                                                                    false,
                                                                    false,
                                                                    true,
                                                                    false)),
                                                                    (String
                                                                    ((Ascii
                                                                    (false,
                                                                    true,
                                                                    true,
                                                                    true,
                                                                    false,
                                                                    false,
                                                                    true,
                                                                    false)),
                                                                    EmptyString))))))))) :: (
                                                                    (r_num id) :: (line :: [])))) :: 
                                                                   (run_lines
                                                                    sv' seen'
                                                                    (app acks
                                                                    (resp_acks
                                                                    p)) bg
                                                                    eps rest))
                                                              | None ->
                                                                ((Npos (XI
                                                                  (XI (XI (XI
                                                                  (XI
                                                                  XH)))))) :: []) :: 
                                                                  (run_lines
                                                                    sv seen
                                                                    acks bg
                                                                    eps rest))
                                                           | _ :: _ ->
                                                             ((Npos (XI (XI
                                                               (XI (XI (XI
                                                               XH)))))) :: []) :: 
                                                               (run_lines sv
                                                                 seen acks bg
                                                                 eps rest)))
                                                  else (match parse_op ts0 with
                                                        | Some r ->
                                                          let (sv', p) =
                                                            api_step sv r
                                                          in
                                                          let (line, seen') =
                                                            render seen r p
                                                          in
                                                          line :: (run_lines
                                                                    sv' seen'
                                                                    (app acks
                                                                    (resp_acks
                                                                    p)) bg
                                                                    eps rest)
                                                        | None ->
                                                          ((Npos (XI (XI (XI
                                                            (XI (XI
                                                            XH)))))) :: []) :: 
                                                            (run_lines sv
                                                              seen acks bg
                                                              eps rest)))

(** val tokens : str -> str list **)

let tokens line =
  filter (fun t -> negb (is_nil t)) (split_on sp line)

(** val cases_of :
    str list -> (str * str list) option -> (str * str list) list **)

let rec cases_of lines cur =
  match lines with
  | [] ->
    (match cur with
     | Some c -> ((fst c), (rev (snd c))) :: []
     | None -> [])
  | l :: rest ->
    (match tokens l with
     | [] -> cases_of rest cur
     | t :: _ ->
       if is_kw (String ((Ascii (true, true, false, false, false, false,
            true, false)), (String ((Ascii (true, false, false, false, false,
            false, true, false)), (String ((Ascii (true, true, false, false,
            true, false, true, false)), (String ((Ascii (true, false, true,
            false, false, false, true, false)), EmptyString)))))))) t
       then app
              (match cur with
               | Some c -> ((fst c), (rev (snd c))) :: []
               | None -> []) (cases_of rest (Some (l, [])))
       else if is_kw (String ((Ascii (true, false, true, false, false, false,
                 true, false)), (String ((Ascii (false, true, true, true,
                 false, false, true, false)), (String ((Ascii (false, false,
                 true, false, false, false, true, false)), EmptyString)))))) t
            then app
                   (match cur with
                    | Some c -> ((fst c), (rev (snd c))) :: []
                    | None -> []) (cases_of rest None)
            else (match cur with
                  | Some c -> cases_of rest (Some ((fst c), (l :: (snd c))))
                  | None -> cases_of rest None))

(** val run_case : (str * str list) -> str list **)

let run_case c =
  (fst c) :: (app (run_lines init_server [] [] [] [] (map tokens (snd c)))
               ((kw (String ((Ascii (true, false, true, false, false, false,
                  true, false)), (String ((Ascii (false, true, true, true,
                  false, false, true, false)), (String ((Ascii (false, false,
                  true, false, false, false, true, false)), EmptyString))))))) :: []))

(** val join_nl : str list -> str **)

let rec join_nl = function
| [] -> []
| x :: l' -> app x (nl :: (join_nl l'))

(** val run_file : str -> str **)

let run_file text =
  join_nl (flat_map run_case (cases_of (split_on nl text) None))

(** val pure_line : str list -> str **)

let pure_line = function
| [] -> []
| op :: args ->
  if is_kw (String ((Ascii (false, false, true, false, true, false, true,
       false)), (String ((Ascii (false, true, true, true, false, false, true,
       false)), EmptyString)))) op
  then (match args with
        | [] -> (Npos (XI (XI (XI (XI (XI XH)))))) :: []
        | s :: l ->
          (match l with
           | [] ->
             (match p_str s with
              | Some x ->
                (match parse_topic_name x with
                 | Some n0 ->
                   join_sp
                     ((kw (String ((Ascii (false, false, true, false, true,
                        false, true, false)), (String ((Ascii (false, true,
                        true, true, false, false, true, false)),
                        EmptyString))))) :: ((r_num (Npos XH)) :: ((r_str
                                                                    (snd n0)) :: (
                     (r_str (show_topic_name n0)) :: []))))
                 | None ->
                   join_sp
                     ((kw (String ((Ascii (false, false, true, false, true,
                        false, true, false)), (String ((Ascii (false, true,
                        true, true, false, false, true, false)),
                        EmptyString))))) :: ((r_num N0) :: [])))
              | None -> (Npos (XI (XI (XI (XI (XI XH)))))) :: [])
           | _ :: _ -> (Npos (XI (XI (XI (XI (XI XH)))))) :: []))
  else if is_kw (String ((Ascii (true, true, false, false, true, false, true,
            false)), (String ((Ascii (false, true, true, true, false, false,
            true, false)), EmptyString)))) op
       then (match args with
             | [] -> (Npos (XI (XI (XI (XI (XI XH)))))) :: []
             | s :: l ->
               (match l with
                | [] ->
                  (match p_str s with
                   | Some x ->
                     (match parse_sub_name x with
                      | Some n0 ->
                        join_sp
                          ((kw (String ((Ascii (true, true, false, false,
                             true, false, true, false)), (String ((Ascii
                             (false, true, true, true, false, false, true,
                             false)), EmptyString))))) :: ((r_num (Npos XH)) :: (
                          (r_str (fst n0)) :: ((r_str (snd n0)) :: ((r_str
                                                                    (show_sub_name
                                                                    n0)) :: [])))))
                      | None ->
                        join_sp
                          ((kw (String ((Ascii (true, true, false, false,
                             true, false, true, false)), (String ((Ascii
                             (false, true, true, true, false, false, true,
                             false)), EmptyString))))) :: ((r_num N0) :: [])))
                   | None -> (Npos (XI (XI (XI (XI (XI XH)))))) :: [])
                | _ :: _ -> (Npos (XI (XI (XI (XI (XI XH)))))) :: []))
       else if is_kw (String ((Ascii (true, false, false, false, false,
                 false, true, false)), (String ((Ascii (true, false, false,
                 true, false, false, true, false)), EmptyString)))) op
            then (match args with
                  | [] -> (Npos (XI (XI (XI (XI (XI XH)))))) :: []
                  | s :: l ->
                    (match l with
                     | [] ->
                       (match p_str s with
                        | Some x ->
                          (match parse_u64 x with
                           | Some v ->
                             join_sp
                               ((kw (String ((Ascii (true, false, false,
                                  false, false, false, true, false)), (String
                                  ((Ascii (true, false, false, true, false,
                                  false, true, false)), EmptyString))))) :: (
                               (r_num (Npos XH)) :: ((r_num v) :: [])))
                           | None ->
                             join_sp
                               ((kw (String ((Ascii (true, false, false,
                                  false, false, false, true, false)), (String
                                  ((Ascii (true, false, false, true, false,
                                  false, true, false)), EmptyString))))) :: (
                               (r_num N0) :: [])))
                        | None -> (Npos (XI (XI (XI (XI (XI XH)))))) :: [])
                     | _ :: _ -> (Npos (XI (XI (XI (XI (XI XH)))))) :: []))
            else if is_kw (String ((Ascii (false, false, true, false, false,
                      false, true, false)), (String ((Ascii (false, false,
                      true, true, false, false, true, false)),
                      EmptyString)))) op
                 then (match args with
                       | [] -> (Npos (XI (XI (XI (XI (XI XH)))))) :: []
                       | t :: l ->
                         (match l with
                          | [] ->
                            (match p_nat t with
                             | Some x ->
                               join_sp
                                 ((kw (String ((Ascii (false, false, true,
                                    false, false, false, true, false)),
                                    (String ((Ascii (false, false, true,
                                    true, false, false, true, false)),
                                    EmptyString))))) :: ((r_num
                                                           (round_deadline x)) :: []))
                             | None ->
                               (Npos (XI (XI (XI (XI (XI XH)))))) :: [])
                          | _ :: _ -> (Npos (XI (XI (XI (XI (XI XH)))))) :: []))
                 else if is_kw (String ((Ascii (false, false, false, false,
                           true, false, true, false)), (String ((Ascii (true,
                           false, true, false, false, false, true, false)),
                           EmptyString)))) op
                      then (match args with
                            | [] -> (Npos (XI (XI (XI (XI (XI XH)))))) :: []
                            | t :: l ->
                              (match l with
                               | [] ->
                                 (match p_nat t with
                                  | Some x ->
                                    join_sp
                                      ((kw (String ((Ascii (false, false,
                                         false, false, true, false, true,
                                         false)), (String ((Ascii (true,
                                         false, true, false, false, false,
                                         true, false)), EmptyString))))) :: (
                                      (r_str (token_encode x)) :: []))
                                  | None ->
                                    (Npos (XI (XI (XI (XI (XI XH)))))) :: [])
                               | _ :: _ ->
                                 (Npos (XI (XI (XI (XI (XI XH)))))) :: []))
                      else if is_kw (String ((Ascii (false, false, false,
                                false, true, false, true, false)), (String
                                ((Ascii (false, false, true, false, false,
                                false, true, false)), EmptyString)))) op
                           then (match args with
                                 | [] ->
                                   (Npos (XI (XI (XI (XI (XI XH)))))) :: []
                                 | s :: l ->
                                   (match l with
                                    | [] ->
                                      (match p_str s with
                                       | Some x ->
                                         (match token_decode x with
                                          | Some v ->
                                            join_sp
                                              ((kw (String ((Ascii (false,
                                                 false, false, false, true,
                                                 false, true, false)),
                                                 (String ((Ascii (false,
                                                 false, true, false, false,
                                                 false, true, false)),
                                                 EmptyString))))) :: (
                                              (r_num (Npos XH)) :: ((r_num v) :: [])))
                                          | None ->
                                            join_sp
                                              ((kw (String ((Ascii (false,
                                                 false, false, false, true,
                                                 false, true, false)),
                                                 (String ((Ascii (false,
                                                 false, true, false, false,
                                                 false, true, false)),
                                                 EmptyString))))) :: (
                                              (r_num N0) :: [])))
                                       | None ->
                                         (Npos (XI (XI (XI (XI (XI
                                           XH)))))) :: [])
                                    | _ :: _ ->
                                      (Npos (XI (XI (XI (XI (XI XH)))))) :: []))
                           else if is_kw (String ((Ascii (false, false,
                                     false, false, true, false, true,
                                     false)), (String ((Ascii (true, true,
                                     true, false, false, false, true,
                                     false)), EmptyString)))) op
                                then (match args with
                                      | [] ->
                                        (Npos (XI (XI (XI (XI (XI
                                          XH)))))) :: []
                                      | sz :: l ->
                                        (match l with
                                         | [] ->
                                           (Npos (XI (XI (XI (XI (XI
                                             XH)))))) :: []
                                         | tk :: l0 ->
                                           (match l0 with
                                            | [] ->
                                              (match p_int sz with
                                               | Some a ->
                                                 (match p_str tk with
                                                  | Some b ->
                                                    (match parse_paging a b with
                                                     | Some pg ->
                                                       join_sp
                                                         ((kw (String ((Ascii
                                                            (false, false,
                                                            false, false,
                                                            true, false,
                                                            true, false)),
                                                            (String ((Ascii
                                                            (true, true,
                                                            true, false,
                                                            false, false,
                                                            true, false)),
                                                            EmptyString))))) :: (
                                                         (r_num N0) :: (
                                                         (r_num (pg_take pg)) :: (
                                                         (r_num (pg_skip pg)) :: []))))
                                                     | None ->
                                                       join_sp
                                                         ((kw (String ((Ascii
                                                            (false, false,
                                                            false, false,
                                                            true, false,
                                                            true, false)),
                                                            (String ((Ascii
                                                            (true, true,
                                                            true, false,
                                                            false, false,
                                                            true, false)),
                                                            EmptyString))))) :: (
                                                         (r_num (Npos (XI
                                                           XH))) :: [])))
                                                  | None ->
                                                    (Npos (XI (XI (XI (XI (XI
                                                      XH)))))) :: [])
                                               | None ->
                                                 (Npos (XI (XI (XI (XI (XI
                                                   XH)))))) :: [])
                                            | _ :: _ ->
                                              (Npos (XI (XI (XI (XI (XI
                                                XH)))))) :: [])))
                                else if is_kw (String ((Ascii (false, false,
                                          false, false, true, false, true,
                                          false)), (String ((Ascii (false,
                                          false, false, false, true, false,
                                          true, false)), EmptyString)))) op
                                     then (match args with
                                           | [] ->
                                             (Npos (XI (XI (XI (XI (XI
                                               XH)))))) :: []
                                           | cnt :: l ->
                                             (match l with
                                              | [] ->
                                                (Npos (XI (XI (XI (XI (XI
                                                  XH)))))) :: []
                                              | sz :: l0 ->
                                                (match l0 with
                                                 | [] ->
                                                   (Npos (XI (XI (XI (XI (XI
                                                     XH)))))) :: []
                                                 | off :: l1 ->
                                                   (match l1 with
                                                    | [] ->
                                                      (match p_nat cnt with
                                                       | Some c ->
                                                         (match p_nat sz with
                                                          | Some z0 ->
                                                            let o =
                                                              if str_eqb off
                                                                   ((Npos (XI
                                                                   (XO (XI
                                                                   (XI (XO
                                                                   XH)))))) :: [])
                                                              then Some None
                                                              else (match 
                                                                    p_nat off with
                                                                    | Some v ->
                                                                    Some
                                                                    (Some v)
                                                                    | None ->
                                                                    None)
                                                            in
                                                            (match o with
                                                             | Some o' ->
                                                               let all =
                                                                 map N.of_nat
                                                                   (seq O
                                                                    (N.to_nat
                                                                    c))
                                                               in
                                                               let (items,
                                                                    next) =
                                                                 page_of
                                                                   (paging_new
                                                                    z0 o') all
                                                               in
                                                               join_sp
                                                                 ((kw (String
                                                                    ((Ascii
                                                                    (false,
                                                                    false,
                                                                    false,
                                                                    false,
                                                                    true,
                                                                    false,
                                                                    true,
                                                                    false)),
                                                                    (String
                                                                    ((Ascii
                                                                    (false,
                                                                    false,
                                                                    false,
                                                                    false,
                                                                    true,
                                                                    false,
                                                                    true,
                                                                    false)),
                                                                    EmptyString))))) :: (
                                                                 (r_num
                                                                   (len_N
                                                                    items)) :: ((
                                                                 match items with
                                                                 | [] ->
                                                                   (Npos (XI
                                                                    (XO (XI
                                                                    (XI (XO
                                                                    XH)))))) :: []
                                                                 | x :: _ ->
                                                                   r_num x) :: ((
                                                                 match next with
                                                                 | Some v ->
                                                                   r_num v
                                                                 | None ->
                                                                   (Npos (XI
                                                                    (XO (XI
                                                                    (XI (XO
                                                                    XH)))))) :: []) :: []))))
                                                             | None ->
                                                               (Npos (XI (XI
                                                                 (XI (XI (XI
                                                                 XH)))))) :: [])
                                                          | None ->
                                                            (Npos (XI (XI (XI
                                                              (XI (XI
                                                              XH)))))) :: [])
                                                       | None ->
                                                         (Npos (XI (XI (XI
                                                           (XI (XI
                                                           XH)))))) :: [])
                                                    | _ :: _ ->
                                                      (Npos (XI (XI (XI (XI
                                                        (XI XH)))))) :: []))))
                                     else if is_kw (String ((Ascii (false,
                                               false, true, false, false,
                                               false, true, false)), (String
                                               ((Ascii (false, false, false,
                                               true, true, false, true,
                                               false)), EmptyString)))) op
                                          then (match args with
                                                | [] ->
                                                  (Npos (XI (XI (XI (XI (XI
                                                    XH)))))) :: []
                                                | t :: l ->
                                                  (match l with
                                                   | [] ->
                                                     (match p_int t with
                                                      | Some z0 ->
                                                        (match parse_ext z0 with
                                                         | ExtErr ->
                                                           join_sp
                                                             ((kw (String
                                                                ((Ascii
                                                                (false,
                                                                false, true,
                                                                false, false,
                                                                false, true,
                                                                false)),
                                                                (String
                                                                ((Ascii
                                                                (false,
                                                                false, false,
                                                                true, true,
                                                                false, true,
                                                                false)),
                                                                EmptyString))))) :: (
                                                             (r_num (Npos (XI
                                                               XH))) :: []))
                                                         | ExtNack ->
                                                           join_sp
                                                             ((kw (String
                                                                ((Ascii
                                                                (false,
                                                                false, true,
                                                                false, false,
                                                                false, true,
                                                                false)),
                                                                (String
                                                                ((Ascii
                                                                (false,
                                                                false, false,
                                                                true, true,
                                                                false, true,
                                                                false)),
                                                                EmptyString))))) :: (
                                                             (r_num N0) :: (((Npos
                                                             (XI (XO (XI (XI
                                                             (XO
                                                             XH)))))) :: []) :: [])))
                                                         | ExtSecs n0 ->
                                                           join_sp
                                                             ((kw (String
                                                                ((Ascii
                                                                (false,
                                                                false, true,
                                                                false, false,
                                                                false, true,
                                                                false)),
                                                                (String
                                                                ((Ascii
                                                                (false,
                                                                false, false,
                                                                true, true,
                                                                false, true,
                                                                false)),
                                                                EmptyString))))) :: (
                                                             (r_num N0) :: (
                                                             (r_num n0) :: []))))
                                                      | None ->
                                                        (Npos (XI (XI (XI (XI
                                                          (XI XH)))))) :: [])
                                                   | _ :: _ ->
                                                     (Npos (XI (XI (XI (XI
                                                       (XI XH)))))) :: []))
                                          else if is_kw (String ((Ascii
                                                    (false, false, false,
                                                    false, true, false, true,
                                                    false)), (String ((Ascii
                                                    (false, true, false,
                                                    true, false, false, true,
                                                    false)), EmptyString))))
                                                    op
                                               then (match args with
                                                     | [] ->
                                                       (Npos (XI (XI (XI (XI
                                                         (XI XH)))))) :: []
                                                     | s :: l ->
                                                       (match l with
                                                        | [] ->
                                                          (match p_str s with
                                                           | Some x ->
                                                             (match parse_project
                                                                    x with
                                                              | Some p ->
                                                                join_sp
                                                                  ((kw
                                                                    (String
                                                                    ((Ascii
                                                                    (false,
                                                                    false,
                                                                    false,
                                                                    false,
                                                                    true,
                                                                    false,
                                                                    true,
                                                                    false)),
                                                                    (String
                                                                    ((Ascii
                                                                    (false,
                                                                    true,
                                                                    false,
                                                                    true,
                                                                    false,
                                                                    false,
                                                                    true,
                                                                    false)),
                                                                    EmptyString))))) :: (
                                                                  (r_num N0) :: (
                                                                  (r_str p) :: [])))
                                                              | None ->
                                                                join_sp
                                                                  ((kw
                                                                    (String
                                                                    ((Ascii
                                                                    (false,
                                                                    false,
                                                                    false,
                                                                    false,
                                                                    true,
                                                                    false,
                                                                    true,
                                                                    false)),
                                                                    (String
                                                                    ((Ascii
                                                                    (false,
                                                                    true,
                                                                    false,
                                                                    true,
                                                                    false,
                                                                    false,
                                                                    true,
                                                                    false)),
                                                                    EmptyString))))) :: (
                                                                  (r_num
                                                                    (Npos (XI
                                                                    XH))) :: [])))
                                                           | None ->
                                                             (Npos (XI (XI
                                                               (XI (XI (XI
                                                               XH)))))) :: [])
                                                        | _ :: _ ->
                                                          (Npos (XI (XI (XI
                                                            (XI (XI
                                                            XH)))))) :: []))
                                               else if is_kw (String ((Ascii
                                                         (false, false,
                                                         false, false, true,
                                                         false, true,
                                                         false)), (String
                                                         ((Ascii (true, true,
                                                         false, false, false,
                                                         false, true,
                                                         false)),
                                                         EmptyString)))) op
                                                    then (match args with
                                                          | [] ->
                                                            (Npos (XI (XI (XI
                                                              (XI (XI
                                                              XH)))))) :: []
                                                          | s :: l ->
                                                            (match l with
                                                             | [] ->
                                                               (match 
                                                                p_str s with
                                                                | Some x ->
                                                                  (match 
                                                                   parse_push
                                                                    (Some x) with
                                                                   | Some o ->
                                                                    (match o with
                                                                    | Some e ->
                                                                    join_sp
                                                                    ((kw
                                                                    (String
                                                                    ((Ascii
                                                                    (false,
                                                                    false,
                                                                    false,
                                                                    false,
                                                                    true,
                                                                    false,
                                                                    true,
                                                                    false)),
                                                                    (String
                                                                    ((Ascii
                                                                    (true,
                                                                    true,
                                                                    false,
                                                                    false,
                                                                    false,
                                                                    false,
                                                                    true,
                                                                    false)),
                                                                    EmptyString))))) :: (
                                                                    (r_num N0) :: (
                                                                    (r_str e) :: [])))
                                                                    | None ->
                                                                    join_sp
                                                                    ((kw
                                                                    (String
                                                                    ((Ascii
                                                                    (false,
                                                                    false,
                                                                    false,
                                                                    false,
                                                                    true,
                                                                    false,
                                                                    true,
                                                                    false)),
                                                                    (String
                                                                    ((Ascii
                                                                    (true,
                                                                    true,
                                                                    false,
                                                                    false,
                                                                    false,
                                                                    false,
                                                                    true,
                                                                    false)),
                                                                    EmptyString))))) :: (
                                                                    (r_num
                                                                    (Npos (XI
                                                                    XH))) :: [])))
                                                                   | None ->
                                                                    join_sp
                                                                    ((kw
                                                                    (String
                                                                    ((Ascii
                                                                    (false,
                                                                    false,
                                                                    false,
                                                                    false,
                                                                    true,
                                                                    false,
                                                                    true,
                                                                    false)),
                                                                    (String
                                                                    ((Ascii
                                                                    (true,
                                                                    true,
                                                                    false,
                                                                    false,
                                                                    false,
                                                                    false,
                                                                    true,
                                                                    false)),
                                                                    EmptyString))))) :: (
                                                                    (r_num
                                                                    (Npos (XI
                                                                    XH))) :: [])))
                                                                | None ->
                                                                  (Npos (XI
                                                                    (XI (XI
                                                                    (XI (XI
                                                                    XH)))))) :: [])
                                                             | _ :: _ ->
                                                               (Npos (XI (XI
                                                                 (XI (XI (XI
                                                                 XH)))))) :: []))
                                                    else if is_kw (String
                                                              ((Ascii (true,
                                                              false, true,
                                                              true, false,
                                                              false, true,
                                                              false)),
                                                              (String ((Ascii
                                                              (true, false,
                                                              false, true,
                                                              false, false,
                                                              true, false)),
                                                              EmptyString))))
                                                              op
                                                         then (match args with
                                                               | [] ->
                                                                 (Npos (XI
                                                                   (XI (XI
                                                                   (XI (XI
                                                                   XH)))))) :: []
                                                               | a :: l ->
                                                                 (match l with
                                                                  | [] ->
                                                                    (Npos (XI
                                                                    (XI (XI
                                                                    (XI (XI
                                                                    XH)))))) :: []
                                                                  | b :: l0 ->
                                                                    (match l0 with
                                                                    | [] ->
                                                                    (match 
                                                                    p_nat a with
                                                                    | Some x ->
                                                                    (match 
                                                                    p_nat b with
                                                                    | Some y ->
                                                                    join_sp
                                                                    ((kw
                                                                    (String
                                                                    ((Ascii
                                                                    (true,
                                                                    false,
                                                                    true,
                                                                    true,
                                                                    false,
                                                                    false,
                                                                    true,
                                                                    false)),
                                                                    (String
                                                                    ((Ascii
                                                                    (true,
                                                                    false,
                                                                    false,
                                                                    true,
                                                                    false,
                                                                    false,
                                                                    true,
                                                                    false)),
                                                                    EmptyString))))) :: (
                                                                    (r_num
                                                                    (message_id
                                                                    x y)) :: []))
                                                                    | None ->
                                                                    (Npos (XI
                                                                    (XI (XI
                                                                    (XI (XI
                                                                    XH)))))) :: [])
                                                                    | None ->
                                                                    (Npos (XI
                                                                    (XI (XI
                                                                    (XI (XI
                                                                    XH)))))) :: [])
                                                                    | _ :: _ ->
                                                                    (Npos (XI
                                                                    (XI (XI
                                                                    (XI (XI
                                                                    XH)))))) :: [])))
                                                         else (Npos (XI (XI
                                                                (XI (XI (XI
                                                                XH)))))) :: []

(** val pure_file : str -> str **)

let pure_file text =
  join_nl
    (map pure_line
      (filter (fun l -> negb (is_nil l)) (map tokens (split_on nl text))))

type cfg = { max_m : n; max_b : n }

type wpc =
| W0
| W1 of n
| WL
| WS of n
| WM of n * n
| WP of n * n * n option
| WParked of n * n * n option
| WDone of n * n

type mkind =
| Inc
| Dec

type mpc =
| M0
| M1
| M2
| MDone

type thread =
| TW of wpc
| TM of mkind * n * n * mpc

type state = { msgs : n; bytes : n; calls : n; threads : thread list }

(** val upd : nat -> 'a1 -> 'a1 list -> 'a1 list **)

let rec upd i x = function
| [] -> []
| y :: r -> (match i with
             | O -> x :: r
             | S j -> y :: (upd j x r))

(** val apply : mkind -> n -> n -> n **)

let apply k v d =
  match k with
  | Inc ->
    N.modulo (N.add v d)
      (N.pow (Npos (XO XH)) (Npos (XO (XO (XO (XO (XO (XO XH))))))))
  | Dec ->
    N.modulo
      (N.add v
        (N.sub (N.pow (Npos (XO XH)) (Npos (XO (XO (XO (XO (XO (XO XH))))))))
          (N.modulo d
            (N.pow (Npos (XO XH)) (Npos (XO (XO (XO (XO (XO (XO XH)))))))))))
      (N.pow (Npos (XO XH)) (Npos (XO (XO (XO (XO (XO (XO XH))))))))

(** val wstep : cfg -> n -> n -> n -> wpc -> wpc option **)

let wstep c ms bs ca = function
| W0 -> Some (if N.ltb ms c.max_m then W1 ms else WL)
| W1 m -> Some (if N.ltb bs c.max_b then WDone (m, bs) else WL)
| WL -> Some (WS ca)
| WS s -> Some (if N.ltb ms c.max_m then WM (s, ms) else WP (s, ms, None))
| WM (s, m) ->
  Some (if N.ltb bs c.max_b then WDone (m, bs) else WP (s, m, (Some bs)))
| WP (s, m, ob) -> Some (if N.eqb ca s then WParked (s, m, ob) else WL)
| _ -> None

(** val wake : thread -> thread **)

let wake t = match t with
| TW pc -> (match pc with
            | WParked (_, _, _) -> TW WL
            | _ -> t)
| TM (_, _, _, _) -> t

(** val step : cfg -> state -> nat -> state option **)

let step c st i =
  match nth_error st.threads i with
  | Some t ->
    (match t with
     | TW pc ->
       (match wstep c st.msgs st.bytes st.calls pc with
        | Some pc' ->
          Some { msgs = st.msgs; bytes = st.bytes; calls = st.calls;
            threads = (upd i (TW pc') st.threads) }
        | None -> None)
     | TM (k, db, dm, pc) ->
       (match pc with
        | M0 ->
          Some { msgs = st.msgs; bytes = (apply k st.bytes db); calls =
            st.calls; threads = (upd i (TM (k, db, dm, M1)) st.threads) }
        | M1 ->
          Some { msgs = (apply k st.msgs dm); bytes = st.bytes; calls =
            st.calls; threads = (upd i (TM (k, db, dm, M2)) st.threads) }
        | M2 ->
          Some { msgs = st.msgs; bytes = st.bytes; calls =
            (N.add st.calls (Npos XH)); threads =
            (upd i (TM (k, db, dm, MDone)) (map wake st.threads)) }
        | MDone -> None))
  | None -> None

(** val fc_wname : wpc -> str **)

let fc_wname = function
| W0 ->
  kw (String ((Ascii (false, false, true, true, false, true, true, false)),
    (String ((Ascii (true, true, true, true, false, true, true, false)),
    (String ((Ascii (true, false, false, false, false, true, true, false)),
    (String ((Ascii (false, false, true, false, false, true, true, false)),
    (String ((Ascii (true, true, true, true, true, false, true, false)),
    (String ((Ascii (true, false, true, true, false, true, true, false)),
    (String ((Ascii (true, true, false, false, true, true, true, false)),
    (String ((Ascii (true, true, true, false, false, true, true, false)),
    (String ((Ascii (true, true, false, false, true, true, true, false)),
    EmptyString))))))))))))))))))
| WL ->
  kw (String ((Ascii (false, true, true, true, false, true, true, false)),
    (String ((Ascii (true, true, true, true, false, true, true, false)),
    (String ((Ascii (false, false, true, false, true, true, true, false)),
    (String ((Ascii (true, false, false, true, false, true, true, false)),
    (String ((Ascii (false, true, true, false, false, true, true, false)),
    (String ((Ascii (true, false, false, true, false, true, true, false)),
    (String ((Ascii (true, false, true, false, false, true, true, false)),
    (String ((Ascii (false, false, true, false, false, true, true, false)),
    EmptyString))))))))))))))))
| WS _ ->
  kw (String ((Ascii (false, false, true, true, false, true, true, false)),
    (String ((Ascii (true, true, true, true, false, true, true, false)),
    (String ((Ascii (true, false, false, false, false, true, true, false)),
    (String ((Ascii (false, false, true, false, false, true, true, false)),
    (String ((Ascii (true, true, true, true, true, false, true, false)),
    (String ((Ascii (true, false, true, true, false, true, true, false)),
    (String ((Ascii (true, true, false, false, true, true, true, false)),
    (String ((Ascii (true, true, true, false, false, true, true, false)),
    (String ((Ascii (true, true, false, false, true, true, true, false)),
    EmptyString))))))))))))))))))
| WP (_, _, _) ->
  kw (String ((Ascii (false, false, false, false, true, true, true, false)),
    (String ((Ascii (true, true, true, true, false, true, true, false)),
    (String ((Ascii (false, false, true, true, false, true, true, false)),
    (String ((Ascii (false, false, true, true, false, true, true, false)),
    EmptyString))))))))
| WParked (_, _, _) ->
  kw (String ((Ascii (false, false, false, false, true, true, true, false)),
    (String ((Ascii (true, false, false, false, false, true, true, false)),
    (String ((Ascii (false, true, false, false, true, true, true, false)),
    (String ((Ascii (true, true, false, true, false, true, true, false)),
    (String ((Ascii (true, false, true, false, false, true, true, false)),
    (String ((Ascii (false, false, true, false, false, true, true, false)),
    EmptyString))))))))))))
| WDone (_, _) ->
  kw (String ((Ascii (false, false, true, false, false, true, true, false)),
    (String ((Ascii (true, true, true, true, false, true, true, false)),
    (String ((Ascii (false, true, true, true, false, true, true, false)),
    (String ((Ascii (true, false, true, false, false, true, true, false)),
    EmptyString))))))))
| _ ->
  kw (String ((Ascii (false, false, true, true, false, true, true, false)),
    (String ((Ascii (true, true, true, true, false, true, true, false)),
    (String ((Ascii (true, false, false, false, false, true, true, false)),
    (String ((Ascii (false, false, true, false, false, true, true, false)),
    (String ((Ascii (true, true, true, true, true, false, true, false)),
    (String ((Ascii (false, true, false, false, false, true, true, false)),
    (String ((Ascii (true, false, false, true, true, true, true, false)),
    (String ((Ascii (false, false, true, false, true, true, true, false)),
    (String ((Ascii (true, false, true, false, false, true, true, false)),
    (String ((Ascii (true, true, false, false, true, true, true, false)),
    EmptyString))))))))))))))))))))

(** val fc_mname : mpc -> str **)

let fc_mname = function
| M0 ->
  kw (String ((Ascii (false, true, true, false, false, true, true, false)),
    (String ((Ascii (true, false, true, false, false, true, true, false)),
    (String ((Ascii (false, false, true, false, true, true, true, false)),
    (String ((Ascii (true, true, false, false, false, true, true, false)),
    (String ((Ascii (false, false, false, true, false, true, true, false)),
    (String ((Ascii (true, true, true, true, true, false, true, false)),
    (String ((Ascii (false, true, false, false, false, true, true, false)),
    (String ((Ascii (true, false, false, true, true, true, true, false)),
    (String ((Ascii (false, false, true, false, true, true, true, false)),
    (String ((Ascii (true, false, true, false, false, true, true, false)),
    (String ((Ascii (true, true, false, false, true, true, true, false)),
    EmptyString))))))))))))))))))))))
| M1 ->
  kw (String ((Ascii (false, true, true, false, false, true, true, false)),
    (String ((Ascii (true, false, true, false, false, true, true, false)),
    (String ((Ascii (false, false, true, false, true, true, true, false)),
    (String ((Ascii (true, true, false, false, false, true, true, false)),
    (String ((Ascii (false, false, false, true, false, true, true, false)),
    (String ((Ascii (true, true, true, true, true, false, true, false)),
    (String ((Ascii (true, false, true, true, false, true, true, false)),
    (String ((Ascii (true, true, false, false, true, true, true, false)),
    (String ((Ascii (true, true, true, false, false, true, true, false)),
    (String ((Ascii (true, true, false, false, true, true, true, false)),
    EmptyString))))))))))))))))))))
| M2 ->
  kw (String ((Ascii (false, true, true, true, false, true, true, false)),
    (String ((Ascii (true, true, true, true, false, true, true, false)),
    (String ((Ascii (false, false, true, false, true, true, true, false)),
    (String ((Ascii (true, false, false, true, false, true, true, false)),
    (String ((Ascii (false, true, true, false, false, true, true, false)),
    (String ((Ascii (true, false, false, true, true, true, true, false)),
    EmptyString))))))))))))
| MDone ->
  kw (String ((Ascii (false, false, true, false, false, true, true, false)),
    (String ((Ascii (true, true, true, true, false, true, true, false)),
    (String ((Ascii (false, true, true, true, false, true, true, false)),
    (String ((Ascii (true, false, true, false, false, true, true, false)),
    EmptyString))))))))

(** val fc_tname : thread -> str **)

let fc_tname = function
| TW pc -> fc_wname pc
| TM (_, _, _, pc) -> fc_mname pc

(** val fc_dash : str **)

let fc_dash =
  (Npos (XI (XO (XI (XI (XO XH)))))) :: []

(** val fc_bad : str list **)

let fc_bad =
  ((Npos (XI (XI (XI (XI (XI XH)))))) :: []) :: []

(** val fc_step : cfg -> state -> n -> state option **)

let fc_step c st i =
  if N.ltb i (len_N st.threads) then step c st (N.to_nat i) else None

(** val fc_sched : cfg -> state -> n list -> str list * state **)

let rec fc_sched c st = function
| [] -> ([], st)
| i :: r ->
  (match fc_step c st i with
   | Some st' ->
     let nm =
       match nth_error st'.threads (N.to_nat i) with
       | Some t -> fc_tname t
       | None -> fc_dash
     in
     let (ls, fin) = fc_sched c st' r in
     (((join_sp ((r_num i) :: (nm :: []))) :: ls), fin)
   | None ->
     let (ls, fin) = fc_sched c st r in
     (((join_sp ((r_num i) :: (fc_dash :: []))) :: ls), fin))

(** val fc_final : state -> str **)

let fc_final st =
  join_sp
    (app
      ((kw (String ((Ascii (false, true, true, false, false, false, true,
         false)), (String ((Ascii (true, false, false, true, false, false,
         true, false)), (String ((Ascii (false, true, true, true, false,
         false, true, false)), (String ((Ascii (true, false, false, false,
         false, false, true, false)), (String ((Ascii (false, false, true,
         true, false, false, true, false)), EmptyString))))))))))) :: (
      (r_num st.msgs) :: ((r_num st.bytes) :: []))) (map fc_tname st.threads))

(** val fc_p_thread : str list -> thread option **)

let fc_p_thread = function
| [] -> None
| t :: l ->
  (match l with
   | [] -> None
   | k :: l0 ->
     (match l0 with
      | [] ->
        if (&&)
             (is_kw (String ((Ascii (false, false, true, false, true, false,
               true, false)), EmptyString)) t)
             (is_kw (String ((Ascii (true, true, true, false, true, false,
               true, false)), EmptyString)) k)
        then Some (TW W0)
        else None
      | a :: l1 ->
        (match l1 with
         | [] -> None
         | b :: l2 ->
           (match l2 with
            | [] ->
              if is_kw (String ((Ascii (false, false, true, false, true,
                   false, true, false)), EmptyString)) t
              then bind (p_nat a) (fun db ->
                     bind (p_nat b) (fun dm ->
                       if is_kw (String ((Ascii (true, false, false, true,
                            false, false, true, false)), EmptyString)) k
                       then Some (TM (Inc, db, dm, M0))
                       else if is_kw (String ((Ascii (false, false, true,
                                 false, false, false, true, false)),
                                 EmptyString)) k
                            then Some (TM (Dec, db, dm, M0))
                            else None))
              else None
            | _ :: _ -> None))))

(** val fc_p_nats : str list -> n list option **)

let rec fc_p_nats = function
| [] -> Some []
| t :: r ->
  bind (p_nat t) (fun x -> bind (fc_p_nats r) (fun l -> Some (x :: l)))

(** val fc_p_body :
    str list list -> thread list -> (thread list * n list) option **)

let rec fc_p_body lines acc =
  match lines with
  | [] -> None
  | l :: rest ->
    (match rest with
     | [] ->
       (match l with
        | [] -> None
        | s :: r ->
          if is_kw (String ((Ascii (true, true, false, false, true, false,
               true, false)), (String ((Ascii (true, true, false, false,
               false, false, true, false)), (String ((Ascii (false, false,
               false, true, false, false, true, false)), (String ((Ascii
               (true, false, true, false, false, false, true, false)),
               (String ((Ascii (false, false, true, false, false, false,
               true, false)), EmptyString)))))))))) s
          then bind (fc_p_nats r) (fun sc -> Some ((rev acc), sc))
          else None)
     | _ :: _ -> bind (fc_p_thread l) (fun t -> fc_p_body rest (t :: acc)))

(** val fc_p_cfg : str list -> ((cfg * n) * n) option **)

let fc_p_cfg = function
| [] -> None
| c :: l ->
  (match l with
   | [] -> None
   | a :: l0 ->
     (match l0 with
      | [] -> None
      | b :: l1 ->
        (match l1 with
         | [] -> None
         | m :: l2 ->
           (match l2 with
            | [] -> None
            | y :: l3 ->
              (match l3 with
               | [] ->
                 if is_kw (String ((Ascii (true, true, false, false, false,
                      false, true, false)), (String ((Ascii (false, true,
                      true, false, false, false, true, false)), (String
                      ((Ascii (true, true, true, false, false, false, true,
                      false)), EmptyString)))))) c
                 then bind (p_nat a) (fun mm ->
                        bind (p_nat b) (fun mb ->
                          bind (p_nat m) (fun im ->
                            bind (p_nat y) (fun ib -> Some (({ max_m = mm;
                              max_b = mb }, im), ib)))))
                 else None
               | _ :: _ -> None)))))

(** val fc_run_case : str list list -> str list **)

let fc_run_case = function
| [] -> fc_bad
| cl :: rest ->
  (match fc_p_cfg cl with
   | Some p ->
     let (p0, ib) = p in
     let (c, im) = p0 in
     (match fc_p_body rest [] with
      | Some p1 ->
        let (ths, sc) = p1 in
        let st0 = { msgs = im; bytes = ib; calls = N0; threads = ths } in
        let (ls, fin) = fc_sched c st0 sc in app ls ((fc_final fin) :: [])
      | None -> fc_bad)
   | None -> fc_bad)

(** val fc_case : (str * str list) -> str list **)

let fc_case c =
  (fst c) :: (app (fc_run_case (map tokens (snd c)))
               ((kw (String ((Ascii (true, false, true, false, false, false,
                  true, false)), (String ((Ascii (false, true, true, true,
                  false, false, true, false)), (String ((Ascii (false, false,
                  true, false, false, false, true, false)), EmptyString))))))) :: []))

(** val fc_file : str -> str **)

let fc_file text =
  join_nl (flat_map fc_case (cases_of (split_on nl text) None))

type notif =
| NNone
| NOne
| NAll

type poll_res =
| PollReadyPermit
| PollReadyCalls
| PollPending

(** val poll_init : bool -> nat -> nat -> poll_res **)

let poll_init permit0 calls1 snap =
  if permit0
  then PollReadyPermit
  else if Nat.eqb snap calls1 then PollPending else PollReadyCalls

type kind =
| Unary
| Stream

type outcome0 =
| OMessages of nat
| OEmpty
| OError
| ONotFound

type reply =
| RMsgs of nat
| RClosed

type phase =
| PU0 of bool
| PU1 of nat * bool
| PU2 of nat * reply option
| PU3 of nat
| PParked of notif
| PDone of outcome0
| PGone

type cons0 = { ckind : kind; cmax : nat; cphase : phase; ctimed : bool;
               cgot : nat }

(** val with_phase : phase -> cons0 -> cons0 **)

let with_phase p c =
  { ckind = c.ckind; cmax = c.cmax; cphase = p; ctimed = c.ctimed; cgot =
    c.cgot }

(** val with_timed : cons0 -> cons0 **)

let with_timed c =
  { ckind = c.ckind; cmax = c.cmax; cphase = c.cphase; ctimed = true; cgot =
    c.cgot }

(** val add_got : nat -> cons0 -> cons0 **)

let add_got k c =
  { ckind = c.ckind; cmax = c.cmax; cphase = c.cphase; ctimed = c.ctimed;
    cgot = (add c.cgot k) }

type req0 =
| RPost of nat
| RPull0 of nat * nat
| RNack of nat
| RAck0 of nat
| RDelete

type state0 = { permit : bool; waiters : nat list; calls0 : nat;
                backlog : nat; leased : nat; deleted : bool; exited : 
                bool; mailbox : req0 list; conss : cons0 list }

(** val init : state0 **)

let init =
  { permit = false; waiters = []; calls0 = O; backlog = O; leased = O;
    deleted = false; exited = false; mailbox = []; conss = [] }

(** val set_permit : bool -> state0 -> state0 **)

let set_permit b s =
  { permit = b; waiters = s.waiters; calls0 = s.calls0; backlog = s.backlog;
    leased = s.leased; deleted = s.deleted; exited = s.exited; mailbox =
    s.mailbox; conss = s.conss }

(** val set_waiters : nat list -> state0 -> state0 **)

let set_waiters w s =
  { permit = s.permit; waiters = w; calls0 = s.calls0; backlog = s.backlog;
    leased = s.leased; deleted = s.deleted; exited = s.exited; mailbox =
    s.mailbox; conss = s.conss }

(** val set_calls : nat -> state0 -> state0 **)

let set_calls n0 s =
  { permit = s.permit; waiters = s.waiters; calls0 = n0; backlog = s.backlog;
    leased = s.leased; deleted = s.deleted; exited = s.exited; mailbox =
    s.mailbox; conss = s.conss }

(** val set_backlog : nat -> state0 -> state0 **)

let set_backlog n0 s =
  { permit = s.permit; waiters = s.waiters; calls0 = s.calls0; backlog = n0;
    leased = s.leased; deleted = s.deleted; exited = s.exited; mailbox =
    s.mailbox; conss = s.conss }

(** val set_leased : nat -> state0 -> state0 **)

let set_leased n0 s =
  { permit = s.permit; waiters = s.waiters; calls0 = s.calls0; backlog =
    s.backlog; leased = n0; deleted = s.deleted; exited = s.exited; mailbox =
    s.mailbox; conss = s.conss }

(** val set_deleted : bool -> state0 -> state0 **)

let set_deleted b s =
  { permit = s.permit; waiters = s.waiters; calls0 = s.calls0; backlog =
    s.backlog; leased = s.leased; deleted = b; exited = s.exited; mailbox =
    s.mailbox; conss = s.conss }

(** val set_exited : bool -> state0 -> state0 **)

let set_exited b s =
  { permit = s.permit; waiters = s.waiters; calls0 = s.calls0; backlog =
    s.backlog; leased = s.leased; deleted = s.deleted; exited = b; mailbox =
    s.mailbox; conss = s.conss }

(** val set_mailbox : req0 list -> state0 -> state0 **)

let set_mailbox m s =
  { permit = s.permit; waiters = s.waiters; calls0 = s.calls0; backlog =
    s.backlog; leased = s.leased; deleted = s.deleted; exited = s.exited;
    mailbox = m; conss = s.conss }

(** val set_conss : cons0 list -> state0 -> state0 **)

let set_conss l s =
  { permit = s.permit; waiters = s.waiters; calls0 = s.calls0; backlog =
    s.backlog; leased = s.leased; deleted = s.deleted; exited = s.exited;
    mailbox = s.mailbox; conss = l }

(** val get : state0 -> nat -> cons0 option **)

let get s c =
  nth_error s.conss c

(** val upd0 : cons0 list -> nat -> (cons0 -> cons0) -> cons0 list **)

let rec upd0 l c f =
  match l with
  | [] -> []
  | x :: t -> (match c with
               | O -> (f x) :: t
               | S c' -> x :: (upd0 t c' f))

(** val setc : nat -> (cons0 -> cons0) -> state0 -> state0 **)

let setc c f s =
  set_conss (upd0 s.conss c f) s

(** val wake0 : notif -> cons0 -> cons0 **)

let wake0 n0 cs =
  match cs.cphase with
  | PParked n1 ->
    (match n1 with
     | NNone -> with_phase (PParked n0) cs
     | _ -> cs)
  | _ -> cs

(** val notify_one : state0 -> state0 **)

let notify_one s =
  match s.waiters with
  | [] -> set_permit true s
  | w :: ws -> set_waiters ws (setc w (wake0 NOne) s)

(** val notify_waiters : state0 -> state0 **)

let notify_waiters s =
  set_calls (S s.calls0)
    (set_waiters []
      (set_conss
        (fold_left (fun l w -> upd0 l w (wake0 NAll)) s.waiters s.conss) s))

(** val finish : phase -> nat -> (cons0 -> cons0) -> state0 -> state0 **)

let finish old c f s =
  let s1 = setc c f s in
  (match old with
   | PParked n0 ->
     (match n0 with
      | NNone -> set_waiters (remove Nat.eq_dec c s1.waiters) s1
      | NOne -> notify_one s1
      | NAll -> s1)
   | _ -> s1)

(** val leave :
    bool -> phase -> nat -> (cons0 -> cons0) -> state0 -> state0 **)

let leave ho old c f s =
  let s1 = finish old c f s in
  (match old with
   | PU1 (_, _) -> if ho then notify_one s1 else s1
   | _ -> s1)

(** val suspended : phase -> bool **)

let suspended = function
| PU0 owes -> if owes then false else true
| PDone _ -> false
| PGone -> false
| _ -> true

(** val closed_outcome : kind -> outcome0 **)

let closed_outcome = function
| Unary -> OError
| Stream -> ONotFound

(** val cons_step : bool -> nat -> state0 -> nat -> state0 option **)

let cons_step ho k s c =
  match get s c with
  | Some cs ->
    (match cs.cphase with
     | PU0 o -> Some (setc c (with_phase (PU1 (s.calls0, o))) s)
     | PU1 (snap, _) ->
       if s.exited
       then Some
              (leave ho cs.cphase c
                (with_phase (PDone (closed_outcome cs.ckind))) s)
       else if Nat.ltb (length s.mailbox) k
            then Some
                   (set_mailbox (app s.mailbox ((RPull0 (c, cs.cmax)) :: []))
                     (setc c (with_phase (PU2 (snap, None))) s))
            else None
     | PU2 (snap, r) ->
       (match r with
        | Some r0 ->
          (match r0 with
           | RMsgs k0 ->
             (match k0 with
              | O -> Some (setc c (with_phase (PU3 snap)) s)
              | S k1 ->
                (match cs.ckind with
                 | Unary ->
                   Some
                     (finish cs.cphase c (fun x ->
                       add_got (S k1)
                         (with_phase (PDone (OMessages (S k1))) x)) s)
                 | Stream ->
                   Some
                     (setc c (fun x ->
                       add_got (S k1) (with_phase (PU3 snap) x)) s)))
           | RClosed ->
             Some
               (finish cs.cphase c
                 (with_phase (PDone (closed_outcome cs.ckind))) s))
        | None -> None)
     | PU3 snap ->
       (match poll_init s.permit s.calls0 snap with
        | PollReadyPermit ->
          Some (set_permit false (setc c (with_phase (PU0 true)) s))
        | PollReadyCalls -> Some (setc c (with_phase (PU0 true)) s)
        | PollPending ->
          Some
            (set_waiters (app s.waiters (c :: []))
              (setc c (with_phase (PParked NNone)) s)))
     | PParked n0 ->
       (match n0 with
        | NNone -> None
        | _ -> Some (setc c (with_phase (PU0 true)) s))
     | _ -> None)
  | None -> None

(** val del_exit : bool -> state0 -> nat -> state0 option **)

let del_exit ho s c =
  if negb s.deleted
  then None
  else (match get s c with
        | Some cs ->
          (match cs.ckind with
           | Unary ->
             (match cs.cphase with
              | PU0 owes ->
                if owes
                then None
                else Some
                       (leave ho (PU0 false) c (with_phase (PDone ONotFound))
                         s)
              | PDone _ -> None
              | PGone -> None
              | x -> Some (leave ho x c (with_phase (PDone ONotFound)) s))
           | Stream ->
             (match cs.cphase with
              | PU3 snap ->
                Some (leave ho (PU3 snap) c (with_phase (PDone ONotFound)) s)
              | PParked n0 ->
                Some
                  (leave ho (PParked n0) c (with_phase (PDone ONotFound)) s)
              | _ -> None))
        | None -> None)

(** val alive : phase -> bool **)

let alive = function
| PDone _ -> false
| PGone -> false
| _ -> true

(** val timeout : bool -> state0 -> nat -> state0 option **)

let timeout ho s c =
  match get s c with
  | Some cs ->
    (match cs.ckind with
     | Unary ->
       if suspended cs.cphase
       then Some
              (leave ho cs.cphase c (fun x ->
                with_timed (with_phase (PDone OEmpty) x)) s)
       else None
     | Stream -> None)
  | None -> None

(** val cancel : bool -> state0 -> nat -> state0 option **)

let cancel ho s c =
  match get s c with
  | Some cs ->
    if suspended cs.cphase
    then Some (leave ho cs.cphase c (with_phase PGone) s)
    else None
  | None -> None

(** val deliver_f : reply -> cons0 -> cons0 **)

let deliver_f r cs =
  match cs.cphase with
  | PU2 (snap, r0) ->
    (match r0 with
     | Some _ -> cs
     | None -> with_phase (PU2 (snap, (Some r))) cs)
  | _ -> cs

(** val deliver : nat -> reply -> state0 -> state0 **)

let deliver c r s =
  setc c (deliver_f r) s

(** val requeue : nat -> state0 -> state0 **)

let requeue j s =
  let j' = Nat.min j s.leased in
  let s1 = set_leased (sub s.leased j') (set_backlog (add s.backlog j') s) in
  if Nat.ltb O (add s.backlog j') then notify_one s1 else s1

(** val pull_count0 : nat -> nat -> nat **)

let pull_count0 b m =
  Nat.min b (Nat.max (S O) m)

(** val turn : state0 -> state0 option **)

let turn s =
  if s.exited
  then None
  else (match s.mailbox with
        | [] -> None
        | r :: rest ->
          let s0 = set_mailbox rest s in
          Some
          (if s.deleted
           then (match r with
                 | RPull0 (c, _) -> deliver c (RMsgs O) s0
                 | _ -> s0)
           else (match r with
                 | RPost n0 -> notify_one (set_backlog (add s.backlog n0) s0)
                 | RPull0 (c, m) ->
                   let k = pull_count0 s.backlog m in
                   let s1 =
                     deliver c (RMsgs k)
                       (set_leased (add s.leased k)
                         (set_backlog (sub s.backlog k) s0))
                   in
                   if Nat.ltb O (sub s.backlog k) then notify_one s1 else s1
                 | RNack j -> requeue j s0
                 | RAck0 j ->
                   set_leased (sub s.leased (Nat.min j s.leased)) s0
                 | RDelete ->
                   notify_waiters
                     (set_deleted true (set_leased O (set_backlog O s0))))))

(** val close_req : state0 -> req0 -> state0 **)

let close_req s = function
| RPull0 (c, _) -> deliver c RClosed s
| _ -> s

(** val actor_exit : state0 -> state0 option **)

let actor_exit s =
  if (&&) s.deleted (negb s.exited)
  then Some
         (set_mailbox [] (set_exited true (fold_left close_req s.mailbox s)))
  else None

type label =
| LTurn
| LExit
| LCons of nat
| LDelExit of nat
| LEnq of req0
| LExpire of nat
| LArrive of kind * nat
| LCancel of nat
| LTimeout of nat

(** val is_pull : req0 -> bool **)

let is_pull = function
| RPull0 (_, _) -> true
| _ -> false

(** val new_cons : kind -> nat -> cons0 **)

let new_cons k m =
  { ckind = k; cmax = m; cphase = (PU0 false); ctimed = false; cgot = O }

(** val step0 : bool -> nat -> state0 -> label -> state0 option **)

let step0 ho k s = function
| LTurn -> turn s
| LExit -> actor_exit s
| LCons c -> cons_step ho k s c
| LDelExit c -> del_exit ho s c
| LEnq r ->
  if (||) ((||) (is_pull r) s.exited) (negb (Nat.ltb (length s.mailbox) k))
  then None
  else Some (set_mailbox (app s.mailbox (r :: [])) s)
| LExpire j ->
  if s.exited then None else Some (if s.deleted then s else requeue j s)
| LArrive (k0, m) -> Some (set_conss (app s.conss ((new_cons k0 m) :: [])) s)
| LCancel c -> cancel ho s c
| LTimeout c -> timeout ho s c

(** val cs_ho : bool **)

let cs_ho =
  true

(** val cs_K : nat **)

let cs_K =
  S (S (S (S (S (S (S (S (S (S (S (S (S (S (S (S O)))))))))))))))

type cs_state = { cs_st : state0; cs_ids : (n * nat) list }

(** val cs_init : cs_state **)

let cs_init =
  { cs_st = init; cs_ids = [] }

(** val cs_lookup : n -> (n * nat) list -> nat option **)

let rec cs_lookup id = function
| [] -> None
| p :: r -> let (k, c) = p in if N.eqb k id then Some c else cs_lookup id r

(** val cs_poll_steps : nat -> state0 -> nat -> state0 **)

let rec cs_poll_steps fuel s c =
  match fuel with
  | O -> s
  | S f ->
    (match cons_step cs_ho cs_K s c with
     | Some s' -> cs_poll_steps f s' c
     | None -> s)

(** val cs_got : state0 -> nat -> nat **)

let cs_got s c =
  match get s c with
  | Some cs -> cs.cgot
  | None -> O

(** val cs_poll_stream_steps : nat -> state0 -> nat -> state0 **)

let rec cs_poll_stream_steps fuel s c =
  match fuel with
  | O -> s
  | S f ->
    (match cons_step cs_ho cs_K s c with
     | Some s' ->
       if Nat.ltb (cs_got s c) (cs_got s' c)
       then s'
       else cs_poll_stream_steps f s' c
     | None -> s)

(** val cs_is_stream : state0 -> nat -> bool **)

let cs_is_stream s c =
  match get s c with
  | Some cs -> (match cs.ckind with
                | Unary -> false
                | Stream -> true)
  | None -> false

(** val cs_poll_stream : state0 -> nat -> state0 **)

let cs_poll_stream s c =
  let s1 =
    cs_poll_stream_steps (S (S (S (S (S (S (S (S (S (S (S (S (S (S (S (S (S
      (S (S (S (S (S (S (S (S (S (S (S (S (S (S (S (S (S (S (S (S (S (S (S
      O)))))))))))))))))))))))))))))))))))))))) s c
  in
  if Nat.ltb (cs_got s c) (cs_got s1 c)
  then s1
  else (match del_exit cs_ho s1 c with
        | Some s2 -> s2
        | None -> s1)

(** val cs_poll : state0 -> nat -> state0 **)

let cs_poll s c =
  let s1 =
    cs_poll_steps (S (S (S (S (S (S (S (S (S (S (S (S (S (S (S (S (S (S (S (S
      (S (S (S (S (S (S (S (S (S (S (S (S (S (S (S (S (S (S (S (S
      O)))))))))))))))))))))))))))))))))))))))) s c
  in
  (match del_exit cs_ho s1 c with
   | Some s2 -> s2
   | None -> s1)

(** val cs_turns : nat -> state0 -> state0 **)

let rec cs_turns fuel s =
  match fuel with
  | O -> s
  | S f -> (match turn s with
            | Some s' -> cs_turns f s'
            | None -> s)

(** val cs_settle : state0 -> state0 **)

let cs_settle s =
  let s1 =
    cs_turns (S (S (S (S (S (S (S (S (S (S (S (S (S (S (S (S (S (S (S (S (S
      (S (S (S (S (S (S (S (S (S (S (S (S (S (S (S (S (S (S (S (S (S (S (S (S
      (S (S (S (S (S (S (S (S (S (S (S (S (S (S (S (S (S (S (S (S (S (S (S (S
      (S (S (S (S (S (S (S (S (S (S (S (S (S (S (S (S (S (S (S (S (S (S (S (S
      (S (S (S (S (S (S (S (S (S (S (S (S (S (S (S (S (S (S (S (S (S (S (S (S
      (S (S (S (S (S (S (S (S (S (S (S (S (S (S (S (S (S (S (S (S (S (S (S (S
      (S (S (S (S (S (S (S (S (S (S (S (S (S (S (S (S (S (S (S (S (S (S (S (S
      (S (S (S (S (S (S (S (S (S (S (S (S (S (S (S (S (S (S (S (S (S (S (S (S
      (S (S (S (S (S (S (S (S (S (S (S (S (S (S (S (S (S (S (S (S (S (S (S (S
      (S (S (S (S (S (S (S (S (S (S (S (S (S (S (S (S (S (S (S (S (S (S (S (S
      (S (S (S (S (S (S (S (S (S (S (S (S (S (S (S (S (S (S (S (S (S (S (S (S
      (S (S (S (S (S (S (S (S (S (S (S (S (S (S (S (S (S (S (S (S (S (S (S (S
      (S (S (S (S (S (S (S (S (S (S (S (S (S (S (S (S (S (S (S (S (S (S (S (S
      (S (S (S (S (S (S (S (S (S (S (S (S (S (S (S (S (S (S (S (S (S (S (S (S
      (S (S (S (S (S (S (S (S (S (S (S (S (S (S (S (S (S (S (S (S (S (S (S (S
      (S (S (S (S (S (S (S (S (S (S (S (S (S (S (S (S (S (S (S (S (S (S (S (S
      (S (S (S (S (S (S (S (S (S (S (S (S (S (S (S (S (S (S (S
      O))))))))))))))))))))))))))))))))))))))))))))))))))))))))))))))))))))))))))))))))))))))))))))))))))))))))))))))))))))))))))))))))))))))))))))))))))))))))))))))))))))))))))))))))))))))))))))))))))))))))))))))))))))))))))))))))))))))))))))))))))))))))))))))))))))))))))))))))))))))))))))))))))))))))))))))))))))))))))))))))))))))))))))))))))))))))))))))))))))))))))))))))))))))))))))))))))))))))))))))))
      s
  in
  (match actor_exit s1 with
   | Some s2 -> s2
   | None -> s1)

(** val cs_request : req0 -> state0 -> state0 **)

let cs_request r s =
  let s1 = cs_settle s in
  (match step0 cs_ho cs_K s1 (LEnq r) with
   | Some s2 -> cs_settle s2
   | None -> s1)

(** val cs_fill : nat -> state0 -> state0 **)

let rec cs_fill n0 s =
  match n0 with
  | O -> s
  | S k ->
    (match step0 cs_ho cs_K s (LEnq (RAck0 O)) with
     | Some s' -> cs_fill k s'
     | None -> s)

(** val cs_phase_line : state0 -> nat -> str **)

let cs_phase_line s c =
  match get s c with
  | Some cs ->
    (match cs.cphase with
     | PDone o ->
       (match o with
        | OMessages k ->
          join_sp
            ((kw (String ((Ascii (false, false, false, true, true, false,
               true, false)), (String ((Ascii (true, false, false, false,
               true, false, true, false)), EmptyString))))) :: ((kw (String
                                                                  ((Ascii
                                                                  (false,
                                                                  false,
                                                                  true,
                                                                  false,
                                                                  false,
                                                                  true, true,
                                                                  false)),
                                                                  (String
                                                                  ((Ascii
                                                                  (true,
                                                                  true, true,
                                                                  true,
                                                                  false,
                                                                  true, true,
                                                                  false)),
                                                                  (String
                                                                  ((Ascii
                                                                  (false,
                                                                  true, true,
                                                                  true,
                                                                  false,
                                                                  true, true,
                                                                  false)),
                                                                  (String
                                                                  ((Ascii
                                                                  (true,
                                                                  false,
                                                                  true,
                                                                  false,
                                                                  false,
                                                                  true, true,
                                                                  false)),
                                                                  EmptyString))))))))) :: (
            (kw (String ((Ascii (false, false, false, false, true, true,
              false, false)), EmptyString))) :: ((r_num (N.of_nat k)) :: []))))
        | OEmpty ->
          join_sp
            ((kw (String ((Ascii (false, false, false, true, true, false,
               true, false)), (String ((Ascii (true, false, false, false,
               true, false, true, false)), EmptyString))))) :: ((kw (String
                                                                  ((Ascii
                                                                  (false,
                                                                  false,
                                                                  true,
                                                                  false,
                                                                  false,
                                                                  true, true,
                                                                  false)),
                                                                  (String
                                                                  ((Ascii
                                                                  (true,
                                                                  true, true,
                                                                  true,
                                                                  false,
                                                                  true, true,
                                                                  false)),
                                                                  (String
                                                                  ((Ascii
                                                                  (false,
                                                                  true, true,
                                                                  true,
                                                                  false,
                                                                  true, true,
                                                                  false)),
                                                                  (String
                                                                  ((Ascii
                                                                  (true,
                                                                  false,
                                                                  true,
                                                                  false,
                                                                  false,
                                                                  true, true,
                                                                  false)),
                                                                  EmptyString))))))))) :: (
            (kw (String ((Ascii (false, false, false, false, true, true,
              false, false)), EmptyString))) :: ((kw (String ((Ascii (false,
                                                   false, false, false, true,
                                                   true, false, false)),
                                                   EmptyString))) :: []))))
        | _ ->
          join_sp
            ((kw (String ((Ascii (false, false, false, true, true, false,
               true, false)), (String ((Ascii (true, false, false, false,
               true, false, true, false)), EmptyString))))) :: ((kw (String
                                                                  ((Ascii
                                                                  (false,
                                                                  false,
                                                                  true,
                                                                  false,
                                                                  false,
                                                                  true, true,
                                                                  false)),
                                                                  (String
                                                                  ((Ascii
                                                                  (true,
                                                                  true, true,
                                                                  true,
                                                                  false,
                                                                  true, true,
                                                                  false)),
                                                                  (String
                                                                  ((Ascii
                                                                  (false,
                                                                  true, true,
                                                                  true,
                                                                  false,
                                                                  true, true,
                                                                  false)),
                                                                  (String
                                                                  ((Ascii
                                                                  (true,
                                                                  false,
                                                                  true,
                                                                  false,
                                                                  false,
                                                                  true, true,
                                                                  false)),
                                                                  EmptyString))))))))) :: (
            (kw (String ((Ascii (true, false, true, false, false, true, true,
              false)), (String ((Ascii (false, true, false, false, true,
              true, true, false)), (String ((Ascii (false, true, false,
              false, true, true, true, false)), EmptyString))))))) :: []))))
     | PGone ->
       kw (String ((Ascii (true, true, true, true, true, true, false,
         false)), EmptyString))
     | _ ->
       join_sp
         ((kw (String ((Ascii (false, false, false, true, true, false, true,
            false)), (String ((Ascii (true, false, false, false, true, false,
            true, false)), EmptyString))))) :: ((kw (String ((Ascii (false,
                                                  false, false, false, true,
                                                  true, true, false)),
                                                  (String ((Ascii (true,
                                                  false, true, false, false,
                                                  true, true, false)),
                                                  (String ((Ascii (false,
                                                  true, true, true, false,
                                                  true, true, false)),
                                                  (String ((Ascii (false,
                                                  false, true, false, false,
                                                  true, true, false)),
                                                  (String ((Ascii (true,
                                                  false, false, true, false,
                                                  true, true, false)),
                                                  (String ((Ascii (false,
                                                  true, true, true, false,
                                                  true, true, false)),
                                                  (String ((Ascii (true,
                                                  true, true, false, false,
                                                  true, true, false)),
                                                  EmptyString))))))))))))))) :: [])))
  | None ->
    kw (String ((Ascii (true, true, true, true, true, true, false, false)),
      EmptyString))

(** val cs_bad : str **)

let cs_bad =
  (Npos (XI (XI (XI (XI (XI XH)))))) :: []

(** val cs_finished : state0 -> nat -> bool **)

let cs_finished s c =
  match get s c with
  | Some cs -> negb (alive cs.cphase)
  | None -> true

(** val cs_forget : n -> (n * nat) list -> (n * nat) list **)

let rec cs_forget id = function
| [] -> []
| p :: r ->
  let (k, c) = p in if N.eqb k id then r else (k, c) :: (cs_forget id r)

(** val cs_op : cs_state -> str list -> cs_state * str **)

let cs_op st ts =
  let s = st.cs_st in
  (match ts with
   | [] -> (st, cs_bad)
   | o :: args ->
     if is_kw (String ((Ascii (true, true, false, false, true, false, true,
          false)), (String ((Ascii (true, false, true, false, false, false,
          true, false)), (String ((Ascii (true, false, true, false, false,
          false, true, false)), (String ((Ascii (false, false, true, false,
          false, false, true, false)), EmptyString)))))))) o
     then (st,
            (kw (String ((Ascii (true, true, false, false, true, false, true,
              false)), (String ((Ascii (true, false, true, false, false,
              false, true, false)), (String ((Ascii (true, false, true,
              false, false, false, true, false)), (String ((Ascii (false,
              false, true, false, false, false, true, false)),
              EmptyString))))))))))
     else if is_kw (String ((Ascii (true, true, false, false, false, false,
               true, false)), (String ((Ascii (false, false, true, false,
               true, false, true, false)), EmptyString)))) o
          then (st,
                 (kw (String ((Ascii (true, true, false, false, false, false,
                   true, false)), (String ((Ascii (false, false, true, false,
                   true, false, true, false)), EmptyString))))))
          else if is_kw (String ((Ascii (true, true, false, false, false,
                    false, true, false)), (String ((Ascii (true, true, false,
                    false, true, false, true, false)), EmptyString)))) o
               then (st,
                      (kw (String ((Ascii (true, true, false, false, false,
                        false, true, false)), (String ((Ascii (true, true,
                        false, false, true, false, true, false)),
                        EmptyString))))))
               else if is_kw (String ((Ascii (false, false, false, true,
                         true, false, true, false)), (String ((Ascii (false,
                         true, true, true, false, false, true, false)),
                         EmptyString)))) o
                    then (match args with
                          | [] -> (st, cs_bad)
                          | id :: l ->
                            (match l with
                             | [] -> (st, cs_bad)
                             | _ :: l0 ->
                               (match l0 with
                                | [] -> (st, cs_bad)
                                | mx :: l1 ->
                                  (match l1 with
                                   | [] ->
                                     (match p_nat id with
                                      | Some i ->
                                        (match p_nat mx with
                                         | Some m ->
                                           let c = length s.conss in
                                           (match step0 cs_ho cs_K s (LArrive
                                                    (Unary, (N.to_nat m))) with
                                            | Some s' ->
                                              ({ cs_st = s'; cs_ids = ((i,
                                                c) :: st.cs_ids) },
                                                (kw (String ((Ascii (false,
                                                  false, false, true, true,
                                                  false, true, false)),
                                                  (String ((Ascii (false,
                                                  true, true, true, false,
                                                  false, true, false)),
                                                  EmptyString))))))
                                            | None -> (st, cs_bad))
                                         | None -> (st, cs_bad))
                                      | None -> (st, cs_bad))
                                   | _ :: _ -> (st, cs_bad)))))
                    else if is_kw (String ((Ascii (false, false, false, true,
                              true, false, true, false)), (String ((Ascii
                              (true, true, false, false, true, false, true,
                              false)), EmptyString)))) o
                         then (match args with
                               | [] -> (st, cs_bad)
                               | id :: l ->
                                 (match l with
                                  | [] -> (st, cs_bad)
                                  | _ :: l0 ->
                                    (match l0 with
                                     | [] -> (st, cs_bad)
                                     | mx :: l1 ->
                                       (match l1 with
                                        | [] ->
                                          (match p_nat id with
                                           | Some i ->
                                             (match p_nat mx with
                                              | Some m ->
                                                let c = length s.conss in
                                                (match step0 cs_ho cs_K s
                                                         (LArrive (Stream,
                                                         (N.to_nat m))) with
                                                 | Some s' ->
                                                   ({ cs_st = s'; cs_ids =
                                                     ((i, c) :: st.cs_ids) },
                                                     (kw (String ((Ascii
                                                       (false, false, false,
                                                       true, true, false,
                                                       true, false)), (String
                                                       ((Ascii (true, true,
                                                       false, false, true,
                                                       false, true, false)),
                                                       EmptyString))))))
                                                 | None -> (st, cs_bad))
                                              | None -> (st, cs_bad))
                                           | None -> (st, cs_bad))
                                        | _ :: _ -> (st, cs_bad)))))
                         else if is_kw (String ((Ascii (false, false, false,
                                   true, true, false, true, false)), (String
                                   ((Ascii (true, false, false, false, true,
                                   false, true, false)), EmptyString)))) o
                              then (match args with
                                    | [] -> (st, cs_bad)
                                    | id :: l ->
                                      (match l with
                                       | [] ->
                                         (match p_nat id with
                                          | Some i ->
                                            (match cs_lookup i st.cs_ids with
                                             | Some c ->
                                               if cs_is_stream s c
                                               then let s' =
                                                      cs_poll_stream s c
                                                    in
                                                    ({ cs_st = s'; cs_ids =
                                                    (if cs_finished s' c
                                                     then cs_forget i
                                                            st.cs_ids
                                                     else st.cs_ids) },
                                                    (if Nat.ltb (cs_got s c)
                                                          (cs_got s' c)
                                                     then join_sp
                                                            ((kw (String
                                                               ((Ascii
                                                               (false, false,
                                                               false, true,
                                                               true, false,
                                                               true, false)),
                                                               (String
                                                               ((Ascii (true,
                                                               false, false,
                                                               false, true,
                                                               false, true,
                                                               false)),
                                                               EmptyString))))) :: (
                                                            (kw (String
                                                              ((Ascii (false,
                                                              true, false,
                                                              false, false,
                                                              true, true,
                                                              false)),
                                                              (String ((Ascii
                                                              (true, false,
                                                              false, false,
                                                              false, true,
                                                              true, false)),
                                                              (String ((Ascii
                                                              (false, false,
                                                              true, false,
                                                              true, true,
                                                              true, false)),
                                                              (String ((Ascii
                                                              (true, true,
                                                              false, false,
                                                              false, true,
                                                              true, false)),
                                                              (String ((Ascii
                                                              (false, false,
                                                              false, true,
                                                              false, true,
                                                              true, false)),
                                                              EmptyString))))))))))) :: (
                                                            (r_num
                                                              (N.of_nat
                                                                (sub
                                                                  (cs_got s'
                                                                    c)
                                                                  (cs_got s c)))) :: [])))
                                                     else cs_phase_line s' c))
                                               else let s' = cs_poll s c in
                                                    ({ cs_st = s'; cs_ids =
                                                    (if cs_finished s' c
                                                     then cs_forget i
                                                            st.cs_ids
                                                     else st.cs_ids) },
                                                    (cs_phase_line s' c))
                                             | None ->
                                               (st,
                                                 (join_sp
                                                   ((kw (String ((Ascii
                                                      (false, false, false,
                                                      true, true, false,
                                                      true, false)), (String
                                                      ((Ascii (true, false,
                                                      false, false, true,
                                                      false, true, false)),
                                                      EmptyString))))) :: (
                                                   (kw (String ((Ascii (true,
                                                     true, true, false,
                                                     false, true, true,
                                                     false)), (String ((Ascii
                                                     (true, true, true, true,
                                                     false, true, true,
                                                     false)), (String ((Ascii
                                                     (false, true, true,
                                                     true, false, true, true,
                                                     false)), (String ((Ascii
                                                     (true, false, true,
                                                     false, false, true,
                                                     true, false)),
                                                     EmptyString))))))))) :: [])))))
                                          | None -> (st, cs_bad))
                                       | _ :: _ -> (st, cs_bad)))
                              else if is_kw (String ((Ascii (false, false,
                                        false, true, true, false, true,
                                        false)), (String ((Ascii (false,
                                        false, true, false, false, false,
                                        true, false)), EmptyString)))) o
                                   then (match args with
                                         | [] -> (st, cs_bad)
                                         | id :: l ->
                                           (match l with
                                            | [] ->
                                              (match p_nat id with
                                               | Some i ->
                                                 (match cs_lookup i st.cs_ids with
                                                  | Some c ->
                                                    (match cancel cs_ho s c with
                                                     | Some s' ->
                                                       ({ cs_st = s';
                                                         cs_ids =
                                                         (cs_forget i
                                                           st.cs_ids) },
                                                         (kw (String ((Ascii
                                                           (false, false,
                                                           false, true, true,
                                                           false, true,
                                                           false)), (String
                                                           ((Ascii (false,
                                                           false, true,
                                                           false, false,
                                                           false, true,
                                                           false)),
                                                           EmptyString))))))
                                                     | None -> (st, cs_bad))
                                                  | None ->
                                                    (st,
                                                      (join_sp
                                                        ((kw (String ((Ascii
                                                           (false, false,
                                                           false, true, true,
                                                           false, true,
                                                           false)), (String
                                                           ((Ascii (false,
                                                           false, true,
                                                           false, false,
                                                           false, true,
                                                           false)),
                                                           EmptyString))))) :: (
                                                        (kw (String ((Ascii
                                                          (true, true, true,
                                                          false, false, true,
                                                          true, false)),
                                                          (String ((Ascii
                                                          (true, true, true,
                                                          true, false, true,
                                                          true, false)),
                                                          (String ((Ascii
                                                          (false, true, true,
                                                          true, false, true,
                                                          true, false)),
                                                          (String ((Ascii
                                                          (true, false, true,
                                                          false, false, true,
                                                          true, false)),
                                                          EmptyString))))))))) :: [])))))
                                               | None -> (st, cs_bad))
                                            | _ :: _ -> (st, cs_bad)))
                                   else if is_kw (String ((Ascii (false,
                                             false, false, true, true, false,
                                             true, false)), (String ((Ascii
                                             (false, true, true, false,
                                             false, false, true, false)),
                                             EmptyString)))) o
                                        then (match args with
                                              | [] -> (st, cs_bad)
                                              | _ :: l ->
                                                (match l with
                                                 | [] -> (st, cs_bad)
                                                 | n0 :: l0 ->
                                                   (match l0 with
                                                    | [] ->
                                                      (match p_nat n0 with
                                                       | Some k ->
                                                         ({ cs_st =
                                                           (cs_fill
                                                             (N.to_nat k) s);
                                                           cs_ids =
                                                           st.cs_ids },
                                                           (kw (String
                                                             ((Ascii (false,
                                                             false, false,
                                                             true, true,
                                                             false, true,
                                                             false)), (String
                                                             ((Ascii (false,
                                                             true, true,
                                                             false, false,
                                                             false, true,
                                                             false)),
                                                             EmptyString))))))
                                                       | None -> (st, cs_bad))
                                                    | _ :: _ -> (st, cs_bad))))
                                        else if is_kw (String ((Ascii (false,
                                                  false, false, true, true,
                                                  false, true, false)),
                                                  (String ((Ascii (false,
                                                  false, true, false, true,
                                                  false, true, false)),
                                                  EmptyString)))) o
                                             then ({ cs_st = (cs_settle s);
                                                    cs_ids = st.cs_ids },
                                                    (kw (String ((Ascii
                                                      (false, false, false,
                                                      true, true, false,
                                                      true, false)), (String
                                                      ((Ascii (false, false,
                                                      true, false, true,
                                                      false, true, false)),
                                                      EmptyString))))))
                                             else if is_kw (String ((Ascii
                                                       (false, false, false,
                                                       false, true, false,
                                                       true, false)), (String
                                                       ((Ascii (true, false,
                                                       true, false, true,
                                                       false, true, false)),
                                                       (String ((Ascii
                                                       (false, true, false,
                                                       false, false, false,
                                                       true, false)), (String
                                                       ((Ascii (false, true,
                                                       true, true, false,
                                                       false, true, false)),
                                                       EmptyString)))))))) o
                                                  then (match args with
                                                        | [] -> (st, cs_bad)
                                                        | _ :: l ->
                                                          (match l with
                                                           | [] ->
                                                             (st, cs_bad)
                                                           | n0 :: l0 ->
                                                             (match l0 with
                                                              | [] ->
                                                                (st, cs_bad)
                                                              | _ :: l1 ->
                                                                (match l1 with
                                                                 | [] ->
                                                                   (match 
                                                                    p_nat n0 with
                                                                    | Some k ->
                                                                    ({ cs_st =
                                                                    (cs_request
                                                                    (RPost
                                                                    (N.to_nat
                                                                    k)) s);
                                                                    cs_ids =
                                                                    st.cs_ids },
                                                                    (kw
                                                                    (String
                                                                    ((Ascii
                                                                    (false,
                                                                    false,
                                                                    false,
                                                                    false,
                                                                    true,
                                                                    false,
                                                                    true,
                                                                    false)),
                                                                    (String
                                                                    ((Ascii
                                                                    (true,
                                                                    false,
                                                                    true,
                                                                    false,
                                                                    true,
                                                                    false,
                                                                    true,
                                                                    false)),
                                                                    (String
                                                                    ((Ascii
                                                                    (false,
                                                                    true,
                                                                    false,
                                                                    false,
                                                                    false,
                                                                    false,
                                                                    true,
                                                                    false)),
                                                                    EmptyString))))))))
                                                                    | None ->
                                                                    (st,
                                                                    cs_bad))
                                                                 | _ :: _ ->
                                                                   (st,
                                                                    cs_bad)))))
                                                  else if is_kw (String
                                                            ((Ascii (true,
                                                            false, false,
                                                            false, false,
                                                            false, true,
                                                            false)), (String
                                                            ((Ascii (false,
                                                            false, true,
                                                            false, false,
                                                            false, true,
                                                            false)), (String
                                                            ((Ascii (false,
                                                            true, true,
                                                            false, true,
                                                            false, true,
                                                            false)),
                                                            EmptyString))))))
                                                            o
                                                       then let s1 =
                                                              cs_settle s
                                                            in
                                                            let s2 =
                                                              if Nat.eqb
                                                                   s1.leased O
                                                              then s1
                                                              else (match 
                                                                    step0
                                                                    cs_ho
                                                                    cs_K s1
                                                                    (LExpire
                                                                    s1.leased) with
                                                                    | Some x ->
                                                                    x
                                                                    | None ->
                                                                    s1)
                                                            in
                                                            ({ cs_st =
                                                            (cs_settle s2);
                                                            cs_ids =
                                                            st.cs_ids },
                                                            (kw (String
                                                              ((Ascii (true,
                                                              false, false,
                                                              false, false,
                                                              false, true,
                                                              false)),
                                                              (String ((Ascii
                                                              (false, false,
                                                              true, false,
                                                              false, false,
                                                              true, false)),
                                                              (String ((Ascii
                                                              (false, true,
                                                              true, false,
                                                              true, false,
                                                              true, false)),
                                                              EmptyString))))))))
                                                       else if is_kw (String
                                                                 ((Ascii
                                                                 (false,
                                                                 false, true,
                                                                 false,
                                                                 false,
                                                                 false, true,
                                                                 false)),
                                                                 (String
                                                                 ((Ascii
                                                                 (true, true,
                                                                 false,
                                                                 false, true,
                                                                 false, true,
                                                                 false)),
                                                                 EmptyString))))
                                                                 o
                                                            then ({ cs_st =
                                                                   (cs_request
                                                                    RDelete s);
                                                                   cs_ids =
                                                                   st.cs_ids },
                                                                   (kw
                                                                    (String
                                                                    ((Ascii
                                                                    (false,
                                                                    false,
                                                                    true,
                                                                    false,
                                                                    false,
                                                                    false,
                                                                    true,
                                                                    false)),
                                                                    (String
                                                                    ((Ascii
                                                                    (true,
                                                                    true,
                                                                    false,
                                                                    false,
                                                                    true,
                                                                    false,
                                                                    true,
                                                                    false)),
                                                                    EmptyString))))))
                                                            else if is_kw
                                                                    (String
                                                                    ((Ascii
                                                                    (true,
                                                                    true,
                                                                    false,
                                                                    false,
                                                                    true,
                                                                    false,
                                                                    true,
                                                                    false)),
                                                                    (String
                                                                    ((Ascii
                                                                    (false,
                                                                    false,
                                                                    true,
                                                                    false,
                                                                    true,
                                                                    false,
                                                                    true,
                                                                    false)),
                                                                    (String
                                                                    ((Ascii
                                                                    (true,
                                                                    false,
                                                                    false,
                                                                    false,
                                                                    false,
                                                                    false,
                                                                    true,
                                                                    false)),
                                                                    (String
                                                                    ((Ascii
                                                                    (false,
                                                                    false,
                                                                    true,
                                                                    false,
                                                                    true,
                                                                    false,
                                                                    true,
                                                                    false)),
                                                                    (String
                                                                    ((Ascii
                                                                    (true,
                                                                    true,
                                                                    false,
                                                                    false,
                                                                    true,
                                                                    false,
                                                                    true,
                                                                    false)),
                                                                    EmptyString))))))))))
                                                                    o
                                                                 then 
                                                                   let s1 =
                                                                    cs_settle
                                                                    s
                                                                   in
                                                                   ({ cs_st =
                                                                   s1;
                                                                   cs_ids =
                                                                   st.cs_ids },
                                                                   (if s1.deleted
                                                                    then 
                                                                    join_sp
                                                                    ((kw
                                                                    (String
                                                                    ((Ascii
                                                                    (true,
                                                                    true,
                                                                    false,
                                                                    false,
                                                                    true,
                                                                    false,
                                                                    true,
                                                                    false)),
                                                                    (String
                                                                    ((Ascii
                                                                    (false,
                                                                    false,
                                                                    true,
                                                                    false,
                                                                    true,
                                                                    false,
                                                                    true,
                                                                    false)),
                                                                    (String
                                                                    ((Ascii
                                                                    (true,
                                                                    false,
                                                                    false,
                                                                    false,
                                                                    false,
                                                                    false,
                                                                    true,
                                                                    false)),
                                                                    (String
                                                                    ((Ascii
                                                                    (false,
                                                                    false,
                                                                    true,
                                                                    false,
                                                                    true,
                                                                    false,
                                                                    true,
                                                                    false)),
                                                                    (String
                                                                    ((Ascii
                                                                    (true,
                                                                    true,
                                                                    false,
                                                                    false,
                                                                    true,
                                                                    false,
                                                                    true,
                                                                    false)),
                                                                    EmptyString))))))))))) :: (
                                                                    (kw
                                                                    (String
                                                                    ((Ascii
                                                                    (true,
                                                                    false,
                                                                    true,
                                                                    false,
                                                                    true,
                                                                    true,
                                                                    false,
                                                                    false)),
                                                                    EmptyString))) :: []))
                                                                    else 
                                                                    join_sp
                                                                    ((kw
                                                                    (String
                                                                    ((Ascii
                                                                    (true,
                                                                    true,
                                                                    false,
                                                                    false,
                                                                    true,
                                                                    false,
                                                                    true,
                                                                    false)),
                                                                    (String
                                                                    ((Ascii
                                                                    (false,
                                                                    false,
                                                                    true,
                                                                    false,
                                                                    true,
                                                                    false,
                                                                    true,
                                                                    false)),
                                                                    (String
                                                                    ((Ascii
                                                                    (true,
                                                                    false,
                                                                    false,
                                                                    false,
                                                                    false,
                                                                    false,
                                                                    true,
                                                                    false)),
                                                                    (String
                                                                    ((Ascii
                                                                    (false,
                                                                    false,
                                                                    true,
                                                                    false,
                                                                    true,
                                                                    false,
                                                                    true,
                                                                    false)),
                                                                    (String
                                                                    ((Ascii
                                                                    (true,
                                                                    true,
                                                                    false,
                                                                    false,
                                                                    true,
                                                                    false,
                                                                    true,
                                                                    false)),
                                                                    EmptyString))))))))))) :: (
                                                                    (kw
                                                                    (String
                                                                    ((Ascii
                                                                    (false,
                                                                    false,
                                                                    false,
                                                                    false,
                                                                    true,
                                                                    true,
                                                                    false,
                                                                    false)),
                                                                    EmptyString))) :: (
                                                                    (r_num
                                                                    (N.of_nat
                                                                    s1.leased)) :: (
                                                                    (r_num
                                                                    (N.of_nat
                                                                    s1.backlog)) :: []))))))
                                                                 else 
                                                                   (st,
                                                                    cs_bad))

(** val cs_lines : cs_state -> str list list -> str list **)

let rec cs_lines st = function
| [] -> []
| l :: r -> let (st', out) = cs_op st l in out :: (cs_lines st' r)

(** val cs_case : (str * str list) -> str list **)

let cs_case c =
  (fst c) :: (app (cs_lines cs_init (map tokens (snd c)))
               ((kw (String ((Ascii (true, false, true, false, false, false,
                  true, false)), (String ((Ascii (false, true, true, true,
                  false, false, true, false)), (String ((Ascii (false, false,
                  true, false, false, false, true, false)), EmptyString))))))) :: []))

(** val cs_file : str -> str **)

let cs_file text =
  join_nl (flat_map cs_case (cases_of (split_on nl text) None))
