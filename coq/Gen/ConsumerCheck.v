(* The suspension points Model/ConcSub.v was written from (C06, C12, C15): the unary Pull handler, the StreamingPull
   handler, the client side of a pull request and the subscription actor's loop.  Compiled on every run against the
   Gen/LockEdges.v that /verif/lockscan has just generated from /repo's sources, like Gen/LockCheck.v; nothing here is
   generated.  ConcSub's consumers take exactly these steps - create the signal and pull, wait for the signal, race the
   300 s limit and the deleted signal; a stream races control messages, signal and deleted signal; a pull request is a
   send followed by a receive; the actor races its mailbox against the expiry poll.  A change in one of these lists
   changes what can interleave and what a dropped future can lose: the model has to be looked at again. *)
From Coq Require Import List String Bool.
Import ListNotations.
From Deltio Require Import Gen.LockEdges.
Open Scope string_scope.

Fixpoint points_of (f : string) (l : list (string * list string)) : option (list string) :=
  match l with
  | [] => None
  | (g, ps) :: r => if g =? f then Some ps else points_of f r
  end.

(* unary Pull: a select! over the pull loop (pull, else wait for the availability signal - and again), the 300 s limit
   and the deleted signal (ConcSub: the unary consumer's steps, LTimeout, LDelExit) *)
Theorem deltio_pull_handler_as_modelled :
  points_of "api/subscriber:SubscriberService::pull" suspension_points
  = Some ["async{"; "pull_messages"; "signal"; "}"; "async{"; "tokio::time::sleep"; "}"; "async{"; "deleted"; "}";
          "select!(messages_fut,timeout_fut,deleted_fut)"].
Proof. vm_compute. reflexivity. Qed.

(* StreamingPull: the first request, then the loop: pull, hand the batch over, a select! over the availability signal
   and the deleted signal; the other half reads control messages (ConcSub's stream consumer) *)
Theorem deltio_stream_handler_as_modelled :
  points_of "api/subscriber:SubscriberService::streaming_pull" suspension_points
  = Some ["next"; "try_stream!{"; "pull_messages"; "select!(signal,deleted)"; "}"; "next"; "handle_streaming_pull_request"].
Proof. vm_compute. reflexivity. Qed.

(* the client side of a pull: wait for room in the mailbox, then for the answer (ConcSub: a consumer owing its pull -
   the one point at which a woken consumer can be dropped with the wake-up consumed, fix fd73b54) *)
Theorem deltio_pull_request_as_modelled :
  points_of "subscriptions/subscription:Subscription::pull_messages" suspension_points = Some ["send"; "recv"] /\
  points_of "api/subscriber:pull_messages" suspension_points = Some ["pull_messages"].
Proof. vm_compute. split; reflexivity. Qed.

(* the actor: mailbox against expiry poll, inside a select! against the deleted signal; closed and drained at the end *)
Theorem deltio_actor_loop_as_modelled :
  points_of "subscriptions/subscription_actor:SubscriptionActor::start" suspension_points
  = Some ["async{"; "async{"; "select!(recv,poll_next_expired){"; "receive"; "}"; "}"; "select!(deleted,poll)"; "recv"; "}"] /\
  points_of "subscriptions/outstanding:OutstandingMessageTracker::poll_next_expired" suspension_points
  = Some ["select!(notified,sleep_until)"; "notified"].
Proof. vm_compute. split; reflexivity. Qed.
Print Assumptions deltio_pull_handler_as_modelled.
Print Assumptions deltio_stream_handler_as_modelled.
Print Assumptions deltio_actor_loop_as_modelled.
