(* Which way the real push pass listens to the deletion signal (C14, last clause).  Compiled on every run against
   the Gen/LockEdges.v that /verif/lockscan has just generated from /repo's sources, like Gen/LockCheck.v.
   Nothing here is generated.  `guard_of_source` reads the suspension points of
   push_loop.rs::pull_and_dispatch_messages as the scanner lists them and decides which of the two protocols of
   Model/PushPass.v the code follows; the theorems below hold only if it is `Whole`. *)
From Coq Require Import List String Bool NArith.
Import ListNotations.
From Deltio Require Import Model.PushPass Proofs.PushPassP.
From Deltio Require Import Gen.LockEdges.
Open Scope string_scope.

Fixpoint points_of (f : string) (l : list (string * list string)) : option (list string) :=
  match l with
  | [] => None
  | (g, ps) :: r => if g =? f then Some ps else points_of f r
  end.

Definition has (x : string) (l : list string) : bool := existsb (fun y => y =? x) l.

(* the whole pass is one async block - opened first, closed once, holding the pull, the paced dispatch and the
   final join - and the only thing after it is the select! that races it against the deletion signal *)
Definition whole_pass_raced (ps : list string) : bool :=
  match ps with
  | "async{" :: rest =>
      match rev rest with
      | sel :: "}" :: body =>
          (sel =? "select!(deleted_signal,fut)") && negb (has "}" body) && negb (has "async{" body)
          && has "pull_messages" body && has "select!(dispatch_fut,sleep)" body && has "join_next" body
      | _ => false
      end
  | _ => false
  end.

Definition guard_of_source : guard :=
  match points_of "push/push_loop:pull_and_dispatch_messages" suspension_points with
  | Some ps => if whole_pass_raced ps then Whole else PullOnly
  | None => PullOnly
  end.

Theorem deltio_push_pass_raced_whole : guard_of_source = Whole.
Proof. vm_compute. reflexivity. Qed.

(* the pass as the code has it: every schedule, nothing is POSTed once the subscription is deleted *)
Theorem deltio_push_no_post_after_delete : forall es, late_posts (run guard_of_source init es) = [].
Proof. rewrite deltio_push_pass_raced_whole. exact whole_no_late_post. Qed.

Theorem deltio_push_delete_stops : forall es1 es2,
  deleted (run guard_of_source init es1) = true ->
  posts (run guard_of_source init (es1 ++ es2)) = posts (run guard_of_source init es1).
Proof. rewrite deltio_push_pass_raced_whole. exact whole_delete_stops. Qed.

(* the reading is not constant: the shape the seeded change C14-r7 gives the function is read as PullOnly *)
Example narrowed_guard_is_read_as_pull_only :
  whole_pass_raced ["select!(deleted,pull_messages)"; "select!(dispatch_fut,sleep)"; "join_next"] = false.
Proof. reflexivity. Qed.
Print Assumptions deltio_push_pass_raced_whole.
Print Assumptions deltio_push_no_post_after_delete.
Print Assumptions deltio_push_delete_stops.
