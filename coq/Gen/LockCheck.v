(* The lock discipline of the real code (C07).  Compiled on every run against the
   Gen/LockEdges.v that /verif/lockscan has just generated from /repo's sources; the copy
   of LockEdges.v in this directory is the one generated from the committed tree.
   Nothing here is generated: if the code starts to nest its locks against the order
   below, to await while holding a guard, or to take a lock where the scanner cannot
   follow, one of these theorems stops checking. *)
From Coq Require Import List String Arith.
Import ListNotations.
From Deltio Require Import Model.Locks Proofs.LocksP.
From Deltio Require Import Gen.LockEdges.
Open Scope string_scope.

(* the order the code is meant to follow (properties.jsonl C07, anchors: "nesting order
   manager -> registry only").  Locks not named here have rank 0: they may be held while
   a named lock is taken, never the other way round and never nested in each other. *)
Definition deltio_rank (l : string) : nat :=
  if l =? "topics/topic_manager.state" then 1
  else if l =? "subscriptions/subscription_manager.state" then 2
  else if l =? "push.state" then 3
  else if l =? "subscriptions/subscription_actor.deleted_send" then 4
  else 0.

Theorem deltio_lock_edges_ranked : edges_ok string deltio_rank lock_edges = true.
Proof. vm_compute. reflexivity. Qed.

Theorem deltio_no_await_under_lock : awaits_under_lock = [].
Proof. reflexivity. Qed.

Theorem deltio_all_sites_analysed : unanalysed_sites = [].
Proof. reflexivity. Qed.

(* threads that only nest their locks the way the scanned code does never deadlock on
   them, whatever the locks' fairness policy *)
Theorem deltio_no_lock_deadlock :
  forall (g : policy string) (ps : list (prog string)) (s : state string),
    grants_free string g ->
    Forall (nests_within string string_dec lock_edges []) ps ->
    reachable string string_dec g (init string ps) s ->
    unfinished string s ->
    exists s', step string string_dec g s s'.
Proof.
  intros g ps s Hg. apply (locks_no_deadlock_edges string string_dec deltio_rank g lock_edges ps s Hg).
  exact deltio_lock_edges_ranked.
Qed.

(* The suspension points of the actor code, function by function, in source order, as the
   scanner reads them (`x` = `x(..).await`; `select!(a,b)` = a select! racing the futures a and b, which it
   drops when they lose; `async{ .. }` = an async block).  This
   is the list the concurrent models were written from; each line says which model step
   it is.  A new, moved or removed suspension point in these files changes what can
   interleave and what a dropped future can lose, so the models have to be looked at
   again: the theorem below then stops checking. *)
Definition modelled_suspension_points : list (string * list string) :=
  [
    (* Publisher handlers: look the topic up, then one request to its actor *)
    ("api/publisher:PublisherService::publish", ["get_topic_internal"; "publish_messages"]);
    ("api/publisher:PublisherService::get_topic", ["get_topic_internal"]);
    ("api/publisher:PublisherService::list_topic_subscriptions", ["get_topic_internal"; "list_subscriptions"]);
    ("api/publisher:PublisherService::delete_topic", ["get_topic_internal"; "delete"]);
    (* Subscriber handlers: one request to the manager / the subscription's actor each *)
    ("api/subscriber:SubscriberService::create_subscription", ["create_subscription"; "get_info"]);
    ("api/subscriber:SubscriberService::get_subscription", ["get_info"]);
    ("api/subscriber:SubscriberService::list_subscriptions", ["async{"; "get_info"; "}"; "futures::future::try_join_all"]);
    ("api/subscriber:SubscriberService::delete_subscription", ["delete"]);
    ("api/subscriber:SubscriberService::modify_ack_deadline", ["modify_ack_deadlines"]);
    ("api/subscriber:SubscriberService::acknowledge", ["acknowledge_messages"]);
    (* unary Pull: a select! over the pull loop (pull, else wait for the availability signal),
       the 300 s limit and the deleted signal (ConcSub: the unary consumer's steps, timeout, del_exit) *)
    ("api/subscriber:SubscriberService::pull", ["async{"; "pull_messages"; "signal"; "}"; "async{"; "tokio::time::sleep"; "}"; "async{"; "deleted"; "}"; "select!(messages_fut,timeout_fut,deleted_fut)"]);
    (* StreamingPull: first request, then the try_stream! loop: pull, else a select! over control
       messages, availability signal and deleted signal (ConcSub's stream consumer) *)
    ("api/subscriber:SubscriberService::streaming_pull", ["next"; "try_stream!{"; "pull_messages"; "select!(signal,deleted)"; "}"; "next"; "handle_streaming_pull_request"]);
    ("api/subscriber:pull_messages", ["pull_messages"]);
    ("api/subscriber:handle_streaming_pull_request", ["acknowledge_messages"; "modify_ack_deadlines"]);
    (* push loop: sleep, then per push subscription pull and dispatch with a per-message timeout *)
    ("push/push_loop:PushLoop::run", ["run"]);
    ("push/push_loop:run", ["tokio::time::sleep"]);
    ("push/push_loop:pull_and_dispatch_messages", ["async{"; "pull_messages"; "select!(dispatch_fut,sleep)"; "join_next"; "}"; "select!(deleted_signal,fut)"]);
    ("push/push_loop:verif_pull_and_dispatch", ["pull_and_dispatch_messages"]);
    ("push/push_loop:dispatch_message", ["send"; "modify_ack_deadlines"; "acknowledge_messages"]);
    (* the expiry branch of the actor's select!: it only WAITS (sleep, or a change of the earliest
       deadline); taking the expired messages and returning them happens in one poll, so a dropped
       expiry future loses nothing (ConcSub: LExpire is one step) *)
    ("subscriptions/outstanding:OutstandingMessageTracker::poll_next_expired", ["select!(notified,sleep_until)"; "notified"]);
    (* client side of every subscription request: wait for room in the mailbox, then for the answer
       (ConcSub: a consumer owing its pull; ConcActors: a client's send / wait) *)
    ("subscriptions/subscription:Subscription::get_info", ["send"; "recv"]);
    ("subscriptions/subscription:Subscription::pull_messages", ["send"; "recv"]);
    ("subscriptions/subscription:Subscription::post_messages", ["send"]);
    ("subscriptions/subscription:Subscription::acknowledge_messages", ["send"; "recv"]);
    ("subscriptions/subscription:Subscription::modify_ack_deadlines", ["send"; "recv"]);
    ("subscriptions/subscription:Subscription::get_stats", ["send"; "recv"]);
    ("subscriptions/subscription:Subscription::delete", ["send"; "recv"]);
    (* the actor task: one select! over mailbox and expiry, inside one over the deleted signal; when it ends the
       mailbox is closed and drained (fix f7f8d33: a request caught by the shutdown is dropped, not stranded) *)
    ("subscriptions/subscription_actor:SubscriptionActor::start", ["async{"; "async{"; "select!(recv,poll_next_expired){"; "receive"; "}"; "}"; "select!(deleted,poll)"; "recv"; "}"]);
    (* Delete is the only request whose handling suspends (ConcActors: the actor inside a request) *)
    ("subscriptions/subscription_actor:SubscriptionActor::receive", ["delete"]);
    (* ... it waits for the topic while draining its own mailbox (ConcActors: drain = true, fix 0b18551) *)
    ("subscriptions/subscription_actor:SubscriptionActor::delete", ["select!(remove,recv)"]);
    (* CreateSubscription: store, then attach in a task of its own and wait for it (fix c76a5b8;
       ConcActors: the attach task survives its caller) *)
    ("subscriptions/subscription_manager:SubscriptionManager::create_subscription", ["async{"; "attach_subscription"; "}"; "attach"]);
    (* client side of every topic request *)
    ("topics/topic:Topic::publish_messages", ["send"; "recv"]);
    ("topics/topic:Topic::list_subscriptions", ["send"; "recv"]);
    ("topics/topic:Topic::attach_subscription", ["send"; "recv"]);
    ("topics/topic:Topic::remove_subscription", ["send"; "recv"]);
    ("topics/topic:Topic::delete", ["send"; "recv"]);
    (* the topic actor: one request at a time; Publish is the only one that suspends: it posts to every
       subscription (each post waits for room in that mailbox) and waits for all posts
       (ConcActors: the topic inside a publish) *)
    ("topics/topic_actor:TopicActor::start", ["async{"; "recv"; "receive"; "}"]);
    ("topics/topic_actor:TopicActor::receive", ["publish_messages"]);
    ("topics/topic_actor:TopicActor::publish_messages", ["async{"; "post_messages"; "}"; "join_next"]) ].

Theorem deltio_suspension_points_as_modelled : suspension_points = modelled_suspension_points.
Proof. reflexivity. Qed.
Print Assumptions deltio_no_lock_deadlock.
Print Assumptions deltio_lock_edges_ranked.
