(* Which of the two protocols of Model/ReqResp.v the request methods of the real code follow (C02, C05: "once
   Acknowledge has returned ...", "ModifyAckDeadline ... replaces the deadline").  Compiled on every run against the
   Gen/LockEdges.v that /verif/lockscan has just generated from /repo's sources, like Gen/LockCheck.v.  Nothing here is
   generated.  A method whose suspension points are exactly `send` then `recv` puts its request into the actor's mailbox and
   waits for the actor's answer (Wait); anything else is read as Fire. *)
From Coq Require Import List String Bool.
Import ListNotations.
From Deltio Require Import Model.ReqResp Proofs.ReqRespP.
From Deltio Require Import Gen.LockEdges.
Open Scope string_scope.

Fixpoint points_of (f : string) (l : list (string * list string)) : option (list string) :=
  match l with
  | [] => None
  | (g, ps) :: r => if g =? f then Some ps else points_of f r
  end.

Definition proto_of (f : string) : proto :=
  match points_of f suspension_points with
  | Some ["send"; "recv"] => Wait
  | _ => Fire
  end.

Definition ack_fn := "subscriptions/subscription:Subscription::acknowledge_messages".
Definition mod_fn := "subscriptions/subscription:Subscription::modify_ack_deadlines".

Theorem deltio_acknowledge_waits : proto_of ack_fn = Wait.
Proof. vm_compute. reflexivity. Qed.

Theorem deltio_modify_waits : proto_of mod_fn = Wait.
Proof. vm_compute. reflexivity. Qed.

(* the gRPC handlers do nothing but that one call after parsing: their only suspension point *)
Theorem deltio_handlers_forward :
  points_of "api/subscriber:SubscriberService::acknowledge" suspension_points = Some ["acknowledge_messages"] /\
  points_of "api/subscriber:SubscriberService::modify_ack_deadline" suspension_points = Some ["modify_ack_deadlines"] /\
  points_of "api/subscriber:handle_streaming_pull_request" suspension_points = Some ["acknowledge_messages"; "modify_ack_deadlines"].
Proof. vm_compute. repeat split; reflexivity. Qed.

(* with the protocol the code has on this run: every schedule, any other traffic - when Acknowledge has returned the
   actor has applied it, and took no expiry in between *)
Theorem deltio_ack_applied_on_return : forall es,
  let s := run (proto_of ack_fn) init es in
  (returned s = true -> applied s = true) /\ stale_expiry s = false.
Proof. rewrite deltio_acknowledge_waits. exact wait_applied_on_return. Qed.

Theorem deltio_modify_applied_on_return : forall es,
  let s := run (proto_of mod_fn) init es in
  (returned s = true -> applied s = true) /\ stale_expiry s = false.
Proof. rewrite deltio_modify_waits. exact wait_applied_on_return. Qed.

(* the reading is not constant: a method that only sends is read as Fire *)
Example send_only_is_fire :
  match Some ["send"] with Some ["send"; "recv"] => Wait | _ => Fire end = Fire.
Proof. reflexivity. Qed.
Print Assumptions deltio_acknowledge_waits.
Print Assumptions deltio_ack_applied_on_return.
Print Assumptions deltio_modify_applied_on_return.
