(* Whether the expiry branch of the real actor loop is unconditional (C04).  Compiled on every run against the
   Gen/LockEdges.v that /verif/lockscan has just generated from /repo's sources, like Gen/LockCheck.v.  Nothing here is
   generated.  The scanner lists the select! of SubscriptionActor::start with its branch heads and marks a branch that
   carries a precondition (`<future>, if <condition> =>`) with `[if]`. *)
From Coq Require Import List String Bool.
Import ListNotations.
From Deltio Require Import Model.ActorLoop Proofs.ActorLoopP.
From Deltio Require Import Gen.LockEdges.
Open Scope string_scope.

Fixpoint points_of (f : string) (l : list (string * list string)) : option (list string) :=
  match l with
  | [] => None
  | (g, ps) :: r => if g =? f then Some ps else points_of f r
  end.

Definition has (x : string) (l : list string) : bool := existsb (fun y => y =? x) l.

(* the actor's select! races exactly the mailbox and the expiry poll, neither with a precondition *)
Definition guard_of_source : guard :=
  match points_of "subscriptions/subscription_actor:SubscriptionActor::start" suspension_points with
  | Some ps => if has "select!(recv,poll_next_expired){" ps then Always else IfEmpty
  | None => IfEmpty
  end.

Theorem deltio_expiry_branch_unconditional : guard_of_source = Always.
Proof. vm_compute. reflexivity. Qed.

(* the expiry poll only WAITS (for the earliest deadline, or for a change of it): taking the expired leases and handing
   them over happens in one poll, so dropping the future when the mailbox branch wins loses nothing *)
Theorem deltio_expiry_poll_only_waits :
  points_of "subscriptions/outstanding:OutstandingMessageTracker::poll_next_expired" suspension_points
  = Some ["select!(notified,sleep_until)"; "notified"].
Proof. vm_compute. reflexivity. Qed.

(* with the select! the code has on this run: an idle actor holds no lease that has run out *)
Theorem deltio_idle_nothing_expired : forall s, idle guard_of_source s -> expired s = 0.
Proof. rewrite deltio_expiry_branch_unconditional. exact always_idle_nothing_expired. Qed.

(* the reading is not constant *)
Example guarded_branch_is_read_as_conditional :
  has "select!(recv,poll_next_expired){" ["async{"; "select!(recv,poll_next_expired[if]){"; "receive"; "}"] = false.
Proof. reflexivity. Qed.
Print Assumptions deltio_expiry_branch_unconditional.
Print Assumptions deltio_expiry_poll_only_waits.
Print Assumptions deltio_idle_nothing_expired.
