(* C18 - Resource names are parsed canonically.
   Statements only; each is closed by `exact` of a lemma of Proofs/NamesP.v. *)
From Deltio Require Import Model.Base Model.Names Proofs.BaseP Proofs.NamesP.

(* A string is accepted only if it is "projects/" ++ project ++ "/" ++ segment
   ++ id with a slash-free, non-empty project and a non-empty id
   (segment = "topics/" or "subscriptions/"). *)
Theorem C18_shape : forall seg s n,
  parse_name seg s = Some n ->
  s = projects_prefix ++ fst n ++ slash :: seg ++ snd n /\
  ~ In slash (fst n) /\ fst n <> [] /\ snd n <> [].
Proof. exact parse_name_shape. Qed.
Print Assumptions C18_shape.

(* The canonical name echoed for an accepted name is accepted and denotes the
   same resource. *)
Theorem C18_roundtrip : forall seg s n,
  parse_name seg s = Some n -> parse_name seg (show_name seg n) = Some n.
Proof. exact parse_name_roundtrip. Qed.
Print Assumptions C18_roundtrip.

(* Accepted names that differ in project or id have different canonical
   strings. *)
Theorem C18_injective : forall seg n1 n2,
  wf_name n1 -> wf_name n2 -> show_name seg n1 = show_name seg n2 -> n1 = n2.
Proof. exact show_name_injective. Qed.
Print Assumptions C18_injective.

(* No string is both a topic name and a subscription name. *)
Theorem C18_kinds_disjoint : forall s n,
  parse_topic_name s = Some n -> parse_sub_name s = None.
Proof. exact kinds_disjoint. Qed.
Print Assumptions C18_kinds_disjoint.

(* Two accepted strings are the same map key exactly when they are the same
   string: different names denote different resources. *)
Theorem C18_map_keys : forall seg s1 s2 n1 n2,
  parse_name seg s1 = Some n1 -> parse_name seg s2 = Some n2 ->
  (name_eqb n1 n2 = true <-> s1 = s2).
Proof. exact parse_name_keys. Qed.
Print Assumptions C18_map_keys.
