(* Further consequences used by the property files. *)
From Deltio Require Import Model.Base Model.Names Model.Time Model.Codec Model.Paging Model.Sub Model.Server
  Proofs.BaseP Proofs.NamesP Proofs.TimeP Proofs.CodecP Proofs.SubP Proofs.SubTurns Proofs.SubHist
  Proofs.ServerP Proofs.CtlP.
Require Import ZifyBool ZifyN ZifyNat Sorting.Permutation Sorting.Sorted.

(* ---------- C03 ---------- *)
Lemma NoDup_map_app_l {A B} (f : A -> B) l1 l2 : NoDup (map f (l1 ++ l2)) -> NoDup (map f l1).
Proof. rewrite map_app. apply NoDup_app_l. Qed.

(* a pull hands out only queued messages, never one that is leased *)
Lemma pull_skips_leased max now s a l l' :
  sub_inv s -> NoDup (ids (held s)) -> live s a = Some l ->
  In l' (snd (sub_pull max now s)) -> m_id (l_msg l') <> m_id (l_msg l).
Proof.
  intros I ND Hl Hin E. pose proof (sstep_delivers_held s (OPull max now) l' I Hin) as Hb.
  eapply leased_not_in_backlog; eauto. rewrite <- E. unfold ids. apply in_map. assumption.
Qed.

(* no response contains the same message twice *)
Lemma pull_no_dup max now s :
  sub_inv s -> NoDup (ids (held s)) -> NoDup (ids (map l_msg (snd (sub_pull max now s)))).
Proof.
  intros I ND. destruct (s_deleted s) eqn:Hd.
  { unfold sub_pull. rewrite Hd. constructor. }
  pose proof (sub_pull_spec max now s I Hd) as H. destruct (sub_pull max now s) as [s' ls].
  destruct H as (H1 & _). simpl. rewrite H1.
  unfold held, ids in ND. rewrite map_app in ND. apply NoDup_app_l in ND.
  rewrite <- (skip_take_N (pull_count max (len_N (s_backlog s))) (s_backlog s)) in ND.
  unfold ids. eapply NoDup_map_app_l. exact ND.
Qed.

(* ---------- C09 / C01: what is delivered is what was posted ---------- *)
Theorem delivered_was_posted os : forall s l,
  sub_inv s -> In l (concat (snd (srun s os))) -> In (l_msg l) (held s ++ posted os).
Proof.
  induction os as [|o os IH]; intros s l I; simpl; [tauto|].
  pose proof (sstep_inv s o I) as I1. pose proof (sstep_delivers_held s o) as D.
  assert (Hsub : forall m, In m (held (fst (sstep s o))) -> In m (held s ++ posted [o])).
  { intros m Hm. destruct o as [ms| | | |]; simpl; rewrite ?app_nil_r.
    - apply sstep_post_held in Hm. apply in_app_iff. assumption.
    - apply sstep_held_subset in Hm; auto; discriminate.
    - apply sstep_held_subset in Hm; auto; discriminate.
    - apply sstep_held_subset in Hm; auto; discriminate.
    - apply sstep_held_subset in Hm; auto. discriminate. }
  destruct (sstep s o) as [s1 d]. simpl in *.
  specialize (IH s1 l I1). destruct (srun s1 os) as [s2 ds]. simpl in *.
  intros Hl. apply in_app_iff in Hl as [Hl|Hl].
  - apply in_app_iff. left. unfold held. apply in_app_iff. left. apply D; assumption.
  - specialize (IH Hl). apply in_app_iff in IH as [IH|IH].
    + specialize (Hsub _ IH). rewrite app_nil_r in Hsub. apply in_app_iff in Hsub as [H|H].
      * apply in_app_iff. auto.
      * apply in_app_iff. right. apply in_app_iff. left.
        destruct o; simpl in *; tauto.
    + apply in_app_iff. right. apply in_app_iff. right. exact IH.
Qed.

(* mk_msgs: one message per request entry, in order, intact, ids consecutive *)
Lemma mk_msgs_spec tid pt : forall raws ctr,
  length (mk_msgs tid ctr pt raws) = length raws /\
  map m_data (mk_msgs tid ctr pt raws) = map fst raws /\
  map m_id (mk_msgs tid ctr pt raws) = map (fun i => message_id tid (ctr + 1 + N.of_nat i)) (seq 0 (length raws)) /\
  (forall m, In m (mk_msgs tid ctr pt raws) -> m_pt m = pt) /\
  map m_attrs (mk_msgs tid ctr pt raws) = map (fun r => isort (fun x y => str_ltb (fst x) (fst y)) (snd r)) raws.
Proof.
  unfold mk_msgs. induction raws as [|[d a] raws IH]; intros ctr; simpl.
  - repeat split; auto. tauto.
  - destruct (IH (ctr + 1)) as (H1 & H2 & H3 & H4 & H5). repeat split.
    + simpl. congruence.
    + simpl. congruence.
    + simpl. f_equal; [f_equal; lia|]. rewrite H3. rewrite <- seq_shift, map_map. apply map_ext. intros i.
      f_equal. lia.
    + intros m [<-|Hm]; simpl; auto.
    + simpl. congruence.
Qed.

(* C08: the ids of one Publish strictly increase (counter below 2^32) *)
Lemma mk_msgs_ids_increasing tid pt raws ctr :
  ctr + len_N raws < 2 ^ 32 -> StronglySorted N.lt (map m_id (mk_msgs tid ctr pt raws)).
Proof.
  intros Hb. destruct (mk_msgs_spec tid pt raws ctr) as (_ & _ & H3 & _). rewrite H3. clear H3.
  unfold len_N in Hb. remember (length raws) as n. clear Heqn raws.
  assert (G : forall n st, ctr + 1 + N.of_nat (st + n) <= 2 ^ 32 ->
              StronglySorted N.lt (map (fun i => message_id tid (ctr + 1 + N.of_nat i)) (seq st n))).
  { clear. induction n as [|n IH]; intros st Hb; simpl; constructor.
    - apply IH. lia.
    - apply Forall_forall. intros x Hx. apply in_map_iff in Hx as [i [<- Hi]]. apply in_seq in Hi.
      apply message_id_mono; lia. }
  apply G. lia.
Qed.

(* ---------- C04: the timer ---------- *)
Lemma tick_mono a b : a <= b -> tick_of a <= tick_of b.
Proof. unfold tick_of, ns_per_ms. intros H. nia. Qed.

(* if any lease is past its tick, the subscription's timer has fired *)
Lemma timer_fired_any now s a l :
  sub_inv s -> live s a = Some l -> tick_of (l_dl l) <= now -> timer_fired now s = true.
Proof.
  intros I Hl Ht. unfold timer_fired. unfold live in Hl. apply alookup_in in Hl.
  assert (Hk : In (l_dl l, a) (tr_exp (s_tr s))).
  { apply (ti_agree _ _ I). apply in_keys_of. simpl. eauto. }
  pose proof (ti_sorted _ _ I) as S. destruct (tr_exp (s_tr s)) as [|[d b] exp]; [simpl in Hk; tauto|].
  apply N.leb_le. destruct Hk as [Hk|Hk].
  - injection Hk as -> _. assumption.
  - inversion S as [|? ? _ F]; subst. rewrite Forall_forall in F. specialize (F _ Hk).
    unfold klt in F. apply key_ltb_spec in F. simpl in F. pose proof (tick_mono d (l_dl l)). lia.
Qed.

(* after a settle in which the actor ran or its timer fired, every lease that
   is still outstanding has its deadline in the future *)
Lemma pull_future max now s :
  sub_inv s -> 1 <= s_ackdl s -> (forall a l, live s a = Some l -> now < l_dl l) ->
  forall a l, live (fst (sub_pull max now s)) a = Some l -> now < l_dl l.
Proof.
  intros I Hk H a0 l0 Hl0. destruct (s_deleted s) eqn:Hd.
  { unfold sub_pull in Hl0. rewrite Hd in Hl0. simpl in Hl0. eauto. }
  pose proof (sub_pull_spec max now s I Hd) as P. destruct (sub_pull max now s) as [s1 ls].
  destruct P as (_ & _ & _ & _ & _ & P6 & P7). simpl in *. unfold live in Hl0. rewrite P7 in Hl0.
  apply alookup_in in Hl0. apply in_app_iff in Hl0 as [Hl0|Hl0].
  - apply (H a0). unfold live. apply in_alookup; [apply I|assumption].
  - apply in_map_iff in Hl0 as [x [Ex Hx]]. injection Ex as _ ->. rewrite (P6 _ Hx).
    apply new_deadline_future. assumption.
Qed.

Lemma pull_ackdl max now s : s_ackdl (fst (sub_pull max now s)) = s_ackdl s.
Proof. destruct (sstep_fields s (OPull max now)) as (_ & _ & _ & E & _). exact E. Qed.

Lemma serve_future fuel now : forall s c,
  sub_inv s -> 1 <= s_ackdl s -> (forall a l, live s a = Some l -> now < l_dl l) ->
  forall a l, live (fst (serve fuel now s c)) a = Some l -> now < l_dl l.
Proof.
  induction fuel as [|f IH]; intros s c I Hk H a l; simpl; [apply H|].
  destruct (s_backlog s) as [|m b] eqn:Eb; [apply H|].
  destruct (first_waiter (s_uid s) (c_waiters c)) as [[k rest]|]; [|apply H].
  destruct k as [sid|id max limit].
  - destruct (find_stream sid (c_streams c)) as [st|]; [|apply IH; assumption].
    apply IH.
    + apply sub_pull_inv; assumption.
    + rewrite pull_ackdl. assumption.
    + apply pull_future; assumption.
  - apply IH.
    + apply sub_pull_inv; assumption.
    + rewrite pull_ackdl. assumption.
    + apply pull_future; assumption.
Qed.

Theorem settle_sub_no_overdue now touched c s :
  sub_inv s -> 1 <= s_ackdl s -> touched || timer_fired now s = true ->
  forall a l, live (fst (settle_sub now touched c s)) a = Some l -> now < l_dl l.
Proof.
  intros I Hk Ht. unfold settle_sub, actor_runs. rewrite Ht. simpl.
  pose proof (sub_expire_inv now s I) as I1.
  assert (H1 : forall a l, live (sub_expire now s) a = Some l -> now < l_dl l).
  { intros a l Hl. destruct (sub_expire_spec now s I) as (_ & _ & H3 & _). apply (H3 a l Hl). }
  assert (K1 : 1 <= s_ackdl (sub_expire now s)).
  { destruct (sstep_fields s (OExpire now)) as (_ & _ & _ & E & _). simpl in E. rewrite E. assumption. }
  apply serve_future; assumption.
Qed.

(* C06 at quiescence: after the waiting consumers have been served, a non-empty
   backlog and a consumer waiting on that subscription do not coexist. *)
Lemma first_waiter_none u ws : first_waiter u ws = None <-> ~ In u (map fst ws).
Proof.
  induction ws as [|[v k] ws IH]; simpl; [tauto|]. destruct (N.eqb u v) eqn:E.
  - apply N.eqb_eq in E. subst. split; [discriminate|]. intros H. exfalso. auto.
  - apply N.eqb_neq in E. destruct (first_waiter u ws) as [[k' r]|].
    + split; [discriminate|]. intros H. exfalso.
      assert (Hn : ~ In u (map fst ws)) by (intros Hin; apply H; right; assumption).
      apply IH in Hn. discriminate.
    + split; auto. intros _ [H|H]; [congruence|]. destruct IH as [IH _]. apply (IH eq_refl). assumption.
Qed.

Lemma first_waiter_length u ws k rest : first_waiter u ws = Some (k, rest) -> length ws = S (length rest).
Proof.
  revert k rest. induction ws as [|[v k0] ws IH]; intros k rest; simpl; [discriminate|].
  destruct (N.eqb u v).
  - intros H; injection H as <- <-. reflexivity.
  - destruct (first_waiter u ws) as [[k' r]|] eqn:E; [|discriminate]. intros H; injection H as <- <-.
    simpl. f_equal. eapply IH. reflexivity.
Qed.

(* ---------- C05: parsing the modifications ---------- *)
Lemma parse_mods_deadlines now : forall ids secs mods,
  parse_mods now ids secs = Some mods ->
  Forall (fun m => match snd m with
                   | Some d => exists n, 1 <= n <= 600 /\ d = round_deadline (now + n * ns_per_s)
                   | None => True end) mods.
Proof.
  induction ids as [|i ids IH]; intros secs mods; simpl.
  - intros H; injection H as <-. constructor.
  - destruct secs as [|sc secs]; [intros H; injection H as <-; constructor|].
    destruct (parse_u64 i) as [a|]; [|discriminate].
    destruct (parse_ext sc) as [| |n] eqn:E; [discriminate| |].
    + destruct (parse_mods now ids secs) as [r|] eqn:R; [|discriminate]. intros H; injection H as <-.
      constructor; [simpl; auto|eapply IH; eauto].
    + destruct (parse_mods now ids secs) as [r|] eqn:R; [|discriminate]. intros H; injection H as <-.
      constructor; [|eapply IH; eauto]. simpl. exists n. split; auto. eapply parse_ext_secs_bound; eauto.
Qed.

Lemma parse_mods_reject_id now ids secs i :
  length secs = length ids -> In i ids -> parse_u64 i = None -> parse_mods now ids secs = None.
Proof.
  revert secs. induction ids as [|x ids IH]; intros secs Hl Hin Hp; simpl in *; [tauto|].
  destruct secs as [|sc secs]; [discriminate|]. injection Hl as Hl. destruct Hin as [->|Hin].
  - rewrite Hp. reflexivity.
  - destruct (parse_u64 x); auto. destruct (parse_ext sc); auto; rewrite (IH secs Hl Hin Hp); reflexivity.
Qed.

Lemma parse_mods_reject_secs now ids secs sc :
  length secs = length ids -> In sc secs -> (sc < 0)%Z -> parse_mods now ids secs = None.
Proof.
  revert secs. induction ids as [|x ids IH]; intros secs Hl Hin Hn; simpl in *.
  - destruct secs; [simpl in Hin; tauto|discriminate].
  - destruct secs as [|s0 secs]; [discriminate|]. injection Hl as Hl. destruct (parse_u64 x); auto.
    destruct Hin as [->|Hin].
    + destruct (parse_ext_spec sc) as [H _]. rewrite (H Hn). reflexivity.
    + destruct (parse_ext s0); auto; rewrite (IH secs Hl Hin Hn); reflexivity.
Qed.

(* C05: a request with a malformed id or a negative N fails as a whole *)
Theorem modify_reject sv n secs ids :
  parse_mods (sv_now sv) ids (map (fun _ => secs) ids) = None ->
  handle sv (RModify n secs ids) = (sv, PErr INVALID_ARGUMENT, no_touch).
Proof. intros H. simpl. rewrite H. reflexivity. Qed.

(* ---------- C02/C05: a request addressed to one subscription touches only it ---------- *)
Theorem ack_touches_one sv n ids acks sn s :
  parse_all parse_u64 ids = Some acks -> parse_sub_name n = Some sn -> find_sub sn (sv_subs sv) = Some s ->
  let sv' := fst (fst (handle sv (RAck n ids))) in
  sv_topics sv' = sv_topics sv /\ sv_reg sv' = sv_reg sv /\ sv_streams sv' = sv_streams sv /\
  sv_subs sv' = map (fun x => if N.eqb (s_uid s) (s_uid x) then sub_ack acks x else x) (sv_subs sv).
Proof. intros H1 H2 H3. simpl. rewrite H1, H2, H3. simpl. auto. Qed.

Theorem modify_touches_one sv n secs ids mods sn s :
  parse_mods (sv_now sv) ids (map (fun _ => secs) ids) = Some mods ->
  parse_sub_name n = Some sn -> find_sub sn (sv_subs sv) = Some s ->
  let sv' := fst (fst (handle sv (RModify n secs ids))) in
  sv_topics sv' = sv_topics sv /\ sv_reg sv' = sv_reg sv /\ sv_streams sv' = sv_streams sv /\
  sv_subs sv' = map (fun x => if N.eqb (s_uid s) (s_uid x) then sub_modify mods x else x) (sv_subs sv).
Proof. intros H1 H2 H3. simpl. rewrite H1, H2, H3. simpl. auto. Qed.

(* C01: a Publish appends the batch to every subscription attached to the topic
   (exactly those, by CtlP.attach_exact) and to nothing else *)
Theorem publish_posts sv n raws tn t :
  parse_topic_name n = Some tn -> find_topic tn (sv_topics sv) = Some t ->
  let ms := mk_msgs (t_uid t) (t_next_msg t) (sv_ptnext sv) raws in
  let sv' := fst (fst (handle sv (RPublish n raws))) in
  snd (fst (handle sv (RPublish n raws))) = PIds (map m_id ms) /\
  sv_subs sv' = map (fun s => if existsb (N.eqb (s_uid s)) (map snd (t_subs t)) then sub_post ms s else s)
                    (sv_subs sv).
Proof. intros H1 H2. simpl. rewrite H1, H2. simpl. auto. Qed.

Lemma attached_uid_iff sv t s :
  ctl_inv sv -> In t (sv_topics sv) -> In s (sv_subs sv) ->
  (existsb (N.eqb (s_uid s)) (map snd (t_subs t)) = true <-> s_topic s = t_uid t).
Proof.
  intros I Ht Hs. rewrite <- (attach_exact sv t s I Ht Hs). rewrite existsb_exists. split.
  - intros [u [Hu E]]. apply N.eqb_eq in E. subst u. apply in_map_iff in Hu as [[n u] [Eu Hin]]. simpl in Eu. subst u.
    pose proof Hin as Hin'. apply (ci_attach _ I t Ht) in Hin as [x [Hx (N1 & U1 & T1)]].
    assert (x = s) by (eapply uid_unique_s; eauto; apply I). subst. assumption.
  - intros Hin. exists (s_uid s). split; [|apply N.eqb_refl]. apply in_map_iff. exists (s_name s, s_uid s). auto.
Qed.

(* C11: a topic created now (a new instance, even under an old name) has none of the
   existing subscriptions attached, and never will: attachment follows the instance id *)
Theorem new_topic_detached sv n tn :
  ctl_inv sv -> parse_topic_name n = Some tn -> find_topic tn (sv_topics sv) = None ->
  let sv' := fst (fst (handle sv (RCreateTopic n))) in
  exists t, find_topic tn (sv_topics sv') = Some t /\ t_subs t = [] /\
            forall s, In s (sv_subs sv') -> s_topic s <> t_uid t.
Proof.
  intros I Hn Hf. simpl. rewrite Hn, Hf. simpl.
  exists {| t_name := tn; t_uid := sv_tnext sv + 1; t_subs := []; t_next_msg := 0 |}.
  split; [|split; [reflexivity|]].
  - clear - Hf. induction (sv_topics sv) as [|x ts IH]; simpl in *.
    + rewrite name_eqb_refl. reflexivity.
    + destruct (name_eqb tn (t_name x)); [discriminate|]. auto.
  - simpl. intros s Hs. pose proof (ci_stopic_bound _ I s Hs). lia.
Qed.
