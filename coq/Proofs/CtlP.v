(* Control plane: the two namespaces, the attachment lists and the push
   registry are consistent in every reachable state (C10, C11, C13, C14). *)
From Deltio Require Import Model.Base Model.Names Model.Time Model.Codec Model.Paging Model.Sub Model.Server
  Proofs.BaseP Proofs.NamesP Proofs.SubP Proofs.SubTurns Proofs.SubHist Proofs.ServerP.
Require Import ZifyBool ZifyN ZifyNat Sorting.Sorted.

Definition skel (s : sub) : name * N * N * option str := (s_name s, s_uid s, s_topic s, s_push s).

Record ctl_inv (sv : server) : Prop := {
  ci_suid_sorted : StronglySorted N.lt (map s_uid (sv_subs sv));
  ci_suid_bound : forall s, In s (sv_subs sv) -> s_uid s <= sv_snext sv;
  ci_snames : NoDup (map s_name (sv_subs sv));
  ci_tuid_sorted : StronglySorted N.lt (map t_uid (sv_topics sv));
  ci_tuid_bound : forall t, In t (sv_topics sv) -> t_uid t <= sv_tnext sv;
  ci_tnames : NoDup (map t_name (sv_topics sv));
  ci_attach : forall t, In t (sv_topics sv) -> forall n u,
      In (n, u) (t_subs t) <->
      exists s, In s (sv_subs sv) /\ s_name s = n /\ s_uid s = u /\ s_topic s = t_uid t;
  ci_attach_sorted : forall t, In t (sv_topics sv) -> StronglySorted N.lt (map snd (t_subs t));
  ci_reg : forall n e, In (n, e) (sv_reg sv) <->
      exists s, In s (sv_subs sv) /\ s_name s = n /\ s_push s = Some e;
  ci_reg_nodup : NoDup (map fst (sv_reg sv));
  ci_stopic_bound : forall s, In s (sv_subs sv) -> s_topic s <= sv_tnext sv }.

(* ---------- the invariant only looks at the skeleton of the subscriptions ---------- *)
Lemma skel_in ss ss' s' :
  map skel ss' = map skel ss -> In s' ss' -> exists s, In s ss /\ skel s = skel s'.
Proof.
  intros E Hin. apply (in_map skel) in Hin. rewrite E in Hin. apply in_map_iff in Hin as [s [H1 H2]]. eauto.
Qed.

Lemma skel_map_uid ss ss' : map skel ss' = map skel ss -> map s_uid ss' = map s_uid ss.
Proof.
  intros E. change s_uid with (fun s => snd (fst (fst (skel s)))).
  rewrite <- (map_map skel (fun k => snd (fst (fst k)))), E, map_map. reflexivity.
Qed.
Lemma skel_map_name ss ss' : map skel ss' = map skel ss -> map s_name ss' = map s_name ss.
Proof.
  intros E. change s_name with (fun s => fst (fst (fst (skel s)))).
  rewrite <- (map_map skel (fun k => fst (fst (fst k)))), E, map_map. reflexivity.
Qed.

Lemma ctl_inv_ext sv sv' :
  sv_topics sv' = sv_topics sv -> sv_tnext sv' = sv_tnext sv -> sv_snext sv' = sv_snext sv ->
  sv_reg sv' = sv_reg sv -> map skel (sv_subs sv') = map skel (sv_subs sv) ->
  ctl_inv sv -> ctl_inv sv'.
Proof.
  intros Et Etn Esn Er Es [A B C D E F G H I J K].
  assert (Sin : forall s', In s' (sv_subs sv') -> exists s, In s (sv_subs sv) /\ skel s = skel s')
    by (intros; eapply skel_in; eauto).
  assert (Sin' : forall s, In s (sv_subs sv) -> exists s', In s' (sv_subs sv') /\ skel s' = skel s)
    by (intros; eapply skel_in; [symmetry; exact Es|assumption]).
  constructor; rewrite ?Et, ?Etn, ?Esn, ?Er; auto.
  - rewrite (skel_map_uid _ _ Es). assumption.
  - intros s' Hs'. destruct (Sin s' Hs') as [s [Hs Ek]]. specialize (B s Hs).
    unfold skel in Ek. injection Ek as _ Eu _ _. lia.
  - rewrite (skel_map_name _ _ Es). assumption.
  - intros t Ht n u. rewrite (G t Ht n u). split; intros [s [Hs (H1 & H2 & H3)]].
    + destruct (Sin' s Hs) as [s' [Hs' Ek]]. unfold skel in Ek. injection Ek as E1 E2 E3 E4.
      exists s'. repeat split; congruence.
    + destruct (Sin s Hs) as [s' [Hs' Ek]]. unfold skel in Ek. injection Ek as E1 E2 E3 E4.
      exists s'. repeat split; congruence.
  - intros n e. rewrite (I n e). split; intros [s [Hs (H1 & H2)]].
    + destruct (Sin' s Hs) as [s' [Hs' Ek]]. unfold skel in Ek. injection Ek as E1 E2 E3 E4.
      exists s'. repeat split; congruence.
    + destruct (Sin s Hs) as [s' [Hs' Ek]]. unfold skel in Ek. injection Ek as E1 E2 E3 E4.
      exists s'. repeat split; congruence.
  - intros s' Hs'. destruct (Sin s' Hs') as [s [Hs Ek]]. specialize (K s Hs).
    unfold skel in Ek. injection Ek as _ _ Et' _. lia.
Qed.

Definition tskel (t : topic) : name * N * list (name * N) := (t_name t, t_uid t, t_subs t).

Lemma tskel_in ts ts' t' :
  map tskel ts' = map tskel ts -> In t' ts' -> exists t, In t ts /\ tskel t = tskel t'.
Proof.
  intros E Hin. apply (in_map tskel) in Hin. rewrite E in Hin. apply in_map_iff in Hin as [t [H1 H2]]. eauto.
Qed.

(* topics may differ in their message counters only *)
Lemma ctl_inv_ext_t sv sv' :
  map tskel (sv_topics sv') = map tskel (sv_topics sv) -> sv_tnext sv' = sv_tnext sv ->
  sv_snext sv' = sv_snext sv -> sv_reg sv' = sv_reg sv -> map skel (sv_subs sv') = map skel (sv_subs sv) ->
  ctl_inv sv -> ctl_inv sv'.
Proof.
  intros Et Etn Esn Er Es I0.
  (* first move the subscriptions, keeping the topics *)
  assert (I1 : ctl_inv (with_subs sv (sv_subs sv'))) by (apply (ctl_inv_ext sv); auto).
  destruct I1 as [A B C D E F G H I J K]. simpl in *.
  assert (Tin : forall t', In t' (sv_topics sv') -> exists t, In t (sv_topics sv) /\ tskel t = tskel t')
    by (intros; eapply tskel_in; eauto).
  constructor.
  - exact A.
  - rewrite Esn. exact B.
  - exact C.
  - change t_uid with (fun t => snd (fst (tskel t))).
    rewrite <- (map_map tskel (fun k => snd (fst k))), Et, map_map. exact D.
  - intros t' Ht'. destruct (Tin t' Ht') as [t [Ht Ek]]. unfold tskel in Ek. injection Ek as _ Eu _.
    specialize (E t Ht). lia.
  - change t_name with (fun t => fst (fst (tskel t))).
    rewrite <- (map_map tskel (fun k => fst (fst k))), Et, map_map. exact F.
  - intros t' Ht' n u. destruct (Tin t' Ht') as [t [Ht Ek]]. unfold tskel in Ek. injection Ek as E1 E2 E3.
    rewrite <- E3, <- E2. apply G. assumption.
  - intros t' Ht'. destruct (Tin t' Ht') as [t [Ht Ek]]. unfold tskel in Ek. injection Ek as E1 E2 E3.
    rewrite <- E3. apply H. assumption.
  - rewrite Er. exact I.
  - rewrite Er. exact J.
  - rewrite Etn. exact K.
Qed.

Lemma forall2_evolves_skel ss ss' : Forall2 evolves ss ss' -> map skel ss' = map skel ss.
Proof.
  induction 1 as [|a b l l' E F IH]; simpl; auto. f_equal; auto.
  apply evolves_fields in E as (E1 & E2 & E3 & E4 & E5 & E6). unfold skel. congruence.
Qed.

Lemma upd_sub_skel u f ss : (forall s, evolves s (f s)) -> map skel (upd_sub u f ss) = map skel ss.
Proof.
  intros Hf. apply forall2_evolves_skel. unfold upd_sub. induction ss as [|s ss IH]; simpl; constructor; auto.
  destruct (N.eqb u (s_uid s)); [apply Hf|apply evolves_refl].
Qed.

Lemma map_cond_skel (c : sub -> bool) f ss :
  (forall s, evolves s (f s)) -> map skel (map (fun s => if c s then f s else s) ss) = map skel ss.
Proof.
  intros Hf. apply forall2_evolves_skel. induction ss as [|s ss IH]; simpl; constructor; auto.
  destruct (c s); [apply Hf|apply evolves_refl].
Qed.

Lemma settle_ctl touched sv : ctl_inv sv -> ctl_inv (settle touched sv).
Proof.
  intros I. unfold settle.
  pose proof (settle_subs_evolve (sv_now sv) touched (sv_subs sv) (sv_cons sv)) as F.
  destruct (settle_subs (sv_now sv) touched (sv_subs sv) (sv_cons sv)) as [ss sts]. simpl in F.
  apply (ctl_inv_ext sv); auto. simpl. apply forall2_evolves_skel. exact F.
Qed.

(* ---------- lookups ---------- *)
Lemma find_topic_some n ts t : find_topic n ts = Some t -> In t ts /\ t_name t = n.
Proof.
  induction ts as [|x ts IH]; simpl; [discriminate|]. destruct (name_eqb n (t_name x)) eqn:E.
  - intros H; injection H as <-. apply name_eqb_eq in E. auto.
  - intros H. destruct (IH H). auto.
Qed.
Lemma find_topic_none n ts : find_topic n ts = None <-> ~ In n (map t_name ts).
Proof.
  induction ts as [|x ts IH]; simpl; [tauto|]. destruct (name_eqb n (t_name x)) eqn:E.
  - apply name_eqb_eq in E. split; [discriminate|]. intros H. exfalso. apply H. auto.
  - rewrite IH. split; intros H; [intros [H1|H1]; auto|tauto].
    subst. rewrite name_eqb_refl in E. discriminate.
Qed.
Lemma find_sub_some n ss s : find_sub n ss = Some s -> In s ss /\ s_name s = n.
Proof.
  induction ss as [|x ss IH]; simpl; [discriminate|]. destruct (name_eqb n (s_name x)) eqn:E.
  - intros H; injection H as <-. apply name_eqb_eq in E. auto.
  - intros H. destruct (IH H). auto.
Qed.
Lemma find_sub_none n ss : find_sub n ss = None <-> ~ In n (map s_name ss).
Proof.
  induction ss as [|x ss IH]; simpl; [tauto|]. destruct (name_eqb n (s_name x)) eqn:E.
  - apply name_eqb_eq in E. split; [discriminate|]. intros H. exfalso. apply H. auto.
  - rewrite IH. split; intros H; [intros [H1|H1]; auto|tauto].
    subst. rewrite name_eqb_refl in E. discriminate.
Qed.
Lemma find_topic_in n ts t : NoDup (map t_name ts) -> In t ts -> t_name t = n -> find_topic n ts = Some t.
Proof.
  induction ts as [|x ts IH]; simpl; [tauto|]. intros ND [->|Hin] En.
  - subst. rewrite name_eqb_refl. reflexivity.
  - inversion ND as [|? ? Hn ND']; subst. destruct (name_eqb (t_name t) (t_name x)) eqn:E.
    + apply name_eqb_eq in E. exfalso. apply Hn. rewrite <- E. apply in_map. assumption.
    + auto.
Qed.
Lemma find_sub_in n ss s : NoDup (map s_name ss) -> In s ss -> s_name s = n -> find_sub n ss = Some s.
Proof.
  induction ss as [|x ss IH]; simpl; [tauto|]. intros ND [->|Hin] En.
  - subst. rewrite name_eqb_refl. reflexivity.
  - inversion ND as [|? ? Hn ND']; subst. destruct (name_eqb (s_name s) (s_name x)) eqn:E.
    + apply name_eqb_eq in E. exfalso. apply Hn. rewrite <- E. apply in_map. assumption.
    + auto.
Qed.

Lemma sorted_lt_nodup l : StronglySorted N.lt l -> NoDup l.
Proof.
  induction 1 as [|a l S IH F]; constructor; auto. intros Hin. rewrite Forall_forall in F.
  specialize (F a Hin). lia.
Qed.

Lemma sorted_app_one l x : StronglySorted N.lt l -> (forall y, In y l -> y < x) -> StronglySorted N.lt (l ++ [x]).
Proof.
  induction 1 as [|a l S IH F]; simpl; intros H.
  - repeat constructor.
  - constructor; [apply IH; auto|]. apply Forall_app. split; auto.
Qed.

Lemma sorted_filter {A} (f : A -> N) (p : A -> bool) l :
  StronglySorted N.lt (map f l) -> StronglySorted N.lt (map f (filter p l)).
Proof.
  induction l as [|a l IH]; simpl; intros S; [constructor|]. inversion S as [|? ? S' F]; subst.
  destruct (p a); simpl; auto. constructor; auto.
  rewrite Forall_forall in *. intros y Hy. apply in_map_iff in Hy as [z [<- Hz]]. apply filter_In in Hz as [Hz _].
  apply F. apply in_map. assumption.
Qed.

Lemma nodup_filter {A B} (f : A -> B) (p : A -> bool) l : NoDup (map f l) -> NoDup (map f (filter p l)).
Proof.
  induction l as [|a l IH]; simpl; intros ND; [constructor|]. inversion ND as [|? ? Hn ND']; subst.
  destruct (p a); simpl; auto. constructor; auto. intros Hin. apply Hn.
  apply in_map_iff in Hin as [z [E Hz]]. apply filter_In in Hz as [Hz _]. rewrite <- E. apply in_map. assumption.
Qed.

(* ---------- association lists keyed by names ---------- *)
Lemma aremove_name_in {V} (k : name) (m : list (name * V)) x :
  NoDup (map fst m) -> (In x (aremove name_eqb k m) <-> fst x <> k /\ In x m).
Proof.
  induction m as [|[k' v'] m IH]; simpl; [tauto|]. intros Hn.
  inversion Hn as [|? ? Hni Hn']; subst. destruct (name_eqb k k') eqn:E.
  - apply name_eqb_eq in E. subst. split.
    + intros Hx. split; auto. intros <-. apply Hni. apply in_map. exact Hx.
    + intros [H1 [<-|H2]]; simpl in *; congruence.
  - assert (k <> k') by (intros ->; rewrite name_eqb_refl in E; discriminate).
    simpl. rewrite IH by assumption. split.
    + intros [<-|[H1 H2]]; simpl; auto.
    + intros [H1 [<-|H2]]; auto.
Qed.

Lemma aremove_name_keys {V} (k : name) (m : list (name * V)) :
  NoDup (map fst m) -> NoDup (map fst (aremove name_eqb k m)).
Proof.
  induction m as [|[k' v'] m IH]; simpl; auto. intros Hn.
  inversion Hn as [|? ? Hni Hn']; subst. destruct (name_eqb k k'); auto.
  simpl. constructor; auto. intros Hin. apply Hni.
  apply in_map_iff in Hin as [x [Hx1 Hx2]]. apply aremove_name_in in Hx2 as [_ Hx2]; auto.
  apply in_map_iff. exists x. auto.
Qed.

Lemma aremove_name_sorted (k : name) (m : list (name * N)) :
  StronglySorted N.lt (map snd m) -> StronglySorted N.lt (map snd (aremove name_eqb k m)).
Proof.
  induction m as [|[k' v'] m IH]; simpl; auto. intros S. inversion S as [|? ? S' F]; subst.
  destruct (name_eqb k k'); auto. simpl. constructor; auto.
  rewrite Forall_forall in *. intros y Hy. apply F.
  apply in_map_iff in Hy as [x [<- Hx]]. apply in_map.
  clear - Hx. induction m as [|[a b] m IHm]; simpl in *; [tauto|].
  destruct (name_eqb k a); [right; assumption|]. destruct Hx as [<-|Hx]; auto.
Qed.

Lemma amem_name_in {V} (k : name) (m : list (name * V)) :
  amem name_eqb k m = true <-> In k (map fst m).
Proof.
  unfold amem. induction m as [|[k' v'] m IH]; simpl; [split; [discriminate|tauto]|].
  destruct (name_eqb k k') eqn:E.
  - apply name_eqb_eq in E. subst. tauto.
  - rewrite IH. split; auto. intros [->|H]; auto. rewrite name_eqb_refl in E. discriminate.
Qed.

(* ---------- upd_topic ---------- *)
Lemma upd_topic_names u f ts :
  (forall t, t_name (f t) = t_name t) -> map t_name (upd_topic u f ts) = map t_name ts.
Proof.
  intros H. unfold upd_topic. rewrite map_map. apply map_ext. intros t. destruct (N.eqb u (t_uid t)); auto.
Qed.
Lemma upd_topic_uids u f ts :
  (forall t, t_uid (f t) = t_uid t) -> map t_uid (upd_topic u f ts) = map t_uid ts.
Proof.
  intros H. unfold upd_topic. rewrite map_map. apply map_ext. intros t. destruct (N.eqb u (t_uid t)); auto.
Qed.
Lemma upd_topic_in u f ts t' :
  In t' (upd_topic u f ts) -> exists t, In t ts /\ t' = (if N.eqb u (t_uid t) then f t else t).
Proof. unfold upd_topic. intros H. apply in_map_iff in H as [t [E H]]. eauto. Qed.

Lemma upd_topic_tskel u f ts :
  (forall t, tskel (f t) = tskel t) -> map tskel (upd_topic u f ts) = map tskel ts.
Proof.
  intros H. unfold upd_topic. rewrite map_map. apply map_ext. intros t. destruct (N.eqb u (t_uid t)); auto.
Qed.

Lemma uid_unique_t ts t1 t2 :
  StronglySorted N.lt (map t_uid ts) -> In t1 ts -> In t2 ts -> t_uid t1 = t_uid t2 -> t1 = t2.
Proof.
  induction ts as [|x ts IH]; simpl; [tauto|]. intros S H1 H2 E. inversion S as [|? ? S' F]; subst.
  rewrite Forall_forall in F. destruct H1 as [->|H1], H2 as [->|H2]; auto.
  - specialize (F (t_uid t2) (in_map _ _ _ H2)). lia.
  - specialize (F (t_uid t1) (in_map _ _ _ H1)). lia.
Qed.

Lemma uid_unique_s ss s1 s2 :
  StronglySorted N.lt (map s_uid ss) -> In s1 ss -> In s2 ss -> s_uid s1 = s_uid s2 -> s1 = s2.
Proof.
  induction ss as [|x ss IH]; simpl; [tauto|]. intros S H1 H2 E. inversion S as [|? ? S' F]; subst.
  rewrite Forall_forall in F. destruct H1 as [->|H1], H2 as [->|H2]; auto.
  - specialize (F (s_uid s2) (in_map _ _ _ H2)). lia.
  - specialize (F (s_uid s1) (in_map _ _ _ H1)). lia.
Qed.

Lemma name_unique_s ss s1 s2 :
  NoDup (map s_name ss) -> In s1 ss -> In s2 ss -> s_name s1 = s_name s2 -> s1 = s2.
Proof.
  induction ss as [|x ss IH]; simpl; [tauto|]. intros ND H1 H2 E. inversion ND as [|? ? Hn ND']; subst.
  destruct H1 as [->|H1], H2 as [->|H2]; auto.
  - exfalso. apply Hn. rewrite E. apply in_map. assumption.
  - exfalso. apply Hn. rewrite <- E. apply in_map. assumption.
Qed.

(* ---------- the four structural cases ---------- *)
Lemma create_topic_ctl sv tn :
  ctl_inv sv -> find_topic tn (sv_topics sv) = None ->
  ctl_inv {| sv_now := sv_now sv;
             sv_topics := sv_topics sv ++ [{| t_name := tn; t_uid := sv_tnext sv + 1; t_subs := []; t_next_msg := 0 |}];
             sv_tnext := sv_tnext sv + 1; sv_subs := sv_subs sv; sv_snext := sv_snext sv;
             sv_reg := sv_reg sv; sv_ptnext := sv_ptnext sv; sv_cons := sv_cons sv |}.
Proof.
  intros [A B C D E F G H I J K] Hf. constructor; simpl; auto.
  - rewrite map_app. simpl. apply sorted_app_one; auto.
    intros y Hy. apply in_map_iff in Hy as [t [<- Ht]]. specialize (E t Ht). lia.
  - intros t Ht. apply in_app_iff in Ht as [Ht|[<-|[]]]; simpl; [specialize (E t Ht)|]; lia.
  - rewrite map_app. simpl. apply NoDup_app_one; auto. apply find_topic_none. assumption.
  - intros t Ht. apply in_app_iff in Ht as [Ht|[<-|[]]]; [apply G; assumption|]. simpl.
    intros n u. split; [tauto|]. intros [s [Hs (_ & _ & Ht)]]. specialize (K s Hs). lia.
  - intros t Ht. apply in_app_iff in Ht as [Ht|[<-|[]]]; [apply H; assumption|]. simpl. constructor.
  - intros s Hs. specialize (K s Hs). lia.
Qed.

Lemma delete_topic_ctl sv u :
  ctl_inv sv -> ctl_inv (with_topics sv (del_topic u (sv_topics sv))).
Proof.
  intros [A B C D E F G H I J K]. unfold del_topic. constructor; simpl; auto.
  - apply sorted_filter. assumption.
  - intros t Ht. apply filter_In in Ht as [Ht _]. auto.
  - apply nodup_filter. assumption.
  - intros t Ht. apply filter_In in Ht as [Ht _]. auto.
  - intros t Ht. apply filter_In in Ht as [Ht _]. auto.
Qed.

Lemma create_sub_ctl sv t sn ackdl pcfg :
  ctl_inv sv -> In t (sv_topics sv) -> find_sub sn (sv_subs sv) = None ->
  let uid := sv_snext sv + 1 in
  ctl_inv {| sv_now := sv_now sv;
             sv_topics := upd_topic (t_uid t)
                            (fun t0 => if attached sn (t_subs t0) then t0
                                       else set_topic_subs t0 (t_subs t0 ++ [(sn, uid)])) (sv_topics sv);
             sv_tnext := sv_tnext sv;
             sv_subs := sv_subs sv ++ [sub_new sn uid (t_uid t) ackdl pcfg];
             sv_snext := uid;
             sv_reg := match pcfg with
                       | Some e => if amem name_eqb sn (sv_reg sv) then sv_reg sv else sv_reg sv ++ [(sn, e)]
                       | None => sv_reg sv
                       end;
             sv_ptnext := sv_ptnext sv; sv_cons := sv_cons sv |}.
Proof.
  intros [A B C D E F G H I J K] Ht Hf uid.
  assert (Hfresh : ~ In sn (map s_name (sv_subs sv))) by (apply find_sub_none; assumption).
  assert (Hnoatt : forall t0, In t0 (sv_topics sv) -> attached sn (t_subs t0) = false).
  { intros t0 Ht0. destruct (attached sn (t_subs t0)) eqn:Ea; auto. exfalso.
    apply amem_name_in in Ea. apply in_map_iff in Ea as [[n u] [En Hin]]. simpl in En. subst n.
    apply (G t0 Ht0) in Hin as [s [Hs (Hn & _)]]. apply Hfresh. rewrite <- Hn. apply in_map. assumption. }
  assert (Hnoreg : amem name_eqb sn (sv_reg sv) = false).
  { destruct (amem name_eqb sn (sv_reg sv)) eqn:Ea; auto. exfalso.
    apply amem_name_in in Ea. apply in_map_iff in Ea as [[n e] [En Hin]]. simpl in En. subst n.
    apply I in Hin as [s [Hs (Hn & _)]]. apply Hfresh. rewrite <- Hn. apply in_map. assumption. }
  constructor; simpl.
  - rewrite map_app. simpl. apply sorted_app_one; auto.
    intros y Hy. apply in_map_iff in Hy as [s [<- Hs]]. specialize (B s Hs). unfold uid. lia.
  - intros s Hs. apply in_app_iff in Hs as [Hs|[<-|[]]]; simpl; [specialize (B s Hs)|]; unfold uid; lia.
  - rewrite map_app. simpl. apply NoDup_app_one; auto.
  - rewrite upd_topic_uids; auto. intros t0. destruct (attached sn (t_subs t0)); reflexivity.
  - intros t' Ht'. apply upd_topic_in in Ht' as [t0 [Ht0 ->]].
    destruct (N.eqb (t_uid t) (t_uid t0)); [destruct (attached sn (t_subs t0))|]; simpl; auto.
  - rewrite upd_topic_names; auto. intros t0. destruct (attached sn (t_subs t0)); reflexivity.
  - intros t' Ht' n u. apply upd_topic_in in Ht' as [t0 [Ht0 ->]].
    destruct (N.eqb (t_uid t) (t_uid t0)) eqn:Eu.
    + apply N.eqb_eq in Eu. rewrite (Hnoatt t0 Ht0). simpl. rewrite in_app_iff. simpl. rewrite (G t0 Ht0). split.
      * intros [[s [Hs Hx]]|[Hx|[]]].
        -- exists s. split; [apply in_app_iff; auto|assumption].
        -- injection Hx as <- <-. exists (sub_new sn uid (t_uid t) ackdl pcfg). split; [apply in_app_iff; simpl; auto|].
           simpl. auto.
      * intros [s [Hs Hx]]. apply in_app_iff in Hs as [Hs|[<-|[]]]; [left; eauto|].
        right. left. simpl in Hx. destruct Hx as (<- & <- & _). reflexivity.
    + apply N.eqb_neq in Eu. rewrite (G t0 Ht0). split.
      * intros [s [Hs Hx]]. exists s. split; [apply in_app_iff; auto|assumption].
      * intros [s [Hs Hx]]. apply in_app_iff in Hs as [Hs|[<-|[]]]; [eauto|].
        simpl in Hx. destruct Hx as (_ & _ & Hx). congruence.
  - intros t' Ht'. apply upd_topic_in in Ht' as [t0 [Ht0 ->]].
    destruct (N.eqb (t_uid t) (t_uid t0)); [|apply H; assumption].
    rewrite (Hnoatt t0 Ht0). simpl. rewrite map_app. simpl. apply sorted_app_one; [apply H; assumption|].
    intros y Hy. apply in_map_iff in Hy as [[n u] [<- Hin]]. simpl.
    apply (G t0 Ht0) in Hin as [s [Hs (_ & <- & _)]]. specialize (B s Hs). unfold uid. lia.
  - intros n e. destruct pcfg as [e0|].
    + rewrite Hnoreg. rewrite in_app_iff. simpl. rewrite I. split.
      * intros [[s [Hs Hx]]|[Hx|[]]].
        -- exists s. split; [apply in_app_iff; auto|assumption].
        -- injection Hx as <- <-. exists (sub_new sn uid (t_uid t) ackdl (Some e0)).
           split; [apply in_app_iff; simpl; auto|]. simpl. auto.
      * intros [s [Hs Hx]]. apply in_app_iff in Hs as [Hs|[<-|[]]]; [left; eauto|].
        right. left. simpl in Hx. destruct Hx as [<- Hx]. congruence.
    + rewrite I. split.
      * intros [s [Hs Hx]]. exists s. split; [apply in_app_iff; auto|assumption].
      * intros [s [Hs Hx]]. apply in_app_iff in Hs as [Hs|[<-|[]]]; [eauto|].
        simpl in Hx. destruct Hx as [_ Hx]. discriminate.
  - destruct pcfg as [e0|]; auto. rewrite Hnoreg. rewrite map_app. simpl. apply NoDup_app_one; auto.
    intros Hin. apply amem_name_in in Hin. congruence.
  - intros s Hs. apply in_app_iff in Hs as [Hs|[<-|[]]]; auto. simpl. apply E. assumption.
Qed.

Lemma delete_sub_ctl sv s :
  ctl_inv sv -> In s (sv_subs sv) ->
  ctl_inv {| sv_now := sv_now sv;
             sv_topics := upd_topic (s_topic s)
                            (fun t0 => set_topic_subs t0 (aremove name_eqb (s_name s) (t_subs t0))) (sv_topics sv);
             sv_tnext := sv_tnext sv; sv_subs := del_sub (s_uid s) (sv_subs sv); sv_snext := sv_snext sv;
             sv_reg := aremove name_eqb (s_name s) (sv_reg sv); sv_ptnext := sv_ptnext sv;
             sv_cons := release_consumers (s_uid s) (sv_cons sv) |}.
Proof.
  intros [A B C D E F G H I J K] Hs.
  assert (Hdel : forall x, In x (del_sub (s_uid s) (sv_subs sv)) <-> In x (sv_subs sv) /\ x <> s).
  { intros x. unfold del_sub. rewrite filter_In. split.
    - intros [Hx Hn]. split; auto. intros ->. rewrite N.eqb_refl in Hn. discriminate.
    - intros [Hx Hn]. split; auto. apply negb_true_iff. apply N.eqb_neq. intros Eu. apply Hn.
      symmetry. eapply uid_unique_s; eauto. }
  assert (Hnm : forall x, In x (sv_subs sv) -> (x <> s <-> s_name x <> s_name s)).
  { intros x Hx. split; [|congruence]. intros Hn En. apply Hn. eapply name_unique_s; eauto. }
  assert (TND : forall t0, In t0 (sv_topics sv) -> NoDup (map fst (t_subs t0))).
  { intros t0 Ht0. pose proof (H t0 Ht0) as S. apply sorted_lt_nodup in S.
    (* names in t_subs are unique because uids are and names<->uids is a bijection on live subscriptions *)
    assert (Hinj : forall p q, In p (t_subs t0) -> In q (t_subs t0) -> fst p = fst q -> p = q).
    { intros [n1 u1] [n2 u2] H1 H2 En. simpl in En. subst n2.
      apply (G t0 Ht0) in H1 as [s1 [Hs1 (N1 & U1 & _)]]. apply (G t0 Ht0) in H2 as [s2 [Hs2 (N2 & U2 & _)]].
      assert (s1 = s2) by (eapply name_unique_s; eauto; congruence). subst. congruence. }
    clear - S Hinj. induction (t_subs t0) as [|p l IH]; simpl in *; [constructor|].
    inversion S as [|? ? Hn S']; subst. constructor.
    - intros Hin. apply in_map_iff in Hin as [q [Eq Hq]].
      assert (q = p) by (apply Hinj; auto). subst. apply Hn. apply in_map. assumption.
    - apply IH; auto. }
  constructor; simpl.
  - apply sorted_filter. assumption.
  - intros x Hx. apply Hdel in Hx as [Hx _]. auto.
  - apply nodup_filter. assumption.
  - rewrite upd_topic_uids; auto.
  - intros t' Ht'. apply upd_topic_in in Ht' as [t0 [Ht0 ->]].
    destruct (N.eqb (s_topic s) (t_uid t0)); simpl; auto.
  - rewrite upd_topic_names; auto.
  - intros t' Ht' n u. apply upd_topic_in in Ht' as [t0 [Ht0 ->]].
    destruct (N.eqb (s_topic s) (t_uid t0)) eqn:Eu; simpl.
    + rewrite aremove_name_in by (apply TND; assumption). simpl. rewrite (G t0 Ht0). split.
      * intros [Hn [x [Hx (N1 & U1 & T1)]]]. exists x. split; [|auto]. apply Hdel. split; auto.
        apply Hnm; auto. congruence.
      * intros [x [Hx (N1 & U1 & T1)]]. apply Hdel in Hx as [Hx Hne]. split; [|eauto].
        apply Hnm in Hne; auto. congruence.
    + apply N.eqb_neq in Eu. rewrite (G t0 Ht0). split.
      * intros [x [Hx (N1 & U1 & T1)]]. exists x. split; [|auto]. apply Hdel. split; auto. intros ->. congruence.
      * intros [x [Hx Hy]]. apply Hdel in Hx as [Hx _]. eauto.
  - intros t' Ht'. apply upd_topic_in in Ht' as [t0 [Ht0 ->]].
    destruct (N.eqb (s_topic s) (t_uid t0)); simpl; [apply aremove_name_sorted|]; apply H; assumption.
  - intros n e. rewrite aremove_name_in by assumption. simpl. rewrite I. split.
    + intros [Hn [x [Hx (N1 & P1)]]]. exists x. split; [|auto]. apply Hdel. split; auto. apply Hnm; auto. congruence.
    + intros [x [Hx (N1 & P1)]]. apply Hdel in Hx as [Hx Hne]. split; [|eauto]. apply Hnm in Hne; auto. congruence.
  - apply aremove_name_keys. assumption.
  - intros x Hx. apply Hdel in Hx as [Hx _]. auto.
Qed.

(* ---------- every request preserves the invariant ---------- *)
Ltac dm := repeat match goal with
                  | |- context [match ?x with _ => _ end] => destruct x eqn:?; simpl
                  end.

Lemma ext_subs sv ss : map skel ss = map skel (sv_subs sv) -> ctl_inv sv -> ctl_inv (with_subs sv ss).
Proof. intros E I. apply (ctl_inv_ext sv); auto. Qed.
Lemma ext_streams sv sts : ctl_inv sv -> ctl_inv (with_streams sv sts).
Proof. intros I. apply (ctl_inv_ext sv); auto. Qed.
Lemma ext_cons sv c : ctl_inv sv -> ctl_inv (with_cons sv c).
Proof. intros I. apply (ctl_inv_ext sv); auto. Qed.

Lemma handle_ctl sv r : ctl_inv sv -> ctl_inv (fst (fst (handle sv r))).
Proof.
  intros I. destruct r; simpl.
  - (* CreateTopic *) dm; auto. apply create_topic_ctl; assumption.
  - dm; auto.
  - (* DeleteTopic *) dm; auto. apply delete_topic_ctl; assumption.
  - dm; auto.
  - dm; auto.
  - (* CreateSub *)
    destruct (parse_topic_name topic) as [tn|]; simpl; auto.
    destruct (parse_sub_name n) as [sn|]; simpl; auto.
    destruct (parse_push push) as [pcfg|]; simpl; auto.
    destruct (find_topic tn (sv_topics sv)) as [t|] eqn:Ft; simpl; auto.
    destruct (negb (str_eqb (fst tn) (fst sn))); simpl; auto.
    destruct (find_sub sn (sv_subs sv)) eqn:Fs; simpl; auto.
    apply find_topic_some in Ft as [Hin _]. apply create_sub_ctl; assumption.
  - dm; auto.
  - (* DeleteSub *) dm; auto.
    match goal with H : find_sub _ _ = Some ?s |- _ => apply find_sub_some in H as [Hin Hn] end.
    rewrite <- Hn. apply delete_sub_ctl; assumption.
  - dm; auto.
  - (* Publish *) dm; auto;
      (apply (ctl_inv_ext_t sv); simpl; auto;
       [apply upd_topic_tskel; reflexivity
       |apply (map_cond_skel (fun s0 => existsb (N.eqb (s_uid s0)) (map snd (t_subs t))) (sub_post _));
        intros; apply evolves_post]).
  - (* Pull *) dm; auto. apply ext_subs; auto. apply upd_sub_skel. intros. apply evolves_pull.
  - (* Ack *) dm; auto. apply ext_subs; auto. apply upd_sub_skel. intros. apply evolves_ack.
  - (* Modify *) dm; auto. apply ext_subs; auto. apply upd_sub_skel. intros. apply evolves_modify.
  - (* Advance *) apply (ctl_inv_ext sv); auto.
  - dm; auto.
  - auto.
  - (* StreamOpen *) dm; auto. apply ext_cons; assumption.
  - (* StreamSend *) dm; auto; try (apply ext_cons; assumption).
    apply ext_subs; auto. apply upd_sub_skel. intros.
    eapply evolves_trans; [apply evolves_ack|apply evolves_modify].
  - (* StreamClose *) apply ext_streams; assumption.
  - (* StreamRead *) dm; auto. apply ext_streams; assumption.
  - (* PullBg *) dm; auto; apply ext_cons; assumption.
  - (* Join *) dm; auto. apply ext_cons; assumption.
  - (* push pass *)
    destruct (find_sub sub (sv_subs sv)) as [s|]; simpl; auto.
    apply ext_subs; auto. apply upd_sub_skel. intros s1.
    eapply evolves_trans; [apply (evolves_pull 1000 (sv_now sv) s1)|].
    apply evolves_fold_left. intros x [l0 o]. cbn [fst snd].
    destruct o; try apply evolves_refl; try apply evolves_modify.
    match goal with |- context [if ?b then _ else _] => destruct b end; [apply evolves_ack|apply evolves_modify].
Qed.

Lemma init_ctl : ctl_inv init_server.
Proof.
  constructor; simpl; try (apply SSorted_nil); try (apply NoDup_nil); try (intros; tauto).
  intros n e. split; [tauto|]. intros [s [[] _]].
Qed.

(* C10/C11/C13/C14: the control-plane invariant holds in every reachable state. *)
Theorem reachable_ctl sv : reachable sv -> ctl_inv sv.
Proof.
  induction 1 as [|sv r R IH]; [apply init_ctl|].
  unfold api_step. pose proof (handle_ctl sv r IH) as H. destruct (handle sv r) as [[sv1 p] t]. simpl in *.
  apply settle_ctl. assumption.
Qed.

(* ---------- listings are in creation order ---------- *)
Lemma insert_sorted_head {A} (f : A -> N) (x : A) (l : list A) :
  (forall y, In y l -> f x < f y) -> insert_sorted (fun a b => N.ltb (f a) (f b)) x l = x :: l.
Proof.
  destruct l as [|y l]; simpl; auto. intros H. specialize (H y (or_introl eq_refl)).
  apply N.ltb_lt in H. rewrite H. reflexivity.
Qed.

Lemma isort_sorted_id {A} (f : A -> N) (l : list A) :
  StronglySorted N.lt (map f l) -> isort (fun a b => N.ltb (f a) (f b)) l = l.
Proof.
  induction l as [|x l IH]; simpl; auto. intros S. inversion S as [|? ? S' F]; subst.
  rewrite IH by assumption. apply insert_sorted_head. intros y Hy. rewrite Forall_forall in F.
  apply F. apply in_map. assumption.
Qed.

(* C13: ListTopics pages through the project's topics in creation order *)
Theorem list_topics_spec sv project size tok pg p :
  ctl_inv sv -> parse_paging size tok = Some pg -> parse_project project = Some p ->
  let all := filter (fun t => str_eqb (fst (t_name t)) p) (sv_topics sv) in
  handle sv (RListTopics project size tok) =
  (sv, PNames (map (fun t => show_topic_name (t_name t)) (fst (page_of pg all))) (next_token (snd (page_of pg all))),
   no_touch).
Proof.
  intros I Hp Hj. simpl. rewrite Hp, Hj. unfold uid_ltb_topic.
  rewrite (isort_sorted_id t_uid) by (apply sorted_filter; apply I).
  reflexivity.
Qed.

Theorem list_subs_spec sv project size tok pg p :
  ctl_inv sv -> parse_paging size tok = Some pg -> parse_project project = Some p ->
  let all := filter (fun s => str_eqb (fst (s_name s)) p) (sv_subs sv) in
  snd (fst (handle sv (RListSubs project size tok))) =
  PSubs (map (sub_resource sv) (fst (page_of pg all))) (next_token (snd (page_of pg all))).
Proof.
  intros I Hp Hj. simpl. rewrite Hp, Hj. unfold uid_ltb_sub.
  rewrite (isort_sorted_id s_uid) by (apply sorted_filter; apply I).
  reflexivity.
Qed.

Theorem list_topic_subs_spec sv topic size tok pg tn t :
  ctl_inv sv -> parse_topic_name topic = Some tn -> parse_paging size tok = Some pg ->
  find_topic tn (sv_topics sv) = Some t ->
  handle sv (RListTopicSubs topic size tok) =
  (sv, PNames (map (fun e => show_sub_name (fst e)) (fst (page_of pg (t_subs t))))
              (next_token (snd (page_of pg (t_subs t)))), no_touch).
Proof.
  intros I Hn Hp Hf. simpl. rewrite Hn, Hp, Hf. unfold snd_ltb.
  apply find_topic_some in Hf as [Hin _].
  rewrite (isort_sorted_id (@snd name N)) by (apply (ci_attach_sorted _ I); assumption).
  reflexivity.
Qed.

(* uids grow with creation: a newer resource sorts after every older one *)
Theorem create_topic_newest sv n tn :
  ctl_inv sv -> parse_topic_name n = Some tn -> find_topic tn (sv_topics sv) = None ->
  exists t, sv_topics (fst (fst (handle sv (RCreateTopic n)))) = sv_topics sv ++ [t] /\
            t_name t = tn /\ forall t0, In t0 (sv_topics sv) -> t_uid t0 < t_uid t.
Proof.
  intros I Hn Hf. simpl. rewrite Hn, Hf. simpl. eexists. split; [reflexivity|]. split; [reflexivity|].
  simpl. intros t0 H0. pose proof (ci_tuid_bound _ I t0 H0). lia.
Qed.

(* ---------- C10: the namespaces behave as maps ---------- *)
Definition status (p : resp) : N := match p with PErr c => c | _ => 0 end.

Theorem create_topic_status sv n :
  status (snd (fst (handle sv (RCreateTopic n)))) =
  match parse_topic_name n with
  | None => INVALID_ARGUMENT
  | Some tn => match find_topic tn (sv_topics sv) with Some _ => ALREADY_EXISTS | None => 0 end
  end.
Proof. simpl. dm; reflexivity. Qed.

Theorem create_topic_effect sv n tn :
  parse_topic_name n = Some tn -> find_topic tn (sv_topics sv) = None ->
  let sv' := fst (fst (handle sv (RCreateTopic n))) in
  (exists t, find_topic tn (sv_topics sv') = Some t) /\
  (forall m, m <> tn -> find_topic m (sv_topics sv') = find_topic m (sv_topics sv)).
Proof.
  intros Hn Hf. simpl. rewrite Hn, Hf. simpl. split.
  - induction (sv_topics sv) as [|x ts IH]; simpl in *.
    + rewrite name_eqb_refl. eauto.
    + destruct (name_eqb tn (t_name x)); [discriminate|]. auto.
  - intros m Hm. induction (sv_topics sv) as [|x ts IH]; simpl in *.
    + destruct (name_eqb m tn) eqn:E; auto. apply name_eqb_eq in E. congruence.
    + destruct (name_eqb tn (t_name x)); [discriminate|]. destruct (name_eqb m (t_name x)); auto.
Qed.

Lemma find_topic_filter m (p : topic -> bool) ts :
  (forall x, In x ts -> p x = false -> t_name x <> m) -> find_topic m (filter p ts) = find_topic m ts.
Proof.
  induction ts as [|x ts IH]; simpl; auto. intros H.
  destruct (p x) eqn:Ep; simpl.
  - destruct (name_eqb m (t_name x)); auto.
  - destruct (name_eqb m (t_name x)) eqn:En.
    + apply name_eqb_eq in En. exfalso. apply (H x); auto.
    + auto.
Qed.

Lemma find_sub_filter m (p : sub -> bool) ss :
  (forall x, In x ss -> p x = false -> s_name x <> m) -> find_sub m (filter p ss) = find_sub m ss.
Proof.
  induction ss as [|x ss IH]; simpl; auto. intros H.
  destruct (p x) eqn:Ep; simpl.
  - destruct (name_eqb m (s_name x)); auto.
  - destruct (name_eqb m (s_name x)) eqn:En.
    + apply name_eqb_eq in En. exfalso. apply (H x); auto.
    + auto.
Qed.

Theorem delete_topic_status sv n :
  status (snd (fst (handle sv (RDeleteTopic n)))) =
  match parse_topic_name n with
  | None => INVALID_ARGUMENT
  | Some tn => match find_topic tn (sv_topics sv) with Some _ => 0 | None => NOT_FOUND end
  end.
Proof. simpl. dm; reflexivity. Qed.

Lemma name_unique_t ts t1 t2 :
  NoDup (map t_name ts) -> In t1 ts -> In t2 ts -> t_name t1 = t_name t2 -> t1 = t2.
Proof.
  induction ts as [|x ts IH]; simpl; [tauto|]. intros ND H1 H2 E. inversion ND as [|? ? Hn ND']; subst.
  destruct H1 as [->|H1], H2 as [->|H2]; auto.
  - exfalso. apply Hn. rewrite E. apply in_map. assumption.
  - exfalso. apply Hn. rewrite <- E. apply in_map. assumption.
Qed.

(* after a successful delete the name is absent, every other name is untouched,
   and the subscriptions are all still there *)
Theorem delete_topic_effect sv n tn t :
  ctl_inv sv -> parse_topic_name n = Some tn -> find_topic tn (sv_topics sv) = Some t ->
  let sv' := fst (fst (handle sv (RDeleteTopic n))) in
  find_topic tn (sv_topics sv') = None /\
  (forall m, m <> tn -> find_topic m (sv_topics sv') = find_topic m (sv_topics sv)) /\
  topic_by_uid (t_uid t) (sv_topics sv') = None /\
  sv_subs sv' = sv_subs sv.
Proof.
  intros I Hn Hf. simpl. rewrite Hn, Hf. simpl. apply find_topic_some in Hf as [Hin Hname].
  split; [|split; [|split; [|reflexivity]]].
  - apply find_topic_none. intros Hm. apply in_map_iff in Hm as [x [Ex Hx]].
    apply filter_In in Hx as [Hx Hne]. apply negb_true_iff, N.eqb_neq in Hne.
    assert (x = t) by (eapply name_unique_t; eauto; [apply I|congruence]). subst. congruence.
  - intros m Hm. apply find_topic_filter. intros x Hx Hp Ex. apply negb_false_iff, N.eqb_eq in Hp.
    assert (x = t) by (eapply uid_unique_t; eauto; apply I). subst. congruence.
  - unfold del_topic. clear. induction (sv_topics sv) as [|x ts IH]; simpl; auto.
    destruct (N.eqb (t_uid t) (t_uid x)) eqn:E; simpl; auto. rewrite E. assumption.
Qed.

Theorem get_topic_status sv n :
  status (snd (fst (handle sv (RGetTopic n)))) =
  match parse_topic_name n with
  | None => INVALID_ARGUMENT
  | Some tn => match find_topic tn (sv_topics sv) with Some _ => 0 | None => NOT_FOUND end
  end.
Proof. simpl. dm; reflexivity. Qed.

(* CreateSubscription: the checks in the order the server makes them *)
Theorem create_sub_status sv n topic ackdl push :
  status (snd (fst (handle sv (RCreateSub n topic ackdl push)))) =
  match parse_topic_name topic with
  | None => INVALID_ARGUMENT
  | Some tn =>
    match parse_sub_name n with
    | None => INVALID_ARGUMENT
    | Some sn =>
      match parse_push push with
      | None => INVALID_ARGUMENT
      | Some _ =>
        match find_topic tn (sv_topics sv) with
        | None => NOT_FOUND
        | Some _ =>
          if negb (str_eqb (fst tn) (fst sn)) then INVALID_ARGUMENT
          else match find_sub sn (sv_subs sv) with Some _ => ALREADY_EXISTS | None => 0 end
        end
      end
    end
  end.
Proof.
  simpl. destruct (parse_topic_name topic); simpl; auto. destruct (parse_sub_name n); simpl; auto.
  destruct (parse_push push); simpl; auto. destruct (find_topic _ _); simpl; auto.
  destruct (negb _); simpl; auto. destruct (find_sub _ _); reflexivity.
Qed.

Lemma find_sub_app_new sn ss s : find_sub sn ss = None -> s_name s = sn -> find_sub sn (ss ++ [s]) = Some s.
Proof.
  intros H E. induction ss as [|x ss IH]; simpl in *.
  - rewrite E, name_eqb_refl. reflexivity.
  - destruct (name_eqb sn (s_name x)); [discriminate|]. auto.
Qed.
Lemma find_sub_app_other m ss s : s_name s <> m -> find_sub m (ss ++ [s]) = find_sub m ss.
Proof.
  intros E. induction ss as [|x ss IH]; simpl.
  - destruct (name_eqb m (s_name s)) eqn:En; auto. apply name_eqb_eq in En. congruence.
  - destruct (name_eqb m (s_name x)); auto.
Qed.

(* a successful CreateSubscription stores exactly what was asked for and touches no other name *)
Theorem create_sub_effect sv n topic ackdl push tn sn pcfg t :
  parse_topic_name topic = Some tn -> parse_sub_name n = Some sn -> parse_push push = Some pcfg ->
  find_topic tn (sv_topics sv) = Some t -> str_eqb (fst tn) (fst sn) = true ->
  find_sub sn (sv_subs sv) = None ->
  let sv' := fst (fst (handle sv (RCreateSub n topic ackdl push))) in
  exists s, find_sub sn (sv_subs sv') = Some s /\
            s = sub_new sn (sv_snext sv + 1) (t_uid t) (effective_ackdl ackdl) pcfg /\
            sv_subs sv' = sv_subs sv ++ [s] /\
            (forall m, m <> sn -> find_sub m (sv_subs sv') = find_sub m (sv_subs sv)).
Proof.
  intros H1 H2 H3 H4 H5 H6. simpl. rewrite H1, H2, H3, H4, H5, H6. simpl.
  eexists. split; [|split; [reflexivity|split; [reflexivity|]]].
  - apply find_sub_app_new; auto.
  - intros m Hm. apply find_sub_app_other. simpl. congruence.
Qed.

Theorem delete_sub_status sv n :
  status (snd (fst (handle sv (RDeleteSub n)))) =
  match parse_sub_name n with
  | None => INVALID_ARGUMENT
  | Some sn => match find_sub sn (sv_subs sv) with Some _ => 0 | None => NOT_FOUND end
  end.
Proof. simpl. dm; reflexivity. Qed.

(* C10/C11: after a successful DeleteSubscription the name is absent, no topic lists
   it, its push registration is gone, every other subscription is untouched *)
Theorem delete_sub_effect sv n sn s :
  ctl_inv sv -> parse_sub_name n = Some sn -> find_sub sn (sv_subs sv) = Some s ->
  let sv' := fst (fst (handle sv (RDeleteSub n))) in
  find_sub sn (sv_subs sv') = None /\
  (forall m, m <> sn -> find_sub m (sv_subs sv') = find_sub m (sv_subs sv)) /\
  (forall t u, In t (sv_topics sv') -> ~ In (sn, u) (t_subs t)) /\
  ~ In sn (map fst (sv_reg sv')).
Proof.
  intros I Hn Hf.
  assert (I' : ctl_inv (fst (fst (handle sv (RDeleteSub n))))) by (apply handle_ctl; assumption).
  simpl in *. rewrite Hn, Hf in *. simpl in *. apply find_sub_some in Hf as [Hin Hname].
  assert (Hnone : find_sub sn (del_sub (s_uid s) (sv_subs sv)) = None).
  { apply find_sub_none. intros Hm. apply in_map_iff in Hm as [x [Ex Hx]].
    apply filter_In in Hx as [Hx Hne]. apply negb_true_iff, N.eqb_neq in Hne.
    assert (x = s) by (eapply name_unique_s; eauto; [apply I|congruence]). subst. congruence. }
  split; [exact Hnone|]. split; [|split].
  - intros m Hm. apply find_sub_filter. intros x Hx Hp Ex. apply negb_false_iff, N.eqb_eq in Hp.
    assert (x = s) by (eapply uid_unique_s; eauto; apply I). subst. congruence.
  - intros t u Ht Hu. apply (ci_attach _ I' t Ht) in Hu as [x [Hx (Nx & _)]]. simpl in Hx.
    apply find_sub_none in Hnone. apply Hnone. rewrite <- Nx. apply in_map. assumption.
  - intros Hr. apply in_map_iff in Hr as [[m e] [Em Hr]]. simpl in Em. subst m.
    apply (ci_reg _ I') in Hr as [x [Hx (Nx & _)]]. simpl in Hx.
    apply find_sub_none in Hnone. apply Hnone. rewrite <- Nx. apply in_map. assumption.
Qed.

(* data-plane calls on an absent (well-formed) name answer NOT_FOUND *)
Theorem absent_sub_not_found sv n sn :
  parse_sub_name n = Some sn -> find_sub sn (sv_subs sv) = None ->
  (forall max ri, snd (fst (handle sv (RPull n max ri))) = PErr NOT_FOUND) /\
  (forall ids, parse_all parse_u64 ids <> None -> snd (fst (handle sv (RAck n ids))) = PErr NOT_FOUND) /\
  (forall secs ids, parse_mods (sv_now sv) ids (map (fun _ => secs) ids) <> None ->
                    snd (fst (handle sv (RModify n secs ids))) = PErr NOT_FOUND) /\
  snd (fst (handle sv (RGetSub n))) = PErr NOT_FOUND /\
  snd (fst (handle sv (RDeleteSub n))) = PErr NOT_FOUND.
Proof.
  intros Hn Hf. simpl. rewrite Hn, Hf. repeat split; auto.
  - intros ids H. destruct (parse_all parse_u64 ids); [reflexivity|congruence].
  - intros secs ids H. destruct (parse_mods _ _ _); [reflexivity|congruence].
Qed.

Theorem absent_topic_not_found sv n tn :
  parse_topic_name n = Some tn -> find_topic tn (sv_topics sv) = None ->
  (forall msgs, snd (fst (handle sv (RPublish n msgs))) = PErr NOT_FOUND) /\
  snd (fst (handle sv (RGetTopic n))) = PErr NOT_FOUND /\
  snd (fst (handle sv (RDeleteTopic n))) = PErr NOT_FOUND /\
  (forall size tok, parse_paging size tok <> None ->
                    snd (fst (handle sv (RListTopicSubs n size tok))) = PErr NOT_FOUND).
Proof.
  intros Hn Hf. simpl. rewrite Hn, Hf. repeat split; auto.
  intros size tok H. destruct (parse_paging size tok); [reflexivity|congruence].
Qed.

(* C10/C11 read-back: Get reports the stored, immutable attributes; the topic is the
   instance's name while that instance lives and the sentinel afterwards *)
Theorem get_sub_spec sv n sn s :
  parse_sub_name n = Some sn -> find_sub sn (sv_subs sv) = Some s ->
  snd (fst (handle sv (RGetSub n))) =
  PSub {| r_name := show_sub_name (s_name s);
          r_topic := match topic_by_uid (s_topic s) (sv_topics sv) with
                     | Some t => show_topic_name (t_name t) | None => deleted_topic_str end;
          r_ackdl := s_ackdl s; r_push := s_push s |}.
Proof. intros Hn Hf. simpl. rewrite Hn, Hf. reflexivity. Qed.

(* C11: a topic lists exactly the live subscriptions created on that instance; a
   re-created namesake (a new instance) lists none of the old ones *)
Theorem attach_exact sv t s :
  ctl_inv sv -> In t (sv_topics sv) -> In s (sv_subs sv) ->
  (In (s_name s, s_uid s) (t_subs t) <-> s_topic s = t_uid t).
Proof.
  intros I Ht Hs. rewrite (ci_attach _ I t Ht). split.
  - intros [x [Hx (N1 & U1 & T1)]]. assert (x = s) by (eapply uid_unique_s; eauto; apply I). subst. assumption.
  - intros E. exists s. auto.
Qed.

Theorem attached_are_live sv t n u :
  ctl_inv sv -> In t (sv_topics sv) -> In (n, u) (t_subs t) ->
  exists s, find_sub n (sv_subs sv) = Some s /\ s_uid s = u /\ s_topic s = t_uid t.
Proof.
  intros I Ht Hin. apply (ci_attach _ I t Ht) in Hin as [s [Hs (N1 & U1 & T1)]].
  exists s. split; auto. apply find_sub_in; auto. apply I.
Qed.

(* C14: the push registry holds exactly the live subscriptions created with a push endpoint *)
Theorem registry_exact sv n e :
  ctl_inv sv -> (In (n, e) (sv_reg sv) <-> exists s, find_sub n (sv_subs sv) = Some s /\ s_push s = Some e).
Proof.
  intros I. rewrite (ci_reg _ I). split.
  - intros [s [Hs (N1 & P1)]]. exists s. split; auto. apply find_sub_in; auto. apply I.
  - intros [s [Hf P1]]. apply find_sub_some in Hf as [Hs N1]. eauto.
Qed.
