(* Proofs about Model/ReqResp.v. *)
From Coq Require Import List Bool.
Import ListNotations.
From Deltio Require Import Model.ReqResp.

Definition inv (s : state) : Prop :=
  (returned s = true -> applied s = true) /\ stale_expiry s = false /\ (applied s = true -> sent s = true) /\
  (sent s = false -> ~ In Mine (queue s)).

Lemma inv_init : inv init.
Proof. repeat split; cbn; try discriminate. intros _ []. Qed.

Lemma inv_step : forall s e s', inv s -> step Wait s e = Some s' -> inv s'.
Proof.
  intros s e s' (Hr & Hx & Ha & Hq) Hs. destruct e; cbn [step] in Hs.
  - destruct (sent s) eqn:Hsent; [discriminate|]. injection Hs as Hs. subst s'. repeat split; cbn; auto. discriminate.
  - injection Hs as Hs. subst s'. repeat split; cbn; auto.
    intros Hn Hin. apply in_app_or in Hin. destruct Hin as [Hin | [Hin | []]]; [exact (Hq Hn Hin) | discriminate].
  - destruct (queue s) as [|[|] r] eqn:Hqueue; [discriminate | |]; injection Hs as Hs; subst s'; repeat split; cbn; auto.
    + intros _. destruct (sent s) eqn:Hsent; [reflexivity|]. exfalso. apply (Hq eq_refl). left. reflexivity.
    + intros Hn Hin. apply (Hq Hn). right. exact Hin.
    + intros Hn Hin. apply (Hq Hn). right. exact Hin.
  - destruct (applied s && negb (returned s)) eqn:Hc; [|discriminate]. injection Hs as Hs. subst s'.
    apply andb_prop in Hc. destruct Hc as [Hap _]. repeat split; cbn; auto.
  - injection Hs as Hs. subst s'. repeat split; cbn; auto.
    rewrite Hx. cbn. destruct (returned s) eqn:Hret; [|reflexivity]. rewrite (Hr eq_refl). reflexivity.
Qed.

Lemma inv_run : forall es s, inv s -> inv (run Wait s es).
Proof.
  induction es as [|e es IH]; intros s H; cbn [run]; [exact H|]. apply IH.
  destruct (step Wait s e) as [s'|] eqn:Hs; [exact (inv_step s e s' H Hs) | exact H].
Qed.

(* the code's protocol, every schedule, any other traffic: when the call has returned the request has been applied,
   and the actor never took the expiry branch in between *)
Lemma wait_applied_on_return : forall es,
  let s := run Wait init es in
  (returned s = true -> applied s = true) /\ stale_expiry s = false.
Proof. intro es. destruct (inv_run es init inv_init) as (Hr & Hx & _). split; assumption. Qed.

(* requests are served in mailbox order, whichever protocol: the caller's request is applied only after everything
   that was queued before it *)
Lemma served_in_order : forall p s s', step p s EServe = Some s' ->
  match queue s with
  | [] => False
  | r :: rest => queue s' = rest /\ (applied s' = applied s \/ r = Mine)
  end.
Proof.
  intros p s s' Hs. cbn [step] in Hs. destruct (queue s) as [|[|] r]; [discriminate | |]; injection Hs as Hs; subst s'; cbn.
  - split; [reflexivity | right; reflexivity].
  - split; [reflexivity | left; reflexivity].
Qed.

(* the fire-and-forget caller: told "done" with the request still queued; the actor takes the expiry branch first *)
Lemma fire_refuted :
  let s := run Fire init late_schedule in
  stale_expiry s = true /\ returned s = true.
Proof. vm_compute. split; reflexivity. Qed.

Lemma fire_returns_unapplied :
  let s := run Fire init [EOther; ESend] in returned s = true /\ applied s = false /\ queue s = [Other; Mine].
Proof. vm_compute. repeat split; reflexivity. Qed.

(* the same schedule with the code's protocol: the answer cannot be received before the request was served *)
Lemma wait_same_schedule :
  let s := run Wait init late_schedule in
  stale_expiry s = false /\ returned s = false /\ applied s = true /\
  returned (run Wait init (late_schedule ++ [ERecv])) = true.
Proof. vm_compute. repeat split; reflexivity. Qed.
