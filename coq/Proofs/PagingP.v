(* Pagination (Model/Paging.v): effective page size, the page as a segment of
   the listing, the next offset, the completeness of the walk that follows the
   next offsets, and the token level (parse_page_token / parse_paging). *)
From Deltio Require Import Model.Base Model.Codec Model.Paging Proofs.BaseP Proofs.CodecP.
From Coq Require Import ZifyNat ZifyN ZifyBool.
Open Scope N_scope.

(* ---------- 1. bridge: the N-counted list operations are skipn / firstn ---------- *)

Section Bridge.
  Context {A : Type}.

  Lemma skip_N_skipn (n : N) (l : list A) : skip_N n l = skipn (N.to_nat n) l.
  Proof.
    revert n; induction l as [|x l IH]; intros n.
    - cbn [skip_N]. now rewrite skipn_nil.
    - cbn [skip_N]. destruct (N.eqb_spec n 0) as [->|Hn].
      + reflexivity.
      + replace (N.to_nat n) with (S (N.to_nat (n - 1))) by lia.
        cbn [skipn]. apply IH.
  Qed.

  Lemma take_N_firstn (n : N) (l : list A) : take_N n l = firstn (N.to_nat n) l.
  Proof.
    revert n; induction l as [|x l IH]; intros n.
    - cbn [take_N]. now rewrite firstn_nil.
    - cbn [take_N]. destruct (N.eqb_spec n 0) as [->|Hn].
      + reflexivity.
      + replace (N.to_nat n) with (S (N.to_nat (n - 1))) by lia.
        cbn [firstn]. f_equal. apply IH.
  Qed.

  Lemma len_N_nil : len_N (@nil A) = 0.
  Proof. reflexivity. Qed.

  Lemma len_N_cons (x : A) (l : list A) : len_N (x :: l) = 1 + len_N l.
  Proof. unfold len_N. cbn [length]. lia. Qed.

  Lemma len_N_app (l1 l2 : list A) : len_N (l1 ++ l2) = len_N l1 + len_N l2.
  Proof. unfold len_N. rewrite app_length. lia. Qed.

  Lemma len_N_to_nat (l : list A) : N.to_nat (len_N l) = length l.
  Proof. unfold len_N. lia. Qed.

  Lemma len_N_zero (l : list A) : len_N l = 0 <-> l = [].
  Proof.
    unfold len_N. destruct l as [|x l]; cbn [length]; split; intros H;
      try reflexivity; try discriminate; lia.
  Qed.

  Lemma len_N_firstn (n : nat) (l : list A) :
    len_N (firstn n l) = N.min (N.of_nat n) (len_N l).
  Proof. unfold len_N. rewrite firstn_length. lia. Qed.

  Lemma len_N_skipn (n : nat) (l : list A) :
    len_N (skipn n l) = len_N l - N.of_nat n.
  Proof. unfold len_N. rewrite skipn_length. lia. Qed.

  Lemma len_N_take_N (n : N) (l : list A) : len_N (take_N n l) = N.min n (len_N l).
  Proof. rewrite take_N_firstn, len_N_firstn. lia. Qed.

  Lemma len_N_skip_N (n : N) (l : list A) : len_N (skip_N n l) = len_N l - n.
  Proof. rewrite skip_N_skipn, len_N_skipn. lia. Qed.

  (* list helpers missing from the 8.16 standard library *)
  Lemma skipn_add (a b : nat) (l : list A) : skipn (a + b) l = skipn b (skipn a l).
  Proof.
    revert l; induction a as [|a IH]; intros l.
    - reflexivity.
    - destruct l as [|x l].
      + cbn [Nat.add skipn]. now rewrite skipn_nil.
      + cbn [Nat.add skipn]. apply IH.
  Qed.

  Lemma firstn_skipn_len (n : nat) (l : list A) :
    firstn n l ++ skipn (length (firstn n l)) l = l.
  Proof.
    destruct (le_lt_dec n (length l)) as [H|H].
    - rewrite firstn_length, Nat.min_l by exact H. apply firstn_skipn.
    - rewrite firstn_all2 by lia. rewrite skipn_all. apply app_nil_r.
  Qed.

  Lemma nonempty_match {B} (l : list A) (x : B) :
    l <> [] -> match l with [] => None | _ :: _ => Some x end = Some x.
  Proof. destruct l; [congruence|reflexivity]. Qed.
End Bridge.

(* ---------- 2. the effective page size ---------- *)

Definition eff_size (size : N) : N := pg_take (paging_new size None).

(* The starting index denoted by an optional offset. *)
Definition offN (off : option N) : N := match off with Some o => o | None => 0 end.

Lemma eff_size_unfold size :
  eff_size size = if N.eqb size 0 then 20 else if N.ltb 1000 size then 1000 else size.
Proof.
  unfold eff_size, pg_take, paging_new. cbn [pg_size].
  destruct (N.eqb_spec size 0); [lia|]. destruct (N.ltb_spec 1000 size); lia.
Qed.

Lemma eff_size_spec :
  eff_size 0 = 20 /\
  (forall n, 1 <= n <= 1000 -> eff_size n = n) /\
  (forall n, 1000 < n -> eff_size n = 1000).
Proof.
  split; [reflexivity|]. split; intros n Hn; rewrite eff_size_unfold;
    destruct (N.eqb_spec n 0); destruct (N.ltb_spec 1000 n); lia.
Qed.

Lemma eff_size_pos n : 1 <= eff_size n <= 1000.
Proof.
  rewrite eff_size_unfold. destruct (N.eqb_spec n 0); destruct (N.ltb_spec 1000 n); lia.
Qed.

Lemma pg_take_new size off : pg_take (paging_new size off) = eff_size size.
Proof. reflexivity. Qed.

Lemma pg_skip_new size off : pg_skip (paging_new size off) = offN off.
Proof. reflexivity. Qed.

(* ---------- 3-5. one page ---------- *)

Section Page.
  Context {A : Type}.

  Lemma page_of_unfold size off (all : list A) :
    page_of (paging_new size off) all =
    (firstn (N.to_nat (eff_size size)) (skipn (N.to_nat (offN off)) all),
     match firstn (N.to_nat (eff_size size)) (skipn (N.to_nat (offN off)) all) with
     | [] => None
     | _ :: _ => Some (offN off + len_N (firstn (N.to_nat (eff_size size))
                                          (skipn (N.to_nat (offN off)) all)))
     end).
  Proof.
    unfold page_of. rewrite pg_take_new, pg_skip_new.
    rewrite skip_N_skipn, take_N_firstn. reflexivity.
  Qed.

  (* The two shapes of a page: past the end (empty, no next offset) or a
     non-empty segment with the next offset just after it. *)
  Lemma page_cases size off (all : list A) :
    (length all <= N.to_nat (offN off))%nat /\
      page_of (paging_new size off) all = ([], None)
    \/
    (N.to_nat (offN off) < length all)%nat /\
      exists items,
        items <> [] /\
        items = firstn (N.to_nat (eff_size size)) (skipn (N.to_nat (offN off)) all) /\
        page_of (paging_new size off) all = (items, Some (offN off + len_N items)) /\
        (1 <= length items <= N.to_nat (eff_size size))%nat /\
        (N.to_nat (offN off) + length items <= length all)%nat /\
        items ++ skipn (N.to_nat (offN off) + length items) all
          = skipn (N.to_nat (offN off)) all.
  Proof.
    rewrite page_of_unfold.
    pose proof (eff_size_pos size) as He.
    set (e := N.to_nat (eff_size size)). set (k := N.to_nat (offN off)).
    assert (He' : (1 <= e)%nat) by (unfold e; lia).
    destruct (le_lt_dec (length all) k) as [H|H].
    - left. split; [exact H|]. rewrite (skipn_all2 all H), firstn_nil. reflexivity.
    - right. split; [exact H|]. exists (firstn e (skipn k all)).
      assert (Hl : length (firstn e (skipn k all)) = Nat.min e (length all - k))
        by (rewrite firstn_length, skipn_length; reflexivity).
      assert (Hne : firstn e (skipn k all) <> []).
      { intros E. rewrite E in Hl. cbn [length] in Hl. lia. }
      split; [exact Hne|]. split; [reflexivity|]. split.
      { rewrite (nonempty_match _ _ Hne). reflexivity. }
      split; [lia|]. split; [lia|].
      rewrite skipn_add. apply firstn_skipn_len.
  Qed.

  Theorem page_size_bound size off (all : list A) :
    len_N (fst (page_of (paging_new size off) all)) <= eff_size size.
  Proof.
    rewrite page_of_unfold. cbn [fst]. rewrite len_N_firstn. lia.
  Qed.

  Theorem page_is_segment size off (all : list A) :
    fst (page_of (paging_new size off) all) =
    firstn (N.to_nat (eff_size size))
           (skipn (N.to_nat (match off with Some o => o | None => 0 end)) all).
  Proof. rewrite page_of_unfold. reflexivity. Qed.

  Theorem page_next_spec size off (all : list A) :
    let p := paging_new size off in
    let items := fst (page_of p all) in
    let next := snd (page_of p all) in
    (next = None <-> items = []) /\
    (items <> [] -> next = Some (pg_skip p + len_N items)) /\
    (items = [] <-> len_N all <= pg_skip p).
  Proof.
    cbv zeta. rewrite pg_skip_new.
    destruct (page_cases size off all) as [[Hle E]|[Hlt (items & Hne & _ & E & _)]];
      rewrite E; cbn [fst snd].
    - split; [tauto|]. split; [congruence|]. split; [|reflexivity].
      intros _. unfold len_N. lia.
    - split; [split; [discriminate|contradiction]|]. split; [reflexivity|].
      split; [contradiction|]. intros H. unfold len_N in H. lia.
  Qed.
End Page.

(* ---------- 6. the walk ---------- *)

Fixpoint walk {A} (fuel : nat) (size : N) (off : option N) (all : list A) : list (list A) :=
  match fuel with
  | O => []
  | S f =>
      let (items, next) := page_of (paging_new size off) all in
      match next with
      | None => [items]
      | Some o => items :: walk f size (Some o) all
      end
  end.

Section Walk.
  Context {A : Type}.

  Lemma walk_S f size off (all : list A) :
    walk (S f) size off all =
    match snd (page_of (paging_new size off) all) with
    | None => [fst (page_of (paging_new size off) all)]
    | Some o => fst (page_of (paging_new size off) all) :: walk f size (Some o) all
    end.
  Proof. cbn [walk]. destruct (page_of (paging_new size off) all). reflexivity. Qed.

  Lemma walk_None fuel size (all : list A) :
    walk fuel size None all = walk fuel size (Some 0) all.
  Proof.
    destruct fuel as [|f]; [reflexivity|]. rewrite !walk_S.
    change (page_of (paging_new size None) all)
      with (page_of (paging_new size (Some 0)) all).
    reflexivity.
  Qed.

  (* From any offset o, with fuel exceeding the number of remaining elements,
     the pages concatenate to the remainder of the listing. *)
  Lemma walk_concat_from fuel size o (all : list A) :
    (length all - N.to_nat o < fuel)%nat ->
    concat (walk fuel size (Some o) all) = skipn (N.to_nat o) all.
  Proof.
    revert o; induction fuel as [|f IH]; intros o Hf; [lia|].
    rewrite walk_S.
    destruct (page_cases size (Some o) all)
      as [[Hle E]|[Hlt (items & Hne & _ & E & Hlen & Hk & Happ)]];
      rewrite E; cbn [fst snd offN] in *.
    - cbn [concat app]. symmetry. apply skipn_all2. exact Hle.
    - cbn [concat]. rewrite IH.
      + replace (N.to_nat (o + len_N items)) with (N.to_nat o + length items)%nat
          by (unfold len_N; lia).
        exact Happ.
      + unfold len_N. lia.
  Qed.

  Theorem page_walk_complete size (all : list A) :
    concat (walk (S (length all)) size None all) = all.
  Proof.
    rewrite walk_None, walk_concat_from.
    - reflexivity.
    - change (N.to_nat 0) with O. lia.
  Qed.

  Lemma walk_fuel_irrelevant_from f1 f2 size o (all : list A) :
    (length all - N.to_nat o < f1)%nat ->
    (length all - N.to_nat o < f2)%nat ->
    walk f1 size (Some o) all = walk f2 size (Some o) all.
  Proof.
    revert f2 o; induction f1 as [|f1 IH]; intros f2 o H1 H2; [lia|].
    destruct f2 as [|f2]; [lia|].
    rewrite !walk_S.
    destruct (page_cases size (Some o) all)
      as [[Hle E]|[Hlt (items & Hne & _ & E & Hlen & Hk & _)]];
      rewrite E; cbn [fst snd offN] in *.
    - reflexivity.
    - f_equal. apply IH; unfold len_N; lia.
  Qed.

  Theorem walk_fuel_irrelevant size (all : list A) :
    forall fuel, (length all < fuel)%nat ->
      walk fuel size None all = walk (S (length all)) size None all.
  Proof.
    intros fuel H. rewrite !walk_None.
    apply walk_fuel_irrelevant_from; change (N.to_nat 0) with O; lia.
  Qed.

  (* With enough fuel the walk stops because a page reported no next offset
     (never because the fuel ran out): its last page is the one whose next
     offset is None. *)
  Lemma walk_ends_with_none_from fuel size o (all : list A) :
    (length all - N.to_nat o < fuel)%nat ->
    exists pages o',
      walk fuel size (Some o) all
        = pages ++ [fst (page_of (paging_new size (Some o')) all)] /\
      snd (page_of (paging_new size (Some o')) all) = None /\
      o' = o + len_N (concat pages).
  Proof.
    revert o; induction fuel as [|f IH]; intros o Hf; [lia|].
    rewrite walk_S.
    destruct (page_cases size (Some o) all)
      as [[Hle E]|[Hlt (items & Hne & _ & E & Hlen & Hk & _)]];
      cbn [offN] in *.
    - exists [], o. rewrite E. cbn [fst snd app concat]. split; [reflexivity|].
      split; [reflexivity|]. rewrite len_N_nil. lia.
    - rewrite E. cbn [fst snd].
      destruct (IH (o + len_N items)) as (pages & o' & Hw & Hn & Ho).
      { unfold len_N. lia. }
      exists (items :: pages), o'. rewrite Hw. split; [reflexivity|].
      split; [exact Hn|]. cbn [concat]. rewrite len_N_app. lia.
  Qed.

  Theorem walk_ends_with_none size (all : list A) fuel :
    (length all < fuel)%nat ->
    exists pages o',
      walk fuel size None all
        = pages ++ [fst (page_of (paging_new size (Some o')) all)] /\
      snd (page_of (paging_new size (Some o')) all) = None /\
      o' = len_N (concat pages).
  Proof.
    intros H. rewrite walk_None.
    destruct (walk_ends_with_none_from fuel size 0 all) as (pages & o' & Hw & Hn & Ho).
    { change (N.to_nat 0) with O. lia. }
    exists pages, o'. split; [exact Hw|]. split; [exact Hn|]. lia.
  Qed.

  Theorem walk_pages_bounded fuel size off (all : list A) :
    Forall (fun page => len_N page <= eff_size size) (walk fuel size off all).
  Proof.
    revert off; induction fuel as [|f IH]; intros off; [constructor|].
    rewrite walk_S. pose proof (page_size_bound size off all) as Hb.
    destruct (snd (page_of (paging_new size off) all)) as [o|].
    - constructor; [exact Hb|apply IH].
    - constructor; [exact Hb|constructor].
  Qed.

  Theorem walk_pages_nonempty_except_last fuel size off (all : list A) pages last :
    walk fuel size off all = pages ++ [last] ->
    Forall (fun page => page <> []) pages.
  Proof.
    revert off pages; induction fuel as [|f IH]; intros off pages Hw.
    - cbn [walk] in Hw. destruct pages; discriminate.
    - rewrite walk_S in Hw.
      destruct (page_cases size off all)
        as [[Hle E]|[Hlt (items & Hne & _ & E & _)]];
        rewrite E in Hw; cbn [fst snd] in Hw.
      + destruct pages as [|p pages]; [constructor|].
        cbn [app] in Hw. injection Hw as _ Hw. destruct pages; discriminate.
      + destruct pages as [|p pages]; [constructor|].
        cbn [app] in Hw. injection Hw as Hp Hw. subst p.
        constructor; [exact Hne|]. eapply IH. exact Hw.
  Qed.

  (* Same fact, index form: every page that is not the last one is non-empty. *)
  Corollary walk_pages_nonempty_nth fuel size off (all : list A) i :
    (S i < length (walk fuel size off all))%nat ->
    nth i (walk fuel size off all) [] <> [].
  Proof.
    intros Hi.
    destruct (exists_last (l := walk fuel size off all)) as (pages & last & E).
    { intros E. rewrite E in Hi. cbn [length] in Hi. lia. }
    pose proof (walk_pages_nonempty_except_last _ _ _ _ _ _ E) as HF.
    rewrite E in *. rewrite app_length in Hi. cbn [length] in Hi.
    rewrite app_nth1 by lia.
    rewrite Forall_forall in HF. apply HF. apply nth_In. lia.
  Qed.
End Walk.

(* ---------- 7. tokens ---------- *)

Theorem next_token_roundtrip :
  (forall o, o < 2 ^ 64 -> parse_page_token (next_token (Some o)) = Some (Some o)) /\
  parse_page_token (next_token None) = Some None.
Proof.
  split; [|reflexivity]. intros o Ho. cbn [next_token]. unfold parse_page_token.
  destruct (token_encode o) as [|c s] eqn:E.
  - exfalso. exact (token_encode_nonempty o E).
  - rewrite <- E, (token_roundtrip o Ho). reflexivity.
Qed.

Theorem parse_paging_negative size tok : (size < 0)%Z -> parse_paging size tok = None.
Proof.
  intros H. unfold parse_paging. destruct (parse_page_token tok); [|reflexivity].
  destruct (Z.ltb_spec size 0); [reflexivity|lia].
Qed.

Theorem parse_paging_bad_token size tok :
  parse_page_token tok = None -> parse_paging size tok = None.
Proof. intros H. unfold parse_paging. rewrite H. reflexivity. Qed.

Theorem parse_paging_ok size tok off :
  (0 <= size)%Z -> parse_page_token tok = Some off ->
  parse_paging size tok = Some (paging_new (Z.to_N size) off).
Proof.
  intros Hs H. unfold parse_paging. rewrite H.
  destruct (Z.ltb_spec size 0); [lia|reflexivity].
Qed.

(* parse_paging fails exactly on a negative size or an undecodable token. *)
Corollary parse_paging_none_iff size tok :
  parse_paging size tok = None <-> (size < 0)%Z \/ parse_page_token tok = None.
Proof.
  split.
  - intros H. destruct (parse_page_token tok) as [off|] eqn:E; [|right; reflexivity].
    destruct (Z.ltb_spec size 0) as [Hs|Hs]; [left; exact Hs|].
    rewrite (parse_paging_ok size tok off Hs E) in H. discriminate.
  - intros [H|H]; [apply parse_paging_negative|apply parse_paging_bad_token]; exact H.
Qed.

(* Any decodable offset, even one the server never issued (o >= length all),
   yields a valid, possibly empty page; an empty page has no next offset. *)
Theorem any_offset_valid_page A size o (all : list A) :
  let r := page_of (paging_new size (Some o)) all in
  (exists pre post,
      all = pre ++ fst r ++ post /\ len_N pre = N.min o (len_N all)) /\
  len_N (fst r) <= eff_size size /\
  (fst r = [] -> snd r = None) /\
  (len_N all <= o -> r = ([], None)).
Proof.
  cbv zeta. split; [|split; [|split]].
  - exists (firstn (N.to_nat o) all),
      (skipn (N.to_nat (eff_size size)) (skipn (N.to_nat o) all)).
    split.
    + rewrite page_is_segment, firstn_skipn, firstn_skipn. reflexivity.
    + rewrite len_N_firstn. lia.
  - apply page_size_bound.
  - intros H. apply (page_next_spec size (Some o) all). exact H.
  - intros H.
    destruct (page_cases size (Some o) all) as [[_ E]|[Hlt _]]; [exact E|].
    cbn [offN] in Hlt. unfold len_N in H. lia.
Qed.

(* ---------- 8. a concrete walk ---------- *)

(* Note: a non-empty final page still carries a next offset (Some 45 here); the
   walk therefore ends with one empty page, whose next offset is None. *)
Example walk_45_by_20 :
  let all := map N.of_nat (seq 0 45) in
  map (@length N) (walk 46 20 None all) = [20; 20; 5; 0]%nat /\
  walk 46 20 None all = [firstn 20 all; firstn 20 (skipn 20 all); skipn 40 all; []] /\
  concat (walk 46 20 None all) = all /\
  snd (page_of (paging_new 20 None) all) = Some 20 /\
  snd (page_of (paging_new 20 (Some 20)) all) = Some 40 /\
  snd (page_of (paging_new 20 (Some 40)) all) = Some 45 /\
  page_of (paging_new 20 (Some 45)) all = ([], None) /\
  page_of (paging_new 20 (Some 1000)) all = ([], None) /\
  parse_paging 20 (next_token (Some 40)) = Some (paging_new 20 (Some 40)).
Proof. vm_compute. repeat split. Qed.

(* With size 0 the default of 20 applies; with an exact multiple the walk is
   pages of full size followed by the empty page. *)
Example walk_40_default :
  let all := map N.of_nat (seq 0 40) in
  map (@length N) (walk 41 0 None all) = [20; 20; 0]%nat /\
  concat (walk 41 0 None all) = all.
Proof. vm_compute. repeat split. Qed.

Print Assumptions page_walk_complete.
Print Assumptions walk_fuel_irrelevant.
Print Assumptions any_offset_valid_page.
Print Assumptions next_token_roundtrip.
