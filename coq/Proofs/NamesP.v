(* C18: resource names are parsed canonically. *)
From Coq Require Import String.
From Deltio Require Import Model.Base Model.Names Proofs.BaseP.
Local Notation "'B' s" := (bytes_of_string s%string) (at level 0, s at level 0).

(* What it means for a (project, id) pair to be an accepted name. *)
Definition wf_name (n : name) : Prop :=
  ~ In slash (fst n) /\ fst n <> [] /\ snd n <> [].

Lemma parse_name_shape seg s n :
  parse_name seg s = Some n -> s = show_name seg n /\ wf_name n.
Proof.
  unfold parse_name, show_name, wf_name. intros H.
  destruct (strip_prefix projects_prefix s) as [r|] eqn:E1; [|discriminate].
  destruct (split_once slash r) as [[proj rest]|] eqn:E2; [|discriminate].
  destruct (strip_prefix seg rest) as [id|] eqn:E3; [|discriminate].
  destruct (is_nil proj || is_nil id) eqn:E4; [discriminate|].
  injection H as <-. simpl.
  apply strip_prefix_spec in E1. apply split_once_spec in E2 as [E2 Hn].
  apply strip_prefix_spec in E3. apply orb_false_iff in E4 as [E4 E5].
  apply is_nil_false in E4, E5. subst. auto.
Qed.

Lemma parse_show seg n : wf_name n -> parse_name seg (show_name seg n) = Some n.
Proof.
  destruct n as [p i]. unfold wf_name, parse_name, show_name. cbn [fst snd]. intros (Hs & Hp & Hi).
  rewrite strip_prefix_app. 
  change (p ++ slash :: seg ++ i) with (p ++ slash :: (seg ++ i)).
  rewrite split_once_app by assumption.
  rewrite strip_prefix_app.
  destruct p; [congruence|]. destruct i; [congruence|]. reflexivity.
Qed.

(* The canonical name echoed for an accepted name is accepted and denotes the
   same resource. *)
Lemma parse_name_roundtrip seg s n :
  parse_name seg s = Some n -> parse_name seg (show_name seg n) = Some n.
Proof. intros H. apply parse_name_shape in H as [_ H]. apply parse_show; assumption. Qed.

(* show is injective on accepted names: names that differ in project or id
   are different strings, i.e. different map keys. *)
Lemma show_name_injective seg n1 n2 :
  wf_name n1 -> wf_name n2 -> show_name seg n1 = show_name seg n2 -> n1 = n2.
Proof.
  intros H1 H2 E.
  pose proof (parse_show seg n1 H1) as P1. pose proof (parse_show seg n2 H2) as P2.
  rewrite E in P1. congruence.
Qed.

Lemma parse_name_injective seg s1 s2 n :
  parse_name seg s1 = Some n -> parse_name seg s2 = Some n -> s1 = s2.
Proof.
  intros H1 H2. apply parse_name_shape in H1 as [-> _]. apply parse_name_shape in H2 as [-> _].
  reflexivity.
Qed.

(* No string is both a topic name and a subscription name. *)
Lemma kinds_disjoint s n : parse_topic_name s = Some n -> parse_sub_name s = None.
Proof.
  unfold parse_topic_name, parse_sub_name, parse_name. intros H.
  destruct (strip_prefix projects_prefix s) as [r|] eqn:E1; [|reflexivity].
  destruct (split_once slash r) as [[proj rest]|] eqn:E2; [|reflexivity].
  destruct (strip_prefix topics_seg rest) as [id|] eqn:E3; [|discriminate].
  apply strip_prefix_spec in E3. subst rest. reflexivity.
Qed.

Lemma name_eqb_eq a b : name_eqb a b = true <-> a = b.
Proof.
  destruct a as [a1 a2], b as [b1 b2]. unfold name_eqb. simpl.
  rewrite andb_true_iff, !str_eqb_eq. split; [intros [-> ->]; reflexivity|intros H; injection H; auto].
Qed.

Lemma name_eqb_refl a : name_eqb a a = true.
Proof. apply name_eqb_eq; reflexivity. Qed.

(* Different accepted strings are different keys, equal strings equal keys. *)
Lemma parse_name_keys seg s1 s2 n1 n2 :
  parse_name seg s1 = Some n1 -> parse_name seg s2 = Some n2 ->
  (name_eqb n1 n2 = true <-> s1 = s2).
Proof.
  intros H1 H2. rewrite name_eqb_eq. split.
  - intros <-. eapply parse_name_injective; eauto.
  - intros <-. congruence.
Qed.

(* Non-vacuity: a concrete accepted name. *)
Example parse_topic_example :
  parse_topic_name (B "projects/lets-go/topics/deltio")
  = Some (B "lets-go", B "deltio").
Proof. vm_compute. reflexivity. Qed.

(* The defect of the pinned tree (before the fix: commit), on the model of the
   pinned parser: a subscription-shaped string is accepted as a topic name,
   and an accepted name's canonical form is rejected. *)
Lemma pinned_accepts_wrong_segment :
  pinned_parse_name 7 (B "projects/p/subscriptions/x")
  = Some (B "p", B "ptions/x").
Proof. vm_compute. reflexivity. Qed.

Lemma pinned_echo_rejected :
  exists s n, pinned_parse_name 7 s = Some n /\ pinned_parse_name 7 (show_topic_name n) = None.
Proof.
  exists (B "projects/p/topics/a/"), (B "p", B "a").
  vm_compute. split; reflexivity.
Qed.
