(* C09/C13/C15: base64, page tokens, decimal text, narrowings, message ids. *)
From Deltio Require Import Model.Base Model.Codec Proofs.BaseP.
Require Import ZifyBool ZifyN ZifyNat.
Ltac Zify.zify_post_hook ::= Z.div_mod_to_equations.

(* ---------- finite sweep over the 64 sextets ---------- *)
Definition sextets : list N := map N.of_nat (seq 0 64).

Lemma sextets_all v : v < 64 -> In v sextets.
Proof.
  intros H. unfold sextets. apply in_map_iff. exists (N.to_nat v). split; [lia|].
  apply in_seq. lia.
Qed.

Lemma b64_char_sweep :
  forallb (fun v => match b64_val (b64_char v) with
                    | Some w => N.eqb w v | None => false end
                    && negb (N.eqb (b64_char v) pad)) sextets = true.
Proof. vm_compute. reflexivity. Qed.

Lemma b64_val_char v : v < 64 -> b64_val (b64_char v) = Some v.
Proof.
  intros H. pose proof (proj1 (forallb_forall _ _) b64_char_sweep v (sextets_all v H)) as P.
  apply andb_true_iff in P as [P _]. destruct (b64_val (b64_char v)); [|discriminate].
  apply N.eqb_eq in P. congruence.
Qed.

Lemma b64_char_not_pad v : v < 64 -> N.eqb (b64_char v) pad = false.
Proof.
  intros H. pose proof (proj1 (forallb_forall _ _) b64_char_sweep v (sextets_all v H)) as P.
  apply andb_true_iff in P as [_ P]. apply negb_true_iff in P. exact P.
Qed.

Definition bytes_ok (s : str) : Prop := Forall (fun b => b < 256) s.

(* induction three bytes at a time *)
Lemma list_ind3 {A} (P : list A -> Prop) :
  P [] -> (forall a, P [a]) -> (forall a b, P [a; b]) ->
  (forall a b c l, P l -> P (a :: b :: c :: l)) -> forall l, P l.
Proof.
  intros H0 H1 H2 H3.
  assert (forall l, P l /\ (forall a, P (a :: l)) /\ (forall a b, P (a :: b :: l))) as H.
  { induction l as [|x l (IH0 & IH1 & IH2)]; repeat split; auto. }
  intros l. apply H.
Qed.

Lemma b64_decode_cons4 c1 c2 c3 c4 x s' :
  b64_decode (c1 :: c2 :: c3 :: c4 :: x :: s') =
  match b64_val c1, b64_val c2, b64_val c3, b64_val c4, b64_decode (x :: s') with
  | Some v1, Some v2, Some v3, Some v4, Some r =>
      Some (v1 * 4 + v2 / 16 :: (v2 mod 16) * 16 + v3 / 4 :: (v3 mod 4) * 64 + v4 :: r)
  | _, _, _, _, _ => None
  end.
Proof. reflexivity. Qed.

Lemma b64_encode_nonempty a s : b64_encode (a :: s) <> [].
Proof. destruct s as [|b [|c s]]; simpl; discriminate. Qed.

(* decode (encode bytes) = bytes, for every byte string. *)
Lemma b64_roundtrip s : bytes_ok s -> b64_decode (b64_encode s) = Some s.
Proof.
  induction s as [| a | a b | a b c l IH] using list_ind3; intros Hs.
  - reflexivity.
  - inversion Hs as [|? ? Ha _]; subst.
    cbn [b64_encode b64_decode].
    rewrite !b64_val_char by lia. rewrite N.eqb_refl.
    replace (N.eqb ((a mod 4 * 16) mod 16) 0) with true by (symmetry; apply N.eqb_eq; lia).
    f_equal. f_equal. lia.
  - inversion Hs as [|? ? Ha Hs']; subst. inversion Hs' as [|? ? Hb _]; subst.
    cbn [b64_encode b64_decode].
    rewrite !b64_val_char by lia. rewrite b64_char_not_pad by lia. rewrite N.eqb_refl.
    replace (N.eqb ((b mod 16 * 4) mod 4) 0) with true by (symmetry; apply N.eqb_eq; lia).
    f_equal. f_equal; [lia|]. f_equal. lia.
  - inversion Hs as [|? ? Ha Hs1]; subst. inversion Hs1 as [|? ? Hb Hs2]; subst.
    inversion Hs2 as [|? ? Hc Hl]; subst. specialize (IH Hl).
    cbn [b64_encode].
    destruct l as [|x l'].
    + cbn [b64_encode b64_decode].
      rewrite !b64_val_char by lia. rewrite !b64_char_not_pad by lia.
      f_equal. f_equal; [lia|]. f_equal; [lia|]. f_equal. lia.
    + destruct (b64_encode (x :: l')) as [|y ys] eqn:E.
      { exfalso. eapply b64_encode_nonempty; eauto. }
      rewrite b64_decode_cons4. rewrite !b64_val_char by lia. rewrite IH.
      f_equal. f_equal; [lia|]. f_equal; [lia|]. f_equal. lia.
Qed.

(* ---------- page tokens ---------- *)
Lemma le_bytes_length k n : length (le_bytes k n) = k.
Proof. revert n; induction k; intros; simpl; auto. Qed.

Lemma le_bytes_ok k n : bytes_ok (le_bytes k n).
Proof.
  revert n; induction k as [|k IH]; intros n; simpl; constructor.
  - apply N.mod_lt. discriminate.
  - apply IH.
Qed.

Lemma le_value_bytes k n : le_value (le_bytes k n) = n mod 256 ^ N.of_nat k.
Proof.
  revert n; induction k as [|k IH]; intros n.
  - simpl. rewrite N.mod_1_r. reflexivity.
  - cbn [le_bytes le_value]. rewrite IH.
    replace (256 ^ N.of_nat (S k)) with (256 * 256 ^ N.of_nat k)
      by (rewrite Nat2N.inj_succ, N.pow_succ_r'; reflexivity).
    rewrite N.mod_mul_r by (try apply N.pow_nonzero; discriminate). lia.
Qed.

(* Every offset below 2^64 survives encode/decode. *)
Lemma token_roundtrip n : n < 2 ^ 64 -> token_decode (token_encode n) = Some n.
Proof.
  intros H. unfold token_decode, token_encode.
  rewrite b64_roundtrip by apply le_bytes_ok.
  rewrite le_bytes_length. simpl Nat.eqb. cbv iota.
  rewrite le_value_bytes. f_equal. change (256 ^ N.of_nat 8) with (2 ^ 64). apply N.mod_small; assumption.
Qed.

Lemma token_encode_nonempty n : token_encode n <> [].
Proof. unfold token_encode. simpl. discriminate. Qed.

(* Any decodable token decodes to a 64-bit offset. *)
Lemma le_value_bound s : bytes_ok s -> le_value s < 256 ^ N.of_nat (length s).
Proof.
  induction 1 as [|b s Hb Hs IH]; [simpl; lia|].
  cbn [le_value length]. rewrite Nat2N.inj_succ, N.pow_succ_r'. nia.
Qed.

(* ---------- narrowings and the pull batch size ---------- *)
Lemma pull_count_le_backlog m len : pull_count m len <= len.
Proof. unfold pull_count. lia. Qed.

(* With a non-empty backlog at least one message is handed out. *)
Lemma pull_count_pos m len : 0 < len -> 0 < pull_count m len.
Proof. unfold pull_count. lia. Qed.

(* C15 (unary): for every i32 max_messages >= 1 the batch never exceeds it,
   including the values whose low 16 bits are zero. *)
Lemma pull_count_unary_bound (max : Z) len :
  (1 <= max)%Z -> (Z.of_N (pull_count (as_u16 max) len) <= max)%Z.
Proof. unfold pull_count, pull_capacity, as_u16, len_as_u16. intros H. lia. Qed.

(* C15 (streaming): accepted values are 0..65535 and a positive one bounds
   every response. *)
Lemma try_u16_spec z : (0 <= z <= 65535)%Z <-> try_u16 z = Some (Z.to_N z).
Proof. unfold try_u16. destruct (Z.leb 0 z && Z.leb z 65535) eqn:E; split; intros; try lia; try discriminate; auto. Qed.
Lemma try_u16_none z : (z < 0 \/ 65535 < z)%Z <-> try_u16 z = None.
Proof. unfold try_u16. destruct (Z.leb 0 z && Z.leb z 65535) eqn:E; split; intros; try lia; try discriminate; auto. Qed.

Lemma pull_count_stream_bound m len : 1 <= m -> pull_count m len <= m.
Proof. unfold pull_count, pull_capacity. lia. Qed.

(* Exactly min(len, m) while m <= 1000 (the common case). *)
Lemma pull_count_small m len : 1 <= m <= 1000 -> pull_count m len = N.min len m.
Proof. unfold pull_count, pull_capacity. lia. Qed.

(* ---------- message ids ---------- *)
Lemma land_shiftl_low t c : c < 2 ^ 32 -> N.land (N.shiftl t 32) c = 0.
Proof.
  intros H. apply N.bits_inj. intros i. rewrite N.land_spec, N.bits_0.
  destruct (N.ltb i 32) eqn:E.
  - apply N.ltb_lt in E. rewrite N.shiftl_spec_low by assumption. reflexivity.
  - apply N.ltb_ge in E. destruct (N.eq_dec c 0) as [->|Hc].
    + rewrite N.bits_0. apply andb_false_r.
    + rewrite (N.bits_above_log2 c i); [apply andb_false_r|].
      apply N.lt_le_trans with 32; [|assumption]. apply N.log2_lt_pow2; lia.
Qed.

Lemma message_id_arith t c : c < 2 ^ 32 -> message_id t c = t * 2 ^ 32 + c.
Proof.
  intros H. unfold message_id.
  rewrite <- N.lxor_lor by (apply land_shiftl_low; assumption).
  rewrite <- N.add_nocarry_lxor by (apply land_shiftl_low; assumption).
  rewrite N.shiftl_mul_pow2. reflexivity.
Qed.

(* C09: distinct (topic instance, counter) pairs give distinct message ids. *)
Lemma message_id_injective t1 c1 t2 c2 :
  c1 < 2 ^ 32 -> c2 < 2 ^ 32 -> message_id t1 c1 = message_id t2 c2 -> t1 = t2 /\ c1 = c2.
Proof. intros H1 H2. rewrite !message_id_arith by assumption. lia. Qed.

Lemma message_id_mono t c1 c2 : c1 < c2 -> c2 < 2 ^ 32 -> message_id t c1 < message_id t c2.
Proof. intros H1 H2. rewrite !message_id_arith by lia. lia. Qed.
