(* C04/C05 arithmetic: deadline rounding, effective ack deadline, extension parsing. *)
From Deltio Require Import Model.Base Model.Time.
Require Import ZifyBool ZifyN.
Ltac Zify.zify_post_hook ::= Z.div_mod_to_equations.

(* The rounded deadline is never before the requested instant ... *)
Lemma round_lower t : t <= round_deadline t.
Proof. unfold round_deadline, us_ceil. lia. Qed.

(* ... and less than 100 ms after it. *)
Lemma round_upper t : round_deadline t < t + 100000000.
Proof. unfold round_deadline, us_ceil. lia. Qed.

Lemma round_mono_weak t d : t <= round_deadline (t + d).
Proof. pose proof (round_lower (t + d)). lia. Qed.

(* A timer armed for d fires at the first 1 ms tick >= d. *)
Lemma tick_lower d : d <= tick_of d.
Proof. unfold tick_of, ns_per_ms. lia. Qed.
Lemma tick_upper d : tick_of d < d + 1000000.
Proof. unfold tick_of, ns_per_ms. lia. Qed.
Lemma tick_on_grid t d : t mod 1000000 = 0 -> (d <= t <-> tick_of d <= t).
Proof. unfold tick_of, ns_per_ms. lia. Qed.

(* ack_deadline_seconds: at least 10 s, otherwise the requested value (all i32). *)
Lemma effective_ackdl_spec (secs : Z) :
  ((secs <= 10)%Z -> effective_ackdl secs = 10) /\
  ((10 < secs)%Z -> effective_ackdl secs = Z.to_N secs).
Proof. unfold effective_ackdl. destruct (Z.leb secs 10) eqn:E; lia. Qed.

Lemma effective_ackdl_min (secs : Z) : 10 <= effective_ackdl secs.
Proof. unfold effective_ackdl. destruct (Z.leb secs 10) eqn:E; lia. Qed.

(* ModifyAckDeadline seconds, all of Z (so all of i32): <0 error, 0 nack,
   1..599 as given, >=600 capped. *)
Lemma parse_ext_spec (secs : Z) :
  ((secs < 0)%Z -> parse_ext secs = ExtErr) /\
  (secs = 0%Z -> parse_ext secs = ExtNack) /\
  ((0 < secs < 600)%Z -> parse_ext secs = ExtSecs (Z.to_N secs)) /\
  ((600 <= secs)%Z -> parse_ext secs = ExtSecs 600).
Proof.
  unfold parse_ext.
  destruct (Z.ltb secs 0) eqn:E1; destruct (Z.leb 600 secs) eqn:E2; destruct (Z.eqb secs 0) eqn:E3;
    repeat split; intros; try lia; reflexivity.
Qed.

Lemma parse_ext_secs_bound (secs : Z) n : parse_ext secs = ExtSecs n -> 1 <= n <= 600.
Proof.
  unfold parse_ext.
  destruct (Z.ltb secs 0) eqn:E1; [discriminate|].
  destruct (Z.leb 600 secs) eqn:E2; [intros H; injection H as <-; lia|].
  destruct (Z.eqb secs 0) eqn:E3; [discriminate|]. intros H; injection H as <-. lia.
Qed.

(* A new or modified deadline is strictly in the future. *)
Lemma new_deadline_future now secs : 1 <= secs -> now < round_deadline (now + secs * ns_per_s).
Proof. intros H. pose proof (round_lower (now + secs * ns_per_s)). unfold ns_per_s in *. lia. Qed.

(* The pinned tree truncated to microseconds: a deadline up to 999 ns early. *)
Lemma pinned_round_early : exists t, pinned_round_deadline t < t.
Proof. exists 100000500. vm_compute. reflexivity. Qed.

Example round_examples :
  round_deadline 50000000 = 100000000 /\ round_deadline 150000000 = 200000000 /\
  round_deadline 100000500 = 100002000.
Proof. vm_compute. auto. Qed.
