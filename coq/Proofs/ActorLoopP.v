(* Proofs about Model/ActorLoop.v. *)
From Coq Require Import List Arith Bool Lia.
Import ListNotations.
From Deltio Require Import Model.ActorLoop.

(* the code's select!: whenever a lease has run out the actor has a step that returns it - whatever else is going on *)
Lemma always_expiry_enabled : forall s, expired s > 0 ->
  exists s', step Always s EExpire = Some s' /\ expired s' = 0 /\ backlog s' = backlog s + expired s /\
             running s' = running s /\ mailbox s' = mailbox s.
Proof.
  intros s H. cbn [step expiry_enabled]. destruct (Nat.eqb_spec (expired s) 0) as [E|E]; [lia|]. cbn.
  eexists. split; [reflexivity|]. cbn. repeat split.
Qed.

(* hence an idle actor holds no lease that has run out *)
Lemma always_idle_nothing_expired : forall s, idle Always s -> expired s = 0.
Proof.
  intros s H. destruct (expired s) eqn:E; [reflexivity|]. exfalso.
  destruct (always_expiry_enabled s ltac:(lia)) as [s' [Hs _]]. rewrite (H EExpire eq_refl) in Hs. discriminate.
Qed.

(* the expiry step loses nothing and invents nothing: leases + queued messages are conserved by every step of the actor *)
Lemma actor_steps_conserve : forall g s e s', actor_step e = true -> step g s e = Some s' ->
  running s' + expired s' + backlog s' = running s + expired s + backlog s.
Proof.
  intros g s e s' Ha Hs. destruct e; try discriminate Ha; cbn [step] in Hs.
  - destruct (mailbox s); [discriminate|]. injection Hs as Hs. subst s'. reflexivity.
  - destruct (mailbox s); [discriminate|]. destruct (backlog s) eqn:Hb; [discriminate|]. injection Hs as Hs. subst s'. cbn. lia.
  - destruct (expiry_enabled g s && negb (Nat.eqb (expired s) 0)); [|discriminate]. injection Hs as Hs. subst s'. cbn. lia.
Qed.

(* with the precondition on the expiry branch: an idle actor that holds a lease which has run out, for as long as
   nobody pulls *)
Lemma ifempty_refuted : idle IfEmpty stuck_example /\ expired stuck_example = 1 /\ backlog stuck_example = 1.
Proof.
  split; [|split; reflexivity]. intros e He. destruct e; try discriminate He; reflexivity.
Qed.

(* and reachable from the empty subscription by ordinary use: publish, pull, publish, the deadline passes *)
Fixpoint run (g : guard) (s : state) (es : list ev) : state :=
  match es with
  | [] => s
  | e :: r => run g (match step g s e with Some s' => s' | None => s end) r
  end.

Lemma ifempty_stuck_reachable :
  run IfEmpty (mk 0 0 0 0) [EPublish; ERequest; EPull; EPublish; ETime; EExpire] = stuck_example.
Proof. reflexivity. Qed.

Lemma always_same_schedule :
  run Always (mk 0 0 0 0) [EPublish; ERequest; EPull; EPublish; ETime; EExpire] = mk 0 0 0 2.
Proof. reflexivity. Qed.
