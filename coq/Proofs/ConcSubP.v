(* Proofs about the concurrent subscription model (Model/ConcSub.v):
   Notify well-formedness, no lost wake-up (C06) and its refutation for the
   unrestricted system, release on deletion (C12), the empty rule (C15) and
   termination of internal activity. *)
From Coq Require Import List NArith Arith Bool Lia.
Import ListNotations.
From Deltio Require Import Model.ConcSub.

(* ------------------------------------------------------------------ *)
(* Lists and basic state lemmas                                        *)

Lemma get_set_permit b s c : get (set_permit b s) c = get s c. Proof. reflexivity. Qed.
Lemma get_set_waiters b s c : get (set_waiters b s) c = get s c. Proof. reflexivity. Qed.
Lemma get_set_calls b s c : get (set_calls b s) c = get s c. Proof. reflexivity. Qed.
Lemma get_set_backlog b s c : get (set_backlog b s) c = get s c. Proof. reflexivity. Qed.
Lemma get_set_leased b s c : get (set_leased b s) c = get s c. Proof. reflexivity. Qed.
Lemma get_set_deleted b s c : get (set_deleted b s) c = get s c. Proof. reflexivity. Qed.
Lemma get_set_exited b s c : get (set_exited b s) c = get s c. Proof. reflexivity. Qed.
Lemma get_set_mailbox b s c : get (set_mailbox b s) c = get s c. Proof. reflexivity. Qed.
#[global] Hint Rewrite get_set_permit get_set_waiters get_set_calls get_set_backlog get_set_leased
  get_set_deleted get_set_exited get_set_mailbox : gets.

Ltac ss := cbn [permit waiters calls backlog leased deleted exited mailbox conss
                set_permit set_waiters set_calls set_backlog set_leased set_deleted
                set_exited set_mailbox set_conss setc] in *;
           autorewrite with gets in *.

Lemma nth_upd_same l : forall c f, nth_error (upd l c f) c = option_map f (nth_error l c).
Proof. induction l as [|x t IH]; intros [|c] f; cbn; auto. Qed.

Lemma nth_upd_other l : forall c c' f, c <> c' -> nth_error (upd l c f) c' = nth_error l c'.
Proof.
  induction l as [|x t IH]; intros [|c] [|c'] f H; cbn; auto; try congruence.
Qed.

Lemma upd_length l : forall c f, length (upd l c f) = length l.
Proof. induction l as [|x t IH]; intros [|c] f; cbn; auto. Qed.

Lemma nth_upd l c f c' :
  nth_error (upd l c f) c' = if Nat.eq_dec c c' then option_map f (nth_error l c') else nth_error l c'.
Proof.
  destruct (Nat.eq_dec c c') as [->|H]; [apply nth_upd_same|apply nth_upd_other; assumption].
Qed.

(* what is known about consumer c' after an update at c *)
Lemma get_setc_inv s c f c' cs' :
  get (setc c f s) c' = Some cs' ->
  (c' = c /\ exists cs, get s c = Some cs /\ cs' = f cs) \/ (c' <> c /\ get s c' = Some cs').
Proof.
  unfold get, setc; cbn. rewrite nth_upd. destruct (Nat.eq_dec c c') as [->|H]; intros E.
  - left. split; auto. destruct (nth_error (conss s) c') as [cs|]; cbn in E; [|discriminate].
    exists cs. split; congruence.
  - right. split; auto.
Qed.

Lemma get_setc_same s c f cs : get s c = Some cs -> get (setc c f s) c = Some (f cs).
Proof. unfold get, setc; cbn. intros E. rewrite nth_upd_same, E. reflexivity. Qed.

Lemma get_setc_other s c f c' : c' <> c -> get (setc c f s) c' = get s c'.
Proof. unfold get, setc; cbn. intros H. apply nth_upd_other. congruence. Qed.

Lemma in_remove_iff (c x : nat) l : In x (remove Nat.eq_dec c l) <-> In x l /\ x <> c.
Proof.
  split.
  - intros H. apply in_remove in H. exact H.
  - intros [H1 H2]. apply in_in_remove; assumption.
Qed.

Lemma nodup_remove (c : nat) l : NoDup l -> NoDup (remove Nat.eq_dec c l).
Proof.
  induction 1 as [|x l Hx Hn IH]; cbn; [constructor|].
  destruct (Nat.eq_dec c x); auto. constructor; auto.
  intros Hin. apply in_remove in Hin. tauto.
Qed.

(* ------------------------------------------------------------------ *)
(* A. Notify well-formedness                                           *)

Definition parkedN (s : state) (c : nat) : Prop :=
  exists cs, get s c = Some cs /\ cphase cs = PParked NNone.

Record nwf (s : state) : Prop := {
  nw_nodup : NoDup (waiters s);
  nw_wait : forall c, In c (waiters s) <-> parkedN s c;
  nw_permit : permit s = true -> waiters s = []
}.

Lemma nwf_ext s s' :
  nwf s -> permit s' = permit s -> waiters s' = waiters s -> conss s' = conss s -> nwf s'.
Proof.
  intros [A B C] E1 E2 E3. split.
  - rewrite E2; assumption.
  - intros c. rewrite E2, B. unfold parkedN, get. rewrite E3. tauto.
  - rewrite E1, E2. assumption.
Qed.

Lemma parkedN_setc_neutral s c f :
  (forall cs, get s c = Some cs -> (cphase (f cs) = PParked NNone <-> cphase cs = PParked NNone)) ->
  forall c', parkedN (setc c f s) c' <-> parkedN s c'.
Proof.
  intros Hf c'. unfold parkedN. split.
  - intros (cs' & G & P). apply get_setc_inv in G. destruct G as [(-> & cs & G & ->)|(N & G)].
    + exists cs. split; auto. apply Hf; auto.
    + exists cs'. auto.
  - intros (cs & G & P). destruct (Nat.eq_dec c' c) as [->|N].
    + exists (f cs). split; [apply get_setc_same; auto|]. apply Hf; auto.
    + exists cs. rewrite get_setc_other; auto.
Qed.

Lemma nwf_setc_neutral s c f :
  nwf s ->
  (forall cs, get s c = Some cs -> (cphase (f cs) = PParked NNone <-> cphase cs = PParked NNone)) ->
  nwf (setc c f s).
Proof.
  intros [A B C] Hf. split; ss; auto.
  intros c'. rewrite B. symmetry. apply (parkedN_setc_neutral s c f Hf c').
Qed.

Lemma wake_phase_N n cs : n <> NNone -> cphase (wake n cs) <> PParked NNone.
Proof.
  intros Hn. unfold wake. destruct (cphase cs) as [| | | |[]| |] eqn:E; cbn; rewrite ?E; congruence.
Qed.

Lemma nwf_notify_one s : nwf s -> nwf (notify_one s).
Proof.
  intros W. destruct W as [A B C]. unfold notify_one. destruct (waiters s) as [|w ws] eqn:Ew.
  - split; ss.
    + rewrite Ew. constructor.
    + intros c. rewrite Ew. exact (B c).
    + intros _. exact Ew.
  - inversion A as [|? ? Hw Hws]; subst. split; unfold parkedN; ss; auto.
    + intros c. split.
      * intros Hc. assert (c <> w) by (intros ->; contradiction).
        destruct (proj1 (B c) (or_intror Hc)) as (cs & G & P). exists cs. ss.
        rewrite get_setc_other; auto.
      * intros (cs' & G & P). ss. apply get_setc_inv in G. destruct G as [(-> & cs & G & ->)|(N & G)].
        -- exfalso. revert P. apply wake_phase_N. discriminate.
        -- assert (In c (w :: ws)) as [->|H] by (apply B; exists cs'; auto); [congruence|assumption].
    + intros Hp. specialize (C Hp). discriminate.
Qed.
