(* Proofs about the concurrent subscription model (Model/ConcSub.v), which
   describes the code before (ho = false) and after (ho = true) the commit
   "fix: pass the wake-up on when a woken consumer goes away before its pull is
   queued".

   - Notify and actor well-formedness (notify_wf, actor_wf): both versions.
   - No lost wake-up (C06):
       ho = true : C06_no_lost_wakeup_exact / C06_no_lost_wakeup /
                   C06_lost_wakeup_unreachable / C06_quiescent hold in EVERY
                   reachable state (no drop is excluded);
                   C06_fixed_cancel_owing / C06_fixed_timeout_owing replay the
                   schedules that used to lose the wake-up.
       ho = false: the same statements over [reachableR] (reachability without
                   the drops of an owing consumer): the ..._old theorems; and
                   the refutations C06_refuted_cancel_owing /
                   C06_refuted_timeout_owing for the unrestricted system.
   - Release on deletion (C12), the empty rule (C15), termination of internal
     activity: both versions.  C12_no_hang: in the repaired code every consumer
     that arrives after the deletion is worth one more round (see there). *)
From Coq Require Import List NArith Arith Bool Lia.
Import ListNotations.
From Deltio Require Import Model.ConcSub.

(* ------------------------------------------------------------------ *)
(* Lists and basic state lemmas                                        *)

Lemma get_set_permit b s c : get (set_permit b s) c = get s c. Proof. reflexivity. Qed.
Lemma get_set_waiters b s c : get (set_waiters b s) c = get s c. Proof. reflexivity. Qed.
Lemma get_set_calls b s c : get (set_calls b s) c = get s c. Proof. reflexivity. Qed.
Lemma get_set_backlog b s c : get (set_backlog b s) c = get s c. Proof. reflexivity. Qed.
Lemma get_set_leased b s c : get (set_leased b s) c = get s c. Proof. reflexivity. Qed.
Lemma get_set_deleted b s c : get (set_deleted b s) c = get s c. Proof. reflexivity. Qed.
Lemma get_set_exited b s c : get (set_exited b s) c = get s c. Proof. reflexivity. Qed.
Lemma get_set_mailbox b s c : get (set_mailbox b s) c = get s c. Proof. reflexivity. Qed.
#[global] Hint Rewrite get_set_permit get_set_waiters get_set_calls get_set_backlog get_set_leased
  get_set_deleted get_set_exited get_set_mailbox : gets.

Ltac ss := cbn [permit waiters calls backlog leased deleted exited mailbox conss
                set_permit set_waiters set_calls set_backlog set_leased set_deleted
                set_exited set_mailbox set_conss setc] in *;
           autorewrite with gets in *.

Lemma nth_upd_same l : forall c f, nth_error (upd l c f) c = option_map f (nth_error l c).
Proof. induction l as [|x t IH]; intros [|c] f; cbn; auto. Qed.

Lemma nth_upd_other l : forall c c' f, c <> c' -> nth_error (upd l c f) c' = nth_error l c'.
Proof.
  induction l as [|x t IH]; intros [|c] [|c'] f H; cbn; auto; try congruence.
Qed.

Lemma upd_length l : forall c f, length (upd l c f) = length l.
Proof. induction l as [|x t IH]; intros [|c] f; cbn; auto. Qed.

Lemma nth_upd l c f c' :
  nth_error (upd l c f) c' = if Nat.eq_dec c c' then option_map f (nth_error l c') else nth_error l c'.
Proof.
  destruct (Nat.eq_dec c c') as [->|H]; [apply nth_upd_same|apply nth_upd_other; assumption].
Qed.

(* what is known about consumer c' after an update at c *)
Lemma get_setc_inv s c f c' cs' :
  get (setc c f s) c' = Some cs' ->
  (c' = c /\ exists cs, get s c = Some cs /\ cs' = f cs) \/ (c' <> c /\ get s c' = Some cs').
Proof.
  unfold get, setc; cbn. rewrite nth_upd. destruct (Nat.eq_dec c c') as [->|H]; intros E.
  - left. split; auto. destruct (nth_error (conss s) c') as [cs|]; cbn in E; [|discriminate].
    exists cs. split; congruence.
  - right. split; auto.
Qed.

Lemma get_setc_same s c f cs : get s c = Some cs -> get (setc c f s) c = Some (f cs).
Proof. unfold get, setc; cbn. intros E. rewrite nth_upd_same, E. reflexivity. Qed.

Lemma get_setc_other s c f c' : c' <> c -> get (setc c f s) c' = get s c'.
Proof. unfold get, setc; cbn. intros H. apply nth_upd_other. congruence. Qed.

Lemma in_remove_iff (c x : nat) l : In x (remove Nat.eq_dec c l) <-> In x l /\ x <> c.
Proof.
  split.
  - intros H. apply in_remove in H. exact H.
  - intros [H1 H2]. apply in_in_remove; assumption.
Qed.

Lemma nodup_remove (c : nat) l : NoDup l -> NoDup (remove Nat.eq_dec c l).
Proof.
  induction 1 as [|x l Hx Hn IH]; cbn; [constructor|].
  destruct (Nat.eq_dec c x); auto. constructor; auto.
  intros Hin. apply in_remove in Hin. tauto.
Qed.

(* ------------------------------------------------------------------ *)
(* A. Notify well-formedness                                           *)

Definition parkedN (s : state) (c : nat) : Prop :=
  exists cs, get s c = Some cs /\ cphase cs = PParked NNone.

Record nwf (s : state) : Prop := {
  nw_nodup : NoDup (waiters s);
  nw_wait : forall c, In c (waiters s) <-> parkedN s c;
  nw_permit : permit s = true -> waiters s = []
}.

Lemma nwf_ext s s' :
  nwf s -> permit s' = permit s -> waiters s' = waiters s -> conss s' = conss s -> nwf s'.
Proof.
  intros [A B C] E1 E2 E3. split.
  - rewrite E2; assumption.
  - intros c. rewrite E2, B. unfold parkedN, get. rewrite E3. tauto.
  - rewrite E1, E2. assumption.
Qed.

Lemma parkedN_setc_neutral s c f :
  (forall cs, get s c = Some cs -> (cphase (f cs) = PParked NNone <-> cphase cs = PParked NNone)) ->
  forall c', parkedN (setc c f s) c' <-> parkedN s c'.
Proof.
  intros Hf c'. unfold parkedN. split.
  - intros (cs' & G & P). apply get_setc_inv in G. destruct G as [(-> & cs & G & ->)|(N & G)].
    + exists cs. split; auto. apply Hf; auto.
    + exists cs'. auto.
  - intros (cs & G & P). destruct (Nat.eq_dec c' c) as [->|N].
    + exists (f cs). split; [apply get_setc_same; auto|]. apply Hf; auto.
    + exists cs. rewrite get_setc_other; auto.
Qed.

Lemma nwf_setc_neutral s c f :
  nwf s ->
  (forall cs, get s c = Some cs -> (cphase (f cs) = PParked NNone <-> cphase cs = PParked NNone)) ->
  nwf (setc c f s).
Proof.
  intros [A B C] Hf. split; ss; auto.
  intros c'. rewrite B. symmetry. apply (parkedN_setc_neutral s c f Hf c').
Qed.

Lemma wake_phase_N n cs : n <> NNone -> cphase (wake n cs) <> PParked NNone.
Proof.
  intros Hn. unfold wake. destruct (cphase cs) as [| | | |[]| |] eqn:E; cbn; rewrite ?E; congruence.
Qed.

Lemma nwf_notify_one s : nwf s -> nwf (notify_one s).
Proof.
  intros W. destruct W as [A B C]. unfold notify_one. destruct (waiters s) as [|w ws] eqn:Ew.
  - split; ss.
    + rewrite Ew. constructor.
    + intros c. rewrite Ew. exact (B c).
    + intros _. exact Ew.
  - inversion A as [|? ? Hw Hws]; subst. split; unfold parkedN; ss; auto.
    + intros c. split.
      * intros Hc. assert (c <> w) by (intros ->; contradiction).
        destruct (proj1 (B c) (or_intror Hc)) as (cs & G & P). exists cs. ss.
        rewrite get_setc_other; auto.
      * intros (cs' & G & P). ss. apply get_setc_inv in G. destruct G as [(-> & cs & G & ->)|(N & G)].
        -- exfalso. revert P. apply wake_phase_N. discriminate.
        -- assert (In c (w :: ws)) as [->|H] by (apply B; exists cs'; auto); [congruence|assumption].
    + intros Hp. specialize (C Hp). discriminate.
Qed.

(* ------------------------------------------------------------------ *)
(* Inversion principle for [step]: every case in normal form           *)

Inductive sspec (ho : bool) (K : nat) (s : state) : label -> state -> Prop :=
| sp_turn_del_pull c m rest :
    exited s = false -> mailbox s = RPull c m :: rest -> deleted s = true ->
    sspec ho K s LTurn (deliver c (RMsgs 0) (set_mailbox rest s))
| sp_turn_del_other r rest :
    exited s = false -> mailbox s = r :: rest -> deleted s = true -> is_pull r = false ->
    sspec ho K s LTurn (set_mailbox rest s)
| sp_turn_post n rest :
    exited s = false -> mailbox s = RPost n :: rest -> deleted s = false ->
    sspec ho K s LTurn (notify_one (set_backlog (backlog s + n) (set_mailbox rest s)))
| sp_turn_pull c m rest :
    exited s = false -> mailbox s = RPull c m :: rest -> deleted s = false ->
    sspec ho K s LTurn
      (let k := pull_count (backlog s) m in
       let s1 := deliver c (RMsgs k)
                   (set_leased (leased s + k) (set_backlog (backlog s - k) (set_mailbox rest s))) in
       if Nat.ltb 0 (backlog s - k) then notify_one s1 else s1)
| sp_turn_nack j rest :
    exited s = false -> mailbox s = RNack j :: rest -> deleted s = false ->
    sspec ho K s LTurn (requeue j (set_mailbox rest s))
| sp_turn_ack j rest :
    exited s = false -> mailbox s = RAck j :: rest -> deleted s = false ->
    sspec ho K s LTurn (set_leased (leased s - Nat.min j (leased s)) (set_mailbox rest s))
| sp_turn_delete rest :
    exited s = false -> mailbox s = RDelete :: rest -> deleted s = false ->
    sspec ho K s LTurn
      (notify_waiters (set_deleted true (set_leased 0 (set_backlog 0 (set_mailbox rest s)))))
| sp_exit :
    deleted s = true -> exited s = false ->
    sspec ho K s LExit (set_mailbox [] (set_exited true (fold_left close_req (mailbox s) s)))
| sp_u0 c cs o :
    get s c = Some cs -> cphase cs = PU0 o ->
    sspec ho K s (LCons c) (setc c (with_phase (PU1 (calls s) o)) s)
| sp_u1_closed c cs snap o :
    get s c = Some cs -> cphase cs = PU1 snap o -> exited s = true ->
    sspec ho K s (LCons c) (leave ho (cphase cs) c (with_phase (PDone (closed_outcome (ckind cs)))) s)
| sp_u1_send c cs snap o :
    get s c = Some cs -> cphase cs = PU1 snap o -> exited s = false -> length (mailbox s) < K ->
    sspec ho K s (LCons c)
      (set_mailbox (mailbox s ++ [RPull c (cmax cs)]) (setc c (with_phase (PU2 snap None)) s))
| sp_u2_closed c cs snap :
    get s c = Some cs -> cphase cs = PU2 snap (Some RClosed) ->
    sspec ho K s (LCons c) (setc c (with_phase (PDone (closed_outcome (ckind cs)))) s)
| sp_u2_empty c cs snap :
    get s c = Some cs -> cphase cs = PU2 snap (Some (RMsgs 0)) ->
    sspec ho K s (LCons c) (setc c (with_phase (PU3 snap)) s)
| sp_u2_msgs_unary c cs snap k :
    get s c = Some cs -> cphase cs = PU2 snap (Some (RMsgs (S k))) -> ckind cs = Unary ->
    sspec ho K s (LCons c)
      (setc c (fun x => add_got (S k) (with_phase (PDone (OMessages (S k))) x)) s)
| sp_u2_msgs_stream c cs snap k :
    get s c = Some cs -> cphase cs = PU2 snap (Some (RMsgs (S k))) -> ckind cs = Stream ->
    sspec ho K s (LCons c) (setc c (fun x => add_got (S k) (with_phase (PU3 snap) x)) s)
| sp_u3_permit c cs snap :
    get s c = Some cs -> cphase cs = PU3 snap -> permit s = true ->
    sspec ho K s (LCons c) (set_permit false (setc c (with_phase (PU0 true)) s))
| sp_u3_calls c cs snap :
    get s c = Some cs -> cphase cs = PU3 snap -> permit s = false -> snap <> calls s ->
    sspec ho K s (LCons c) (setc c (with_phase (PU0 true)) s)
| sp_u3_park c cs snap :
    get s c = Some cs -> cphase cs = PU3 snap -> permit s = false -> snap = calls s ->
    sspec ho K s (LCons c)
      (set_waiters (waiters s ++ [c]) (setc c (with_phase (PParked NNone)) s))
| sp_woken c cs n :
    get s c = Some cs -> cphase cs = PParked n -> n <> NNone ->
    sspec ho K s (LCons c) (setc c (with_phase (PU0 true)) s)
| sp_delexit c cs :
    deleted s = true -> get s c = Some cs -> suspended (cphase cs) = true ->
    (ckind cs = Unary \/ (exists snap, cphase cs = PU3 snap) \/ (exists n, cphase cs = PParked n)) ->
    sspec ho K s (LDelExit c) (leave ho (cphase cs) c (with_phase (PDone ONotFound)) s)
| sp_enq r :
    is_pull r = false -> exited s = false -> length (mailbox s) < K ->
    sspec ho K s (LEnq r) (set_mailbox (mailbox s ++ [r]) s)
| sp_expire_del j :
    exited s = false -> deleted s = true -> sspec ho K s (LExpire j) s
| sp_expire j :
    exited s = false -> deleted s = false -> sspec ho K s (LExpire j) (requeue j s)
| sp_arrive k m :
    sspec ho K s (LArrive k m) (set_conss (conss s ++ [new_cons k m]) s)
| sp_cancel c cs :
    get s c = Some cs -> suspended (cphase cs) = true ->
    sspec ho K s (LCancel c) (leave ho (cphase cs) c (with_phase PGone) s)
| sp_timeout c cs :
    get s c = Some cs -> suspended (cphase cs) = true -> ckind cs = Unary ->
    sspec ho K s (LTimeout c)
      (leave ho (cphase cs) c (fun x => with_timed (with_phase (PDone OEmpty) x)) s).

Lemma step_sspec ho K s l s' : step ho K s l = Some s' -> sspec ho K s l s'.
Proof.
  destruct l as [| |c|c|r|j|k m|c|c]; cbn [step]; intros H.
  - unfold turn in H. destruct (exited s) eqn:Ex; [discriminate|].
    destruct (mailbox s) as [|r rest] eqn:Em; [discriminate|]. injection H as <-.
    destruct (deleted s) eqn:Ed.
    + destruct r as [n|c m|j|j|]; cbv beta zeta iota.
      * eapply sp_turn_del_other; eauto.
      * apply (sp_turn_del_pull ho K s c m rest); auto.
      * eapply sp_turn_del_other; eauto.
      * eapply sp_turn_del_other; eauto.
      * eapply sp_turn_del_other; eauto.
    + destruct r; cbv beta zeta iota.
      * apply sp_turn_post; auto.
      * apply sp_turn_pull; auto.
      * apply sp_turn_nack; auto.
      * apply sp_turn_ack; auto.
      * apply sp_turn_delete; auto.
  - unfold actor_exit in H. destruct (deleted s) eqn:Ed; destruct (exited s) eqn:Ex; cbn in H; try discriminate.
    injection H as <-. apply sp_exit; auto.
  - unfold cons_step in H. destruct (get s c) as [cs|] eqn:G; [|discriminate].
    destruct (cphase cs) as [o|snap o|snap [[[|k]|]|]|snap|n| |] eqn:P; try discriminate.
    + injection H as <-. eapply sp_u0; eauto.
    + destruct (exited s) eqn:Ex.
      * injection H as <-. pose proof (sp_u1_closed ho K s c cs snap o G P Ex) as Q.
        rewrite P in Q. exact Q.
      * destruct (Nat.ltb (length (mailbox s)) K) eqn:L; [|discriminate].
        injection H as <-. apply Nat.ltb_lt in L. eapply sp_u1_send; eauto.
    + injection H as <-. eapply sp_u2_empty; eauto.
    + destruct (ckind cs) eqn:Ek; injection H as <-.
      * eapply sp_u2_msgs_unary; eauto.
      * eapply sp_u2_msgs_stream; eauto.
    + injection H as <-. eapply sp_u2_closed; eauto.
    + unfold poll_init in H. destruct (permit s) eqn:Ep.
      * injection H as <-. eapply sp_u3_permit; eauto.
      * destruct (Nat.eqb snap (calls s)) eqn:Ec; injection H as <-.
        -- apply Nat.eqb_eq in Ec. eapply sp_u3_park; eauto.
        -- apply Nat.eqb_neq in Ec. eapply sp_u3_calls; eauto.
    + destruct n; try discriminate; injection H as <-; eapply sp_woken; eauto; discriminate.
  - unfold del_exit in H. destruct (deleted s) eqn:Ed; cbn [negb] in H; [|discriminate].
    destruct (get s c) as [cs|] eqn:G; [|discriminate].
    pose proof (sp_delexit ho K s c cs Ed G) as Q.
    destruct (ckind cs) eqn:Ek; destruct (cphase cs) as [[|]| | | | | |] eqn:P; try discriminate;
      injection H as <-; apply Q; auto; eauto.
  - destruct (is_pull r) eqn:Ip; cbn [orb negb] in H; [discriminate|].
    destruct (exited s) eqn:Ex; cbn [orb negb] in H; [discriminate|].
    destruct (Nat.ltb (length (mailbox s)) K) eqn:L; cbn [orb negb] in H; [|discriminate].
    injection H as <-. apply Nat.ltb_lt in L. apply sp_enq; auto.
  - destruct (exited s) eqn:Ex; [discriminate|]. injection H as <-.
    destruct (deleted s) eqn:Ed; [apply sp_expire_del|apply sp_expire]; auto.
  - injection H as <-. apply sp_arrive.
  - unfold cancel in H. destruct (get s c) as [cs|] eqn:G; [|discriminate].
    destruct (suspended (cphase cs)) eqn:A; [|discriminate]. injection H as <-. apply sp_cancel; auto.
  - unfold timeout in H. destruct (get s c) as [cs|] eqn:G; [|discriminate].
    destruct (ckind cs) eqn:Ek; [|discriminate].
    destruct (suspended (cphase cs)) eqn:A; [|discriminate]. injection H as <-. apply sp_timeout; auto.
Qed.

(* ------------------------------------------------------------------ *)
(* nwf is preserved by every step                                      *)

Ltac neutral G P :=
  let x := fresh "x" in let Gx := fresh "Gx" in
  intros x Gx; rewrite G in Gx; injection Gx as <-; cbn; rewrite ?P; split; congruence.

Lemma deliver_f_parked r cs p :
  (forall snap o, p <> PU2 snap o) -> cphase (deliver_f r cs) = p <-> cphase cs = p.
Proof.
  intros Hp. unfold deliver_f. destruct (cphase cs) as [| |snap [|]| | | |] eqn:E; cbn; rewrite ?E; try tauto.
  split; intros <-; exfalso; eapply Hp; reflexivity.
Qed.

Lemma nwf_deliver c r s : nwf s -> nwf (deliver c r s).
Proof.
  intros W. apply nwf_setc_neutral; auto. intros cs _. apply deliver_f_parked. discriminate.
Qed.

Lemma nwf_close l : forall s, nwf s -> nwf (fold_left close_req l s).
Proof.
  induction l as [|r l IH]; intros s W; cbn; auto. apply IH. destruct r; cbn; auto.
  apply nwf_deliver; auto.
Qed.

Lemma nwf_requeue j s : nwf s -> nwf (requeue j s).
Proof.
  intros W. unfold requeue. destruct (Nat.ltb 0 _).
  - apply nwf_notify_one. eapply nwf_ext; eauto.
  - eapply nwf_ext; eauto.
Qed.

Lemma nwf_finish s c cs f :
  nwf s -> get s c = Some cs -> cphase (f cs) <> PParked NNone ->
  nwf (finish (cphase cs) c f s).
Proof.
  intros W G Hf. unfold finish.
  assert (N : forall n, n <> NNone -> cphase cs = PParked n -> nwf (setc c f s)).
  { intros n Hn P. apply nwf_setc_neutral; auto. intros x Gx. rewrite G in Gx. injection Gx as <-.
    rewrite P. split; intros Q; [contradiction|congruence]. }
  destruct (cphase cs) as [| | | |[]| |] eqn:P;
    try (apply nwf_setc_neutral; auto; intros x Gx; rewrite G in Gx; injection Gx as <-; rewrite P;
         split; intros Q; [contradiction|congruence]).
  - (* Waiting(none): leave the list *)
    destruct W as [A B C]. split; ss.
    + apply nodup_remove; auto.
    + intros c'. rewrite in_remove_iff, B. unfold parkedN. ss. split.
      * intros [(cs' & G' & P') N']. exists cs'. rewrite get_setc_other; auto.
      * intros (cs' & G' & P'). apply get_setc_inv in G'. destruct G' as [(-> & x & Gx & ->)|(N' & G')].
        -- rewrite G in Gx. injection Gx as <-. contradiction.
        -- split; eauto.
    + intros Hp. rewrite (C Hp). reflexivity.
  - (* Waiting(one): forward *)
    apply nwf_notify_one. apply (N NOne); auto. discriminate.
Qed.

Lemma nwf_leave ho s c cs f :
  nwf s -> get s c = Some cs -> cphase (f cs) <> PParked NNone ->
  nwf (leave ho (cphase cs) c f s).
Proof.
  intros W G Hf. pose proof (nwf_finish s c cs f W G Hf) as W1. unfold leave.
  destruct (cphase cs); auto. destruct ho; auto. apply nwf_notify_one; auto.
Qed.

Lemma suspended_alive p : suspended p = true -> alive p = true.
Proof. destruct p as [[]| | | | | |]; cbn; auto. Qed.

Lemma nwf_park s c cs :
  nwf s -> get s c = Some cs -> cphase cs <> PParked NNone -> permit s = false ->
  nwf (set_waiters (waiters s ++ [c]) (setc c (with_phase (PParked NNone)) s)).
Proof.
  intros [A B C] G P Hp.
  assert (Nin : ~ In c (waiters s)).
  { intros Hin. apply B in Hin. destruct Hin as (x & Gx & Px). congruence. }
  split; ss.
  - rewrite <- (rev_involutive (waiters s ++ [c])). apply NoDup_rev. rewrite rev_app_distr. cbn.
    constructor; [rewrite <- in_rev; assumption|apply NoDup_rev; assumption].
  - intros c'. rewrite in_app_iff, B. unfold parkedN. ss. split.
    + intros [(x & Gx & Px)|[<-|[]]].
      * exists x. rewrite get_setc_other; auto. intros ->. congruence.
      * exists (with_phase (PParked NNone) cs). split; auto. apply get_setc_same; auto.
    + intros (x & Gx & Px). apply get_setc_inv in Gx. destruct Gx as [(-> & y & Gy & ->)|(N' & Gx)].
      * right. left. reflexivity.
      * left. eauto.
  - congruence.
Qed.

Lemma wake_idem n cs : wake n (wake n cs) = wake n cs.
Proof.
  unfold wake. destruct (cphase cs) as [| | | |[]| |] eqn:E; cbn; rewrite ?E; auto.
  destruct n; reflexivity.
Qed.

Lemma fold_upd_get (g : cons -> cons) (Hg : forall x, g (g x) = g x) ws :
  forall l c,
    nth_error (fold_left (fun l w => upd l w g) ws l) c =
    option_map (fun cs => if in_dec Nat.eq_dec c ws then g cs else cs) (nth_error l c).
Proof.
  induction ws as [|w ws IH]; intros l c.
  - cbn. destruct (nth_error l c); reflexivity.
  - cbn [fold_left]. rewrite IH, nth_upd.
    destruct (Nat.eq_dec w c) as [->|N].
    + destruct (nth_error l c) as [cs|]; cbn [option_map]; auto.
      destruct (in_dec Nat.eq_dec c ws); destruct (in_dec Nat.eq_dec c (c :: ws)) as [|N2];
        rewrite ?Hg; auto; exfalso; apply N2; left; auto.
    + destruct (nth_error l c) as [cs|]; cbn [option_map]; auto.
      destruct (in_dec Nat.eq_dec c ws) as [I|I]; destruct (in_dec Nat.eq_dec c (w :: ws)) as [I2|I2]; auto.
      * exfalso. apply I2. right. auto.
      * exfalso. destruct I2; congruence.
Qed.

Lemma get_notify_waiters s c :
  get (notify_waiters s) c =
  option_map (fun cs => if in_dec Nat.eq_dec c (waiters s) then wake NAll cs else cs) (get s c).
Proof.
  unfold notify_waiters, get; cbn. apply fold_upd_get. apply wake_idem.
Qed.

Lemma nwf_notify_waiters s : nwf s -> nwf (notify_waiters s).
Proof.
  intros [A B C]. split.
  - cbn. constructor.
  - intros c. cbn [notify_waiters waiters set_calls set_waiters]. split; [intros []|].
    intros (cs' & G & P). rewrite get_notify_waiters in G.
    destruct (get s c) as [cs|] eqn:Gc; [|discriminate]. cbn in G. injection G as <-.
    destruct (in_dec Nat.eq_dec c (waiters s)) as [I|I].
    + revert P. apply wake_phase_N. discriminate.
    + apply I. apply B. exists cs. auto.
  - reflexivity.
Qed.

Lemma get_arrive s x c cs :
  get s c = Some cs -> get (set_conss (conss s ++ [x]) s) c = Some cs.
Proof.
  unfold get; cbn. intros G. rewrite nth_error_app1; auto. apply nth_error_Some. congruence.
Qed.

Lemma get_arrive_inv s x c cs :
  get (set_conss (conss s ++ [x]) s) c = Some cs ->
  get s c = Some cs \/ (c = length (conss s) /\ cs = x /\ get s c = None).
Proof.
  unfold get; cbn. intros G. destruct (Nat.lt_ge_cases c (length (conss s))) as [L|L].
  - rewrite nth_error_app1 in G; auto.
  - right. rewrite nth_error_app2 in G; auto.
    destruct (c - length (conss s)) as [|d] eqn:E.
    + cbn in G. injection G as <-. repeat split; [lia|]. apply nth_error_None. lia.
    + cbn in G. destruct d; discriminate.
Qed.

Lemma nwf_arrive s k m : nwf s -> nwf (set_conss (conss s ++ [new_cons k m]) s).
Proof.
  intros [A B C]. split; ss; auto.
  intros c. rewrite B. unfold parkedN. split.
  - intros (cs & G & P). exists cs. split; auto. apply get_arrive; auto.
  - intros (cs & G & P). apply get_arrive_inv in G. destruct G as [G|(_ & -> & _)]; [eauto|discriminate].
Qed.

Lemma nwf_init : nwf init.
Proof.
  split; cbn; [constructor| |auto]. intros c. split; [intros []|].
  intros (cs & G & _). unfold get in G. cbn in G. destruct c; discriminate.
Qed.

Lemma nwf_step ho K s l s' : nwf s -> step ho K s l = Some s' -> nwf s'.
Proof.
  intros W H. apply step_sspec in H.
  destruct H as [c m rest Ex Em Ed|r rest Ex Em Ed Ip|n rest Ex Em Ed|c m rest Ex Em Ed
                |j rest Ex Em Ed|j rest Ex Em Ed|rest Ex Em Ed|Ed Ex
                |c cs o G P|c cs snap o G P Ex|c cs snap o G P Ex L|c cs snap G P|c cs snap G P
                |c cs snap k G P Ek|c cs snap k G P Ek|c cs snap G P Ep|c cs snap G P Ep Ec
                |c cs snap G P Ep Ec|c cs n G P Hn|c cs Ed G A Hk|r Ip Ex L|j Ex Ed|j Ex Ed|k m
                |c cs G A|c cs G A Ek].
  - apply nwf_deliver. eapply nwf_ext; eauto.
  - eapply nwf_ext; eauto.
  - apply nwf_notify_one. eapply nwf_ext; eauto.
  - cbv zeta. assert (nwf (deliver c (RMsgs (pull_count (backlog s) m))
       (set_leased (leased s + pull_count (backlog s) m)
          (set_backlog (backlog s - pull_count (backlog s) m) (set_mailbox rest s))))).
    { apply nwf_deliver. eapply nwf_ext; eauto. }
    destruct (Nat.ltb 0 _); auto. apply nwf_notify_one; auto.
  - apply nwf_requeue. eapply nwf_ext; eauto.
  - eapply nwf_ext; eauto.
  - apply nwf_notify_waiters. eapply nwf_ext; eauto.
  - eapply nwf_ext with (s := fold_left close_req (mailbox s) s); auto. apply nwf_close; auto.
  - apply nwf_setc_neutral; auto. neutral G P.
  - apply nwf_leave; auto. discriminate.
  - eapply nwf_ext with (s := setc c (with_phase (PU2 snap None)) s); auto.
    apply nwf_setc_neutral; auto. neutral G P.
  - apply nwf_setc_neutral; auto. neutral G P.
  - apply nwf_setc_neutral; auto. neutral G P.
  - apply nwf_setc_neutral; auto. neutral G P.
  - apply nwf_setc_neutral; auto. neutral G P.
  - assert (W1 : nwf (setc c (with_phase (PU0 true)) s)) by (apply nwf_setc_neutral; auto; neutral G P).
    destruct W1 as [A1 B1 C1]. split; ss; auto.
  - apply nwf_setc_neutral; auto. neutral G P.
  - apply nwf_park with (cs := cs); auto. congruence.
  - apply nwf_setc_neutral; auto. neutral G P.
  - apply nwf_leave; auto. discriminate.
  - eapply nwf_ext; eauto.
  - assumption.
  - apply nwf_requeue; auto.
  - apply nwf_arrive; auto.
  - apply nwf_leave; auto. discriminate.
  - apply nwf_leave; auto. discriminate.
Qed.

Theorem notify_wf ho K s : reachable ho K s -> nwf s.
Proof. induction 1; [apply nwf_init|eapply nwf_step; eauto]. Qed.

(* ------------------------------------------------------------------ *)
(* Frame lemmas: which scalar fields the Notify operations leave alone *)

Lemma backlog_notify_one s : backlog (notify_one s) = backlog s.
Proof. unfold notify_one. destruct (waiters s); reflexivity. Qed.
Lemma leased_notify_one s : leased (notify_one s) = leased s.
Proof. unfold notify_one. destruct (waiters s); reflexivity. Qed.
Lemma deleted_notify_one s : deleted (notify_one s) = deleted s.
Proof. unfold notify_one. destruct (waiters s); reflexivity. Qed.
Lemma exited_notify_one s : exited (notify_one s) = exited s.
Proof. unfold notify_one. destruct (waiters s); reflexivity. Qed.
Lemma mailbox_notify_one s : mailbox (notify_one s) = mailbox s.
Proof. unfold notify_one. destruct (waiters s); reflexivity. Qed.
Lemma calls_notify_one s : calls (notify_one s) = calls s.
Proof. unfold notify_one. destruct (waiters s); reflexivity. Qed.
Lemma backlog_finish old c f s : backlog (finish old c f s) = backlog s.
Proof. unfold finish. destruct old as [| | | |[]| |]; cbn [backlog set_waiters]; rewrite ?backlog_notify_one; reflexivity. Qed.
Lemma leased_finish old c f s : leased (finish old c f s) = leased s.
Proof. unfold finish. destruct old as [| | | |[]| |]; cbn [leased set_waiters]; rewrite ?leased_notify_one; reflexivity. Qed.
Lemma deleted_finish old c f s : deleted (finish old c f s) = deleted s.
Proof. unfold finish. destruct old as [| | | |[]| |]; cbn [deleted set_waiters]; rewrite ?deleted_notify_one; reflexivity. Qed.
Lemma exited_finish old c f s : exited (finish old c f s) = exited s.
Proof. unfold finish. destruct old as [| | | |[]| |]; cbn [exited set_waiters]; rewrite ?exited_notify_one; reflexivity. Qed.
Lemma mailbox_finish old c f s : mailbox (finish old c f s) = mailbox s.
Proof. unfold finish. destruct old as [| | | |[]| |]; cbn [mailbox set_waiters]; rewrite ?mailbox_notify_one; reflexivity. Qed.
Lemma calls_finish old c f s : calls (finish old c f s) = calls s.
Proof. unfold finish. destruct old as [| | | |[]| |]; cbn [calls set_waiters]; rewrite ?calls_notify_one; reflexivity. Qed.
Lemma backlog_leave ho old c f s : backlog (leave ho old c f s) = backlog s.
Proof. unfold leave. destruct old; try destruct ho; rewrite ?backlog_notify_one; apply backlog_finish. Qed.
Lemma leased_leave ho old c f s : leased (leave ho old c f s) = leased s.
Proof. unfold leave. destruct old; try destruct ho; rewrite ?leased_notify_one; apply leased_finish. Qed.
Lemma deleted_leave ho old c f s : deleted (leave ho old c f s) = deleted s.
Proof. unfold leave. destruct old; try destruct ho; rewrite ?deleted_notify_one; apply deleted_finish. Qed.
Lemma exited_leave ho old c f s : exited (leave ho old c f s) = exited s.
Proof. unfold leave. destruct old; try destruct ho; rewrite ?exited_notify_one; apply exited_finish. Qed.
Lemma mailbox_leave ho old c f s : mailbox (leave ho old c f s) = mailbox s.
Proof. unfold leave. destruct old; try destruct ho; rewrite ?mailbox_notify_one; apply mailbox_finish. Qed.
Lemma calls_leave ho old c f s : calls (leave ho old c f s) = calls s.
Proof. unfold leave. destruct old; try destruct ho; rewrite ?calls_notify_one; apply calls_finish. Qed.
Lemma backlog_deliver c r s : backlog (deliver c r s) = backlog s.
Proof. reflexivity. Qed.
Lemma leased_deliver c r s : leased (deliver c r s) = leased s.
Proof. reflexivity. Qed.
Lemma deleted_deliver c r s : deleted (deliver c r s) = deleted s.
Proof. reflexivity. Qed.
Lemma exited_deliver c r s : exited (deliver c r s) = exited s.
Proof. reflexivity. Qed.
Lemma mailbox_deliver c r s : mailbox (deliver c r s) = mailbox s.
Proof. reflexivity. Qed.
Lemma calls_deliver c r s : calls (deliver c r s) = calls s.
Proof. reflexivity. Qed.
Lemma backlog_close l : forall s, backlog (fold_left close_req l s) = backlog s.
Proof. induction l as [|r l IH]; intros s; cbn [fold_left]; auto. rewrite IH. destruct r; reflexivity. Qed.
Lemma leased_close l : forall s, leased (fold_left close_req l s) = leased s.
Proof. induction l as [|r l IH]; intros s; cbn [fold_left]; auto. rewrite IH. destruct r; reflexivity. Qed.
Lemma deleted_close l : forall s, deleted (fold_left close_req l s) = deleted s.
Proof. induction l as [|r l IH]; intros s; cbn [fold_left]; auto. rewrite IH. destruct r; reflexivity. Qed.
Lemma exited_close l : forall s, exited (fold_left close_req l s) = exited s.
Proof. induction l as [|r l IH]; intros s; cbn [fold_left]; auto. rewrite IH. destruct r; reflexivity. Qed.
Lemma mailbox_close l : forall s, mailbox (fold_left close_req l s) = mailbox s.
Proof. induction l as [|r l IH]; intros s; cbn [fold_left]; auto. rewrite IH. destruct r; reflexivity. Qed.
Lemma calls_close l : forall s, calls (fold_left close_req l s) = calls s.
Proof. induction l as [|r l IH]; intros s; cbn [fold_left]; auto. rewrite IH. destruct r; reflexivity. Qed.
Lemma permit_close l : forall s, permit (fold_left close_req l s) = permit s.
Proof. induction l as [|r l IH]; intros s; cbn [fold_left]; auto. rewrite IH. destruct r; reflexivity. Qed.
Lemma waiters_close l : forall s, waiters (fold_left close_req l s) = waiters s.
Proof. induction l as [|r l IH]; intros s; cbn [fold_left]; auto. rewrite IH. destruct r; reflexivity. Qed.
Lemma deleted_requeue j s : deleted (requeue j s) = deleted s.
Proof. unfold requeue. destruct (Nat.ltb 0 _); rewrite ?deleted_notify_one; reflexivity. Qed.
Lemma exited_requeue j s : exited (requeue j s) = exited s.
Proof. unfold requeue. destruct (Nat.ltb 0 _); rewrite ?exited_notify_one; reflexivity. Qed.
Lemma mailbox_requeue j s : mailbox (requeue j s) = mailbox s.
Proof. unfold requeue. destruct (Nat.ltb 0 _); rewrite ?mailbox_notify_one; reflexivity. Qed.
Lemma calls_requeue j s : calls (requeue j s) = calls s.
Proof. unfold requeue. destruct (Nat.ltb 0 _); rewrite ?calls_notify_one; reflexivity. Qed.
Lemma backlog_notify_waiters s : backlog (notify_waiters s) = backlog s.
Proof. reflexivity. Qed.
Lemma leased_notify_waiters s : leased (notify_waiters s) = leased s.
Proof. reflexivity. Qed.
Lemma deleted_notify_waiters s : deleted (notify_waiters s) = deleted s.
Proof. reflexivity. Qed.
Lemma exited_notify_waiters s : exited (notify_waiters s) = exited s.
Proof. reflexivity. Qed.
Lemma mailbox_notify_waiters s : mailbox (notify_waiters s) = mailbox s.
Proof. reflexivity. Qed.
Lemma permit_notify_waiters s : permit (notify_waiters s) = permit s.
Proof. reflexivity. Qed.
#[global] Hint Rewrite backlog_notify_one leased_notify_one deleted_notify_one exited_notify_one mailbox_notify_one calls_notify_one backlog_finish leased_finish deleted_finish exited_finish mailbox_finish calls_finish backlog_leave leased_leave deleted_leave exited_leave mailbox_leave calls_leave backlog_deliver leased_deliver deleted_deliver exited_deliver mailbox_deliver calls_deliver backlog_close leased_close deleted_close exited_close mailbox_close calls_close permit_close waiters_close deleted_requeue exited_requeue mailbox_requeue calls_requeue backlog_notify_waiters leased_notify_waiters deleted_notify_waiters exited_notify_waiters mailbox_notify_waiters permit_notify_waiters : frame.

Ltac fr := ss; autorewrite with frame in *; ss; autorewrite with frame in *.


(* ------------------------------------------------------------------ *)
(* A (continued). Actor / mailbox well-formedness                      *)

Definition u2n (s : state) (c : nat) : Prop :=
  exists cs snap, get s c = Some cs /\ cphase cs = PU2 snap None.

Record swf (K : nat) (s : state) : Prop := {
  sw_exit : exited s = true -> deleted s = true /\ mailbox s = [];
  sw_mbox : length (mailbox s) <= K;
  sw_u2 : forall c, u2n s c -> exists m, In (RPull c m) (mailbox s);
  sw_calls : calls s = if deleted s then 1 else 0
}.

Definition reflects (f : cons -> cons) : Prop :=
  forall x snap, cphase (f x) = PU2 snap None -> cphase x = PU2 snap None.

Lemma u2n_setc s c0 f c : reflects f -> u2n (setc c0 f s) c -> u2n s c.
Proof.
  intros Hf (cs & snap & G & P). apply get_setc_inv in G. destruct G as [(-> & x & Gx & ->)|(N & G)].
  - exists x, snap. split; auto.
  - exists cs, snap. auto.
Qed.

Lemma u2n_setc_not s c0 f c :
  (forall x snap, cphase (f x) <> PU2 snap None) -> u2n (setc c0 f s) c -> u2n s c /\ c <> c0.
Proof.
  intros Hf (cs & snap & G & P). apply get_setc_inv in G. destruct G as [(-> & x & Gx & ->)|(N & G)].
  - exfalso. eapply Hf; eauto.
  - split; auto. exists cs, snap. auto.
Qed.

Lemma u2n_ext s s' c : conss s' = conss s -> u2n s' c -> u2n s c.
Proof. unfold u2n, get. intros ->. auto. Qed.

Lemma wake_reflects n : reflects (wake n).
Proof.
  intros x snap. unfold wake. destruct (cphase x) as [| | | |[]| |] eqn:E; cbn; rewrite ?E; congruence.
Qed.

Lemma deliver_f_not r x snap : cphase (deliver_f r x) <> PU2 snap None.
Proof.
  unfold deliver_f. destruct (cphase x) as [| |s0 [|]| | | |] eqn:E; cbn; rewrite ?E; congruence.
Qed.

Lemma u2n_notify_one s c : u2n (notify_one s) c -> u2n s c.
Proof.
  unfold notify_one. destruct (waiters s) as [|w ws].
  - apply u2n_ext. reflexivity.
  - intros H. apply u2n_ext with (s := setc w (wake NOne) s) in H; [|reflexivity].
    eapply u2n_setc; eauto. apply wake_reflects.
Qed.

Lemma u2n_notify_waiters s c : u2n (notify_waiters s) c -> u2n s c.
Proof.
  intros (cs & snap & G & P). rewrite get_notify_waiters in G.
  destruct (get s c) as [x|] eqn:Gx; [|discriminate]. cbn in G. injection G as <-.
  exists x, snap. split; auto. destruct (in_dec Nat.eq_dec c (waiters s)); auto.
  apply wake_reflects in P. assumption.
Qed.

Lemma u2n_finish old s c0 f c :
  (forall x snap, cphase (f x) <> PU2 snap None) -> u2n (finish old c0 f s) c -> u2n s c /\ c <> c0.
Proof.
  intros Hf H. apply (u2n_setc_not s c0 f c Hf). unfold finish in H.
  destruct old as [| | | |[]| |]; auto.
  apply u2n_notify_one; auto.
Qed.

Lemma u2n_leave ho old s c0 f c :
  (forall x snap, cphase (f x) <> PU2 snap None) -> u2n (leave ho old c0 f s) c -> u2n s c /\ c <> c0.
Proof.
  intros Hf H. apply (u2n_finish old s c0 f c Hf). unfold leave in H.
  destruct old; auto; destruct ho; auto; apply u2n_notify_one; auto.
Qed.

Lemma u2n_deliver s c0 r c : u2n (deliver c0 r s) c -> u2n s c /\ c <> c0.
Proof. apply u2n_setc_not. intros x snap. apply deliver_f_not. Qed.

Lemma u2n_close l : forall s c,
  u2n (fold_left close_req l s) c -> u2n s c /\ forall m, ~ In (RPull c m) l.
Proof.
  induction l as [|r l IH]; intros s c H; cbn [fold_left] in H.
  - split; auto.
  - apply IH in H. destruct H as [H1 H2]. destruct r as [n|c0 m0|j|j|]; cbn [close_req] in H1;
      try (split; [assumption|intros m [E|I]; [discriminate|eapply H2; eauto]]).
    apply u2n_deliver in H1. destruct H1 as [H1 N]. split; auto.
    intros m [E|I]; [congruence|eapply H2; eauto].
Qed.

Lemma u2n_requeue j s c : u2n (requeue j s) c -> u2n s c.
Proof.
  unfold requeue. destruct (Nat.ltb 0 _); intros H.
  - apply u2n_notify_one in H. eapply u2n_ext; [|exact H]. reflexivity.
  - eapply u2n_ext; [|exact H]. reflexivity.
Qed.

Lemma u2n_arrive s k m c : u2n (set_conss (conss s ++ [new_cons k m]) s) c -> u2n s c.
Proof.
  intros (cs & snap & G & P). apply get_arrive_inv in G. destruct G as [G|(_ & -> & _)]; [|discriminate].
  exists cs, snap. auto.
Qed.

Lemma with_phase_not p f : (forall snap, p <> PU2 snap None) ->
  (forall x, cphase (f x) = p) -> forall (x : cons) snap, cphase (f x) <> PU2 snap None.
Proof. intros Hp Hf x snap. rewrite Hf. apply Hp. Qed.

Lemma swf_init K : swf K init.
Proof.
  split; cbn; try discriminate; try lia; auto.
  intros c (cs & snap & G & _). unfold get in G. cbn in G. destruct c; discriminate.
Qed.

Ltac u2_local H :=
  apply u2n_setc_not in H; [|intros ? ?; cbn; discriminate]; destruct H as [H _].

Lemma swf_step ho K s l s' : swf K s -> step ho K s l = Some s' -> swf K s'.
Proof.
  intros [X M U CL] H. apply step_sspec in H.
  destruct H as [c m rest Ex Em Ed|r rest Ex Em Ed Ip|n rest Ex Em Ed|c m rest Ex Em Ed
                |j rest Ex Em Ed|j rest Ex Em Ed|rest Ex Em Ed|Ed Ex
                |c cs o G P|c cs snap o G P Ex|c cs snap o G P Ex L|c cs snap G P|c cs snap G P
                |c cs snap k G P Ek|c cs snap k G P Ek|c cs snap G P Ep|c cs snap G P Ep Ec
                |c cs snap G P Ep Ec|c cs n G P Hn|c cs Ed G A Hk|r Ip Ex L|j Ex Ed|j Ex Ed|k m
                |c cs G A|c cs G A Ek];
    try (assert (Lr : length rest <= K) by (rewrite Em in M; cbn in M; lia)).
  - split; fr; try congruence; auto.
    intros c' H. apply u2n_deliver in H. destruct H as [H N]. apply u2n_ext with (s := s) in H; auto.
    destruct (U c' H) as (m' & I). rewrite Em in I. destruct I as [E|I]; [congruence|eauto].
  - split; fr; try congruence; auto.
    intros c' H. apply u2n_ext with (s := s) in H; auto.
    destruct (U c' H) as (m' & I). rewrite Em in I. destruct I as [E|I]; [subst r; discriminate|eauto].
  - split; fr; try congruence; auto.
    intros c' H. apply u2n_notify_one in H. apply u2n_ext with (s := s) in H; auto.
    destruct (U c' H) as (m' & I). rewrite Em in I. destruct I as [E|I]; [discriminate|eauto].
  - cbv zeta. split.
    + destruct (Nat.ltb 0 _); fr; congruence.
    + destruct (Nat.ltb 0 _); fr; auto.
    + intros c' H.
      assert (H' : u2n s c' /\ c' <> c).
      { destruct (Nat.ltb 0 _); [apply u2n_notify_one in H|]; apply u2n_deliver in H;
          destruct H as [H N]; (split; [|exact N]); eapply u2n_ext; [|exact H| |exact H]; reflexivity. }
      destruct H' as [H1 N]. destruct (U c' H1) as (m' & I). rewrite Em in I.
      assert (Hm : mailbox (if Nat.ltb 0 (backlog s - pull_count (backlog s) m)
         then notify_one (deliver c (RMsgs (pull_count (backlog s) m))
                (set_leased (leased s + pull_count (backlog s) m)
                   (set_backlog (backlog s - pull_count (backlog s) m) (set_mailbox rest s))))
         else deliver c (RMsgs (pull_count (backlog s) m))
                (set_leased (leased s + pull_count (backlog s) m)
                   (set_backlog (backlog s - pull_count (backlog s) m) (set_mailbox rest s)))) = rest)
        by (destruct (Nat.ltb 0 _); fr; reflexivity).
      rewrite Hm. destruct I as [E|I]; [congruence|eauto].
    + destruct (Nat.ltb 0 _); fr; auto.
  - split; fr; try congruence; auto.
    intros c' H. apply u2n_requeue in H. apply u2n_ext with (s := s) in H; auto.
    destruct (U c' H) as (m' & I). rewrite Em in I. destruct I as [E|I]; [discriminate|eauto].
  - split; fr; try congruence; auto.
    intros c' H. apply u2n_ext with (s := s) in H; auto.
    destruct (U c' H) as (m' & I). rewrite Em in I. destruct I as [E|I]; [discriminate|eauto].
  - split; fr; try congruence; auto.
    + intros c' H. apply u2n_notify_waiters in H. apply u2n_ext with (s := s) in H; auto.
      destruct (U c' H) as (m' & I). rewrite Em in I. destruct I as [E|I]; [discriminate|eauto].
    + unfold notify_waiters; cbn. rewrite CL, Ed. reflexivity.
  - split; fr; auto; try (cbn; lia).
    intros c' H. apply u2n_ext with (s := fold_left close_req (mailbox s) s) in H; auto.
    apply u2n_close in H. destruct H as [H1 H2]. destruct (U c' H1) as (m' & I). exfalso. eapply H2; eauto.
  - split; fr; auto. intros c' H. u2_local H. auto.
  - split; fr; auto. intros c' H. apply u2n_leave in H; [|intros ? ?; cbn; discriminate].
    destruct H as [H _]. auto.
  - split; fr; try congruence.
    + rewrite app_length. cbn. lia.
    + intros c' H. destruct (Nat.eq_dec c' c) as [->|N].
      * exists (cmax cs). apply in_or_app. right. left. reflexivity.
      * apply u2n_ext with (s := setc c (with_phase (PU2 snap None)) s) in H; auto.
        destruct H as (x & sn & Gx & Px). rewrite get_setc_other in Gx; auto.
        destruct (U c') as (m' & I); [exists x, sn; auto|]. exists m'. apply in_or_app. auto.
  - split; fr; auto. intros c' H. u2_local H. auto.
  - split; fr; auto. intros c' H. u2_local H. auto.
  - split; fr; auto. intros c' H. u2_local H. auto.
  - split; fr; auto. intros c' H. u2_local H. auto.
  - split; fr; auto. intros c' H.
    apply u2n_ext with (s := setc c (with_phase (PU0 true)) s) in H; auto. u2_local H. auto.
  - split; fr; auto. intros c' H. u2_local H. auto.
  - split; fr; auto. intros c' H.
    apply u2n_ext with (s := setc c (with_phase (PParked NNone)) s) in H; auto. u2_local H. auto.
  - split; fr; auto. intros c' H. u2_local H. auto.
  - split; fr; auto. intros c' H. apply u2n_leave in H; [|intros ? ?; cbn; discriminate].
    destruct H as [H _]. auto.
  - split; fr; try congruence.
    + rewrite app_length. cbn. lia.
    + intros c' H. apply u2n_ext with (s := s) in H; auto. destruct (U c' H) as (m' & I).
      exists m'. apply in_or_app. auto.
  - split; auto.
  - split; fr; auto. intros c' H. apply u2n_requeue in H. auto.
  - split; fr; auto. intros c' H. apply u2n_arrive in H. auto.
  - split; fr; auto. intros c' H. apply u2n_leave in H; [|intros ? ?; cbn; discriminate].
    destruct H as [H _]. auto.
  - split; fr; auto. intros c' H. apply u2n_leave in H; [|intros ? ?; cbn; discriminate].
    destruct H as [H _]. auto.
Qed.

Theorem actor_wf ho K s : reachable ho K s -> swf K s.
Proof. induction 1; [apply swf_init|eapply swf_step; eauto]. Qed.

Lemma csig_waiting_none cs : csig cs = NWaiting NNone <-> cphase cs = PParked NNone.
Proof. unfold csig. destruct (cphase cs) as [| | | |[]| |]; cbn; split; congruence. Qed.

(* A, in the vocabulary of tokio's Notify. *)
Theorem notify_wf_sig ho K s :
  reachable ho K s ->
  NoDup (waiters s) /\
  (forall c, In c (waiters s) <-> exists cs, get s c = Some cs /\ csig cs = NWaiting NNone) /\
  (permit s = true -> waiters s = []) /\
  (deleted s = false -> calls s = 0) /\
  length (mailbox s) <= K /\
  (exited s = true -> deleted s = true /\ mailbox s = []) /\
  (forall c cs snap, get s c = Some cs -> cphase cs = PU2 snap None ->
     exists m, In (RPull c m) (mailbox s)).
Proof.
  intros R. destruct (notify_wf ho K s R) as [A B C]. destruct (actor_wf ho K s R) as [X M U CL].
  repeat split; auto.
  - intros H. apply B in H. destruct H as (cs & G & P). exists cs. split; auto. apply csig_waiting_none; auto.
  - intros (cs & G & P). apply B. exists cs. split; auto. apply csig_waiting_none; auto.
  - intros Hd. rewrite CL, Hd. reflexivity.
  - apply X; auto.
  - apply X; auto.
  - intros c cs snap G P. apply U. exists cs, snap. auto.
Qed.

(* ------------------------------------------------------------------ *)
(* B. No lost wake-up                                                  *)

(* A request whose turn calls notify_one whenever it leaves a non-empty backlog. *)
Definition notifying (r : req) : bool :=
  match r with RPost _ | RPull _ _ | RNack _ => true | _ => false end.

(* A consumer that holds a notification: woken by notify_one and not yet run,
   or it has consumed one (poll returned Ready) and still owes its Pull. *)
Definition ctoken (p : phase) : bool :=
  match p with PParked NOne | PU0 true | PU1 _ true => true | _ => false end.

Definition tok (s : state) : Prop :=
  permit s = true \/
  (exists c cs, get s c = Some cs /\ ctoken (cphase cs) = true) \/
  (exists r, In r (mailbox s) /\ notifying r = true).

(* The exact inductive invariant. *)
Definition tokinv (s : state) : Prop := deleted s = false -> 0 < backlog s -> tok s.

Lemma tok_notify_one s : nwf s -> tok (notify_one s).
Proof.
  intros [A B C]. unfold notify_one. destruct (waiters s) as [|w ws] eqn:Ew.
  - left. reflexivity.
  - right. left. destruct (proj1 (B w)) as (cs & G & P); [left; auto|].
    exists w, (wake NOne cs). split.
    + ss. apply get_setc_same; auto.
    + unfold wake. rewrite P. reflexivity.
Qed.

Lemma tok_keep s s' :
  tok s ->
  (permit s = true -> permit s' = true) ->
  (forall c cs, get s c = Some cs -> ctoken (cphase cs) = true ->
                exists cs', get s' c = Some cs' /\ ctoken (cphase cs') = true) ->
  (forall r, In r (mailbox s) -> notifying r = true -> In r (mailbox s')) ->
  tok s'.
Proof.
  intros [T|[(c & cs & G & T)|(r & I & T)]] H1 H2 H3.
  - left. auto.
  - right. left. destruct (H2 c cs G T) as (cs' & G' & T'). eauto.
  - right. right. eauto.
Qed.

Lemma tok_keep_conss s s' :
  tok s -> (permit s = true -> permit s' = true) -> conss s' = conss s ->
  (forall r, In r (mailbox s) -> notifying r = true -> In r (mailbox s')) ->
  tok s'.
Proof.
  intros T H1 H2 H3. eapply tok_keep; eauto. intros c cs G Tc. exists cs. split; auto.
  unfold get in *. rewrite H2. assumption.
Qed.

(* updating a consumer that holds no token, or keeps it *)
Lemma ctok_setc s c f :
  (forall x, get s c = Some x -> ctoken (cphase x) = true -> ctoken (cphase (f x)) = true) ->
  forall c' cs, get s c' = Some cs -> ctoken (cphase cs) = true ->
                exists cs', get (setc c f s) c' = Some cs' /\ ctoken (cphase cs') = true.
Proof.
  intros Hf c' cs G T. destruct (Nat.eq_dec c' c) as [->|N].
  - exists (f cs). split; [apply get_setc_same; auto|auto].
  - exists cs. rewrite get_setc_other; auto.
Qed.

Lemma tokinv_requeue j s : nwf s -> 0 < backlog (requeue j s) -> tok (requeue j s).
Proof.
  intros W. unfold requeue. destruct (Nat.ltb 0 _) eqn:E.
  - intros _. apply tok_notify_one. eapply nwf_ext; eauto.
  - cbn. apply Nat.ltb_ge in E. lia.
Qed.

(* A consumer goes away.  Either it holds no notification (it does not owe a
   Pull, or ho = false and the step is not a bad drop), or it was woken and has
   not run (Drop for Notified forwards), or -- repaired code -- it waits for
   room in the mailbox and its guard calls notify_one. *)
Lemma tokinv_leave ho s c cs f :
  nwf s -> tokinv s -> get s c = Some cs ->
  cphase cs <> PU0 true ->
  (ho = true \/ owes cs && Nat.ltb 0 (backlog s) && negb (deleted s) = false) ->
  cphase (f cs) <> PParked NNone ->
  tokinv (leave ho (cphase cs) c f s).
Proof.
  intros W I G N0 NB Hf Hd Hb. fr. specialize (I Hd Hb).
  assert (L : (0 <? backlog s) = true) by (apply Nat.ltb_lt; auto).
  assert (OW : ho = false -> owes cs = false).
  { intros E. destruct NB as [NB|NB]; [congruence|].
    rewrite L, Hd in NB. cbn in NB. rewrite !andb_true_r in NB. exact NB. }
  assert (W1 : cphase cs <> PParked NNone -> nwf (setc c f s)).
  { intros Hn. apply nwf_setc_neutral; auto. intros x Gx. rewrite G in Gx. injection Gx as <-.
    split; intros Q; [contradiction|congruence]. }
  assert (KEEP : ctoken (cphase cs) = false ->
                 forall c' x, get s c' = Some x -> ctoken (cphase x) = true ->
                   exists x', get (setc c f s) c' = Some x' /\ ctoken (cphase x') = true).
  { intros NT. apply ctok_setc. intros x Gx T. rewrite G in Gx. injection Gx as <-. congruence. }
  unfold leave, owes in *.
  destruct (cphase cs) as [[]|sn o|sn r|sn|[]| |] eqn:P; cbn [finish];
    try (eapply tok_keep; [exact I|auto|apply KEEP; reflexivity|auto]; fail).
  - congruence.
  - destruct ho.
    + apply tok_notify_one. apply W1. discriminate.
    + pose proof (OW eq_refl) as E. cbn in E. subst o.
      eapply tok_keep; [exact I|auto|apply KEEP; reflexivity|auto].
  - apply tok_notify_one. apply W1. discriminate.
Qed.

Lemma tokinv_step ho K s l s' :
  nwf s -> swf K s -> tokinv s -> (ho = true \/ bad_drop s l = false) ->
  step ho K s l = Some s' -> tokinv s'.
Proof.
  intros W SW I NB H. apply step_sspec in H.
  destruct H as [c m rest Ex Em Ed|r rest Ex Em Ed Ip|n rest Ex Em Ed|c m rest Ex Em Ed
                |j rest Ex Em Ed|j rest Ex Em Ed|rest Ex Em Ed|Ed Ex
                |c cs o G P|c cs snap o G P Ex|c cs snap o G P Ex L|c cs snap G P|c cs snap G P
                |c cs snap k G P Ek|c cs snap k G P Ek|c cs snap G P Ep|c cs snap G P Ep Ec
                |c cs snap G P Ep Ec|c cs n G P Hn|c cs Ed G A Hk|r Ip Ex L|j Ex Ed|j Ex Ed|k m
                |c cs G A|c cs G A Ek].
  - intros Hd. fr. congruence.
  - intros Hd. fr. congruence.
  - intros _ _. apply tok_notify_one. eapply nwf_ext; eauto.
  - cbv zeta. intros _ Hb. destruct (Nat.ltb 0 _) eqn:E.
    + apply tok_notify_one. apply nwf_deliver. eapply nwf_ext; eauto.
    + fr. apply Nat.ltb_ge in E. lia.
  - intros _ Hb. apply tokinv_requeue; auto. eapply nwf_ext; eauto.
  - intros Hd Hb. fr. eapply tok_keep_conss; [apply I; auto|auto|auto|].
    fr. intros r Ir Nr. rewrite Em in Ir. destruct Ir as [<-|Ir]; [discriminate|auto].
  - intros Hd. fr. discriminate.
  - intros Hd. fr. congruence.
  - intros Hd Hb. fr. eapply tok_keep; [apply I; auto|auto| |auto].
    apply ctok_setc. intros x Gx T. rewrite G in Gx. injection Gx as <-. rewrite P in T.
    destruct o; cbn in *; congruence.
  - intros Hd. fr. destruct (sw_exit K s SW Ex). congruence.
  - intros Hd Hb. fr. destruct (I Hd Hb) as [T|[(c' & x & Gx & T)|(r & Ir & T)]].
    + left. assumption.
    + destruct (Nat.eq_dec c' c) as [->|N].
      * right. right. exists (RPull c (cmax cs)). split; auto. fr. apply in_or_app. right. left. auto.
      * right. left. exists c', x. fr. rewrite get_setc_other; auto.
    + right. right. exists r. split; auto. fr. apply in_or_app. auto.
  - intros Hd Hb. fr. eapply tok_keep; [apply I; auto|auto| |auto].
    apply ctok_setc. intros x Gx T. rewrite G in Gx. injection Gx as <-. rewrite P in T. discriminate.
  - intros Hd Hb. fr. eapply tok_keep; [apply I; auto|auto| |auto].
    apply ctok_setc. intros x Gx T. rewrite G in Gx. injection Gx as <-. rewrite P in T. discriminate.
  - intros Hd Hb. fr. eapply tok_keep; [apply I; auto|auto| |auto].
    apply ctok_setc. intros x Gx T. rewrite G in Gx. injection Gx as <-. rewrite P in T. discriminate.
  - intros Hd Hb. fr. eapply tok_keep; [apply I; auto|auto| |auto].
    apply ctok_setc. intros x Gx T. rewrite G in Gx. injection Gx as <-. rewrite P in T. discriminate.
  - intros _ _. right. left. exists c, (with_phase (PU0 true) cs). split; auto. fr.
    apply get_setc_same; auto.
  - intros _ _. right. left. exists c, (with_phase (PU0 true) cs). split; auto.
    apply get_setc_same; auto.
  - intros Hd Hb. fr. eapply tok_keep; [apply I; auto|auto| |auto]. fr.
    apply ctok_setc. intros x Gx T. rewrite G in Gx. injection Gx as <-. rewrite P in T. discriminate.
  - intros _ _. right. left. exists c, (with_phase (PU0 true) cs). split; auto.
    apply get_setc_same; auto.
  - intros Hd. fr. congruence.
  - intros Hd Hb. fr. eapply tok_keep_conss; [apply I; auto|auto|auto|]. fr. intros. apply in_or_app. auto.
  - assumption.
  - intros _ Hb. apply tokinv_requeue; auto.
  - intros Hd Hb. fr. eapply tok_keep; [apply I; auto|auto| |auto].
    intros c x Gx T. exists x. split; auto. apply get_arrive; auto.
  - apply tokinv_leave; auto; [intros E; rewrite E in A; discriminate| |discriminate].
    destruct NB as [NB|NB]; [left; exact NB|right].
    cbn in NB. unfold owing_at in NB. rewrite G in NB. exact NB.
  - apply tokinv_leave; auto; [intros E; rewrite E in A; discriminate| |discriminate].
    destruct NB as [NB|NB]; [left; exact NB|right].
    cbn in NB. unfold owing_at in NB. rewrite G in NB. exact NB.
Qed.

Lemma tokinv_init : tokinv init.
Proof. intros _ H. cbn in H. lia. Qed.

Lemma reachableR_reachable ho K s : reachableR ho K s -> reachable ho K s.
Proof. induction 1; [constructor|econstructor; eauto]. Qed.

(* Old code: the invariant holds as long as no owing consumer is dropped. *)
Lemma reachableR_tokinv ho K s : reachableR ho K s -> tokinv s.
Proof.
  induction 1 as [|s l s' R IH NB H]; [apply tokinv_init|].
  apply reachableR_reachable in R.
  eapply tokinv_step; eauto; [eapply notify_wf|eapply actor_wf]; eauto.
Qed.

(* Repaired code: the invariant holds in every reachable state. *)
Lemma reachable_tokinv K s : reachable true K s -> tokinv s.
Proof.
  induction 1 as [|s l s' R IH H]; [apply tokinv_init|].
  eapply tokinv_step; eauto; [eapply notify_wf|eapply actor_wf]; eauto.
Qed.

Definition is_parked (p : phase) : bool := match p with PParked _ => true | _ => false end.
Definition woken (p : phase) : bool :=
  match p with PParked NOne | PParked NAll => true | _ => false end.
Definition pulling (p : phase) : bool :=
  match p with PU0 _ | PU1 _ _ | PU2 _ _ => true | _ => false end.

(* "backlog > 0, somebody sleeps in the waiters list, nobody else is active and
   the mailbox holds nothing that notifies". *)
Definition lost_wakeup (s : state) : Prop :=
  deleted s = false /\ 0 < backlog s /\ permit s = false /\
  (exists c cs, get s c = Some cs /\ cphase cs = PParked NNone) /\
  (forall c cs, get s c = Some cs ->
     cphase cs = PParked NNone \/ alive (cphase cs) = false \/
     (exists snap r, cphase cs = PU2 snap (Some r)) \/ (exists snap, cphase cs = PU3 snap)) /\
  (forall r, In r (mailbox s) -> notifying r = false).

(* What the invariant says, in the three forms used below. *)
Lemma tokinv_exact s :
  tokinv s -> deleted s = false -> 0 < backlog s ->
  permit s = true \/
  (exists c cs, get s c = Some cs /\ (cphase cs = PParked NOne \/ owes cs = true)) \/
  (exists r, In r (mailbox s) /\ notifying r = true).
Proof.
  intros I Hd Hb. destruct (I Hd Hb) as [T|[(c & cs & G & T)|T]]; auto.
  right. left. exists c, cs. split; auto. unfold owes.
  destruct (cphase cs) as [[]|? []| | |[]| |]; cbn in T; try discriminate; auto.
Qed.

Lemma tokinv_five s :
  tokinv s -> deleted s = false -> 0 < backlog s ->
  (* i *)   permit s = true \/
  (* ii *)  (exists c cs, get s c = Some cs /\ (woken (cphase cs) = true \/ owes cs = true)) \/
  (* iii *) (exists c cs, get s c = Some cs /\ pulling (cphase cs) = true) \/
  (* iv *)  (exists r, In r (mailbox s) /\ notifying r = true) \/
  (* v *)   (forall c cs, get s c = Some cs -> is_parked (cphase cs) = false).
Proof.
  intros I Hd Hb. destruct (tokinv_exact s I Hd Hb) as [T|[(c & cs & G & T)|T]]; auto.
  right. left. exists c, cs. split; auto. destruct T as [T|T]; auto. left. rewrite T. reflexivity.
Qed.

Lemma tokinv_not_lost s : tokinv s -> ~ lost_wakeup s.
Proof.
  intros I (Hd & Hb & Hp & _ & Hc & Hm).
  destruct (tokinv_exact s I Hd Hb) as [T|[(c & cs & G & T)|(r & Ir & T)]].
  - congruence.
  - unfold owes in T.
    destruct (Hc c cs G) as [Q|[Q|[(sn & r & Q)|(sn & Q)]]].
    + rewrite Q in T. destruct T as [T|T]; cbn in T; discriminate.
    + destruct (cphase cs); cbn in Q, T; try discriminate; destruct T; discriminate.
    + rewrite Q in T. destruct T as [T|T]; cbn in T; discriminate.
    + rewrite Q in T. destruct T as [T|T]; cbn in T; discriminate.
  - rewrite (Hm r Ir) in T. discriminate.
Qed.

(* ---- the repaired code (ho = true): every reachable state ---- *)

(* The exact invariant: while the subscription exists and the backlog is
   non-empty, a notification is pending somewhere. *)
Theorem C06_no_lost_wakeup_exact K s :
  reachable true K s -> deleted s = false -> 0 < backlog s ->
  permit s = true \/
  (exists c cs, get s c = Some cs /\ (cphase cs = PParked NOne \/ owes cs = true)) \/
  (exists r, In r (mailbox s) /\ notifying r = true).
Proof. intros R. apply tokinv_exact. eapply reachable_tokinv; eauto. Qed.

(* The statement in the form (i)..(v). *)
Theorem C06_no_lost_wakeup K s :
  reachable true K s -> deleted s = false -> 0 < backlog s ->
  (* i *)   permit s = true \/
  (* ii *)  (exists c cs, get s c = Some cs /\ (woken (cphase cs) = true \/ owes cs = true)) \/
  (* iii *) (exists c cs, get s c = Some cs /\ pulling (cphase cs) = true) \/
  (* iv *)  (exists r, In r (mailbox s) /\ notifying r = true) \/
  (* v *)   (forall c cs, get s c = Some cs -> is_parked (cphase cs) = false).
Proof. intros R. apply tokinv_five. eapply reachable_tokinv; eauto. Qed.

Corollary C06_lost_wakeup_unreachable K s : reachable true K s -> ~ lost_wakeup s.
Proof. intros R. apply tokinv_not_lost. eapply reachable_tokinv; eauto. Qed.

(* ---- the old code (ho = false; the statements hold for both values): the
        same, provided no owing consumer is dropped ---- *)

Theorem C06_no_lost_wakeup_exact_old ho K s :
  reachableR ho K s -> deleted s = false -> 0 < backlog s ->
  permit s = true \/
  (exists c cs, get s c = Some cs /\ (cphase cs = PParked NOne \/ owes cs = true)) \/
  (exists r, In r (mailbox s) /\ notifying r = true).
Proof. intros R. apply tokinv_exact. eapply reachableR_tokinv; eauto. Qed.

Theorem C06_no_lost_wakeup_old ho K s :
  reachableR ho K s -> deleted s = false -> 0 < backlog s ->
  permit s = true \/
  (exists c cs, get s c = Some cs /\ (woken (cphase cs) = true \/ owes cs = true)) \/
  (exists c cs, get s c = Some cs /\ pulling (cphase cs) = true) \/
  (exists r, In r (mailbox s) /\ notifying r = true) \/
  (forall c cs, get s c = Some cs -> is_parked (cphase cs) = false).
Proof. intros R. apply tokinv_five. eapply reachableR_tokinv; eauto. Qed.

Corollary C06_lost_wakeup_unreachable_old ho K s : reachableR ho K s -> ~ lost_wakeup s.
Proof. intros R. apply tokinv_not_lost. eapply reachableR_tokinv; eauto. Qed.

(* The coarser exclusion "no drop of an owing consumer at all" is covered. *)
Definition bad_drop_strict (s : state) (l : label) : bool :=
  match l with
  | LCancel c | LTimeout c | LDelExit c => owing_at s c
  | _ => false
  end.

Inductive reachableS (ho : bool) (K : nat) : state -> Prop :=
| reachS_init : reachableS ho K init
| reachS_step s l s' :
    reachableS ho K s -> bad_drop_strict s l = false -> step ho K s l = Some s' -> reachableS ho K s'.

Lemma reachableS_R ho K s : reachableS ho K s -> reachableR ho K s.
Proof.
  induction 1 as [|s l s' R IH NB H]; [constructor|]. econstructor; eauto.
  destruct l; cbn in *; auto; rewrite NB; reflexivity.
Qed.

Lemma run_reachable ho K ls : forall s s', reachable ho K s -> run ho K s ls = Some s' -> reachable ho K s'.
Proof.
  induction ls as [|l ls IH]; intros s s' R H; cbn in H.
  - injection H as <-. assumption.
  - destruct (step ho K s l) as [s1|] eqn:E; [|discriminate]. eapply IH; [|exact H].
    econstructor; eauto.
Qed.

(* Cancelling a consumer that sleeps in the waiters list is harmless: it only
   leaves the list. *)
Theorem C06_cancel_parked_ok ho K s c cs s' :
  reachable ho K s -> tokinv s -> get s c = Some cs -> cphase cs = PParked NNone ->
  step ho K s (LCancel c) = Some s' ->
  tokinv s' /\ waiters s' = remove Nat.eq_dec c (waiters s).
Proof.
  intros R I G P H. split.
  - apply (tokinv_step ho K s (LCancel c) s' (notify_wf ho K s R) (actor_wf ho K s R) I); [|exact H].
    right. cbn. unfold owing_at, owes. rewrite G, P. reflexivity.
  - cbn in H. unfold cancel in H. rewrite G, P in H. cbn in H. injection H as <-. reflexivity.
Qed.

(* Cancelling a consumer that was woken by notify_one and has not run yet
   forwards the notification (Drop for Notified): afterwards the permit is set
   or the next-oldest waiter is woken. *)
Theorem C06_cancel_woken_forwarded ho K s c cs s' :
  reachable ho K s -> tokinv s -> get s c = Some cs -> cphase cs = PParked NOne ->
  step ho K s (LCancel c) = Some s' ->
  tokinv s' /\
  ((waiters s = [] /\ permit s' = true) \/
   (exists w ws cw, waiters s = w :: ws /\ w <> c /\ waiters s' = ws /\
                    get s' w = Some cw /\ cphase cw = PParked NOne)).
Proof.
  intros R I G P H. pose proof (notify_wf ho K s R) as W. split.
  - apply (tokinv_step ho K s (LCancel c) s' W (actor_wf ho K s R) I); [|exact H].
    right. cbn. unfold owing_at, owes. rewrite G, P. reflexivity.
  - cbn in H. unfold cancel in H. rewrite G, P in H. cbn [suspended leave finish] in H. injection H as <-.
    unfold notify_one. cbn [waiters setc set_conss]. destruct (waiters s) as [|w ws] eqn:Ew.
    + left. split; reflexivity.
    + right. destruct (proj1 (nw_wait s W w)) as (cw & Gw & Pw); [rewrite Ew; left; auto|].
      assert (N : w <> c) by (intros ->; congruence).
      exists w, ws, (wake NOne cw). repeat split; auto.
      * ss. rewrite get_setc_same with (cs := cw); auto. rewrite get_setc_other; auto.
      * unfold wake. rewrite Pw. reflexivity.
Qed.

(* C. Quiescence *)
Lemma quiescent_turn ho K s : quiescent ho K s -> turn s = None.
Proof. intros Q. apply (Q LTurn). reflexivity. Qed.
Lemma quiescent_cons ho K s c : quiescent ho K s -> cons_step ho K s c = None.
Proof. intros Q. apply (Q (LCons c)). reflexivity. Qed.
Lemma quiescent_exit ho K s : quiescent ho K s -> actor_exit s = None.
Proof. intros Q. apply (Q LExit). reflexivity. Qed.
Lemma quiescent_delexit ho K s c : quiescent ho K s -> del_exit ho s c = None.
Proof. intros Q. apply (Q (LDelExit c)). reflexivity. Qed.

Lemma quiescent_tokinv ho K s :
  1 <= K -> reachable ho K s -> tokinv s -> quiescent ho K s -> deleted s = false -> 0 < backlog s ->
  permit s = true /\ waiters s = [] /\
  forall c cs, get s c = Some cs -> is_parked (cphase cs) = false.
Proof.
  intros HK R' I Q Hd Hb.
  pose proof (notify_wf ho K s R') as W. pose proof (actor_wf ho K s R') as SW.
  assert (Ex : exited s = false).
  { destruct (exited s) eqn:E; auto. destruct (sw_exit K s SW E). congruence. }
  assert (Em : mailbox s = []).
  { pose proof (quiescent_turn ho K s Q) as T. unfold turn in T. rewrite Ex in T.
    destruct (mailbox s); [reflexivity|discriminate]. }
  assert (Hp : permit s = true).
  { destruct (I Hd Hb) as [T|[(c & cs & G & T)|(r & Ir & _)]]; auto.
    - exfalso. pose proof (quiescent_cons ho K s c Q) as C. unfold cons_step in C. rewrite G in C.
      destruct (cphase cs) as [[]|sn []| | |[]| |]; cbn in T; try discriminate.
      rewrite Ex, Em in C. cbn [length] in C. destruct (Nat.ltb_spec 0 K); [discriminate|lia].
    - rewrite Em in Ir. destruct Ir. }
  pose proof (nw_permit s W Hp) as Ew. repeat split; auto.
  intros c cs G. destruct (cphase cs) as [| | | |n| |] eqn:P; auto. exfalso.
  destruct n.
  - assert (In c (waiters s)) as Hin by (apply (nw_wait s W); exists cs; auto).
    rewrite Ew in Hin. destruct Hin.
  - pose proof (quiescent_cons ho K s c Q) as C. unfold cons_step in C. rewrite G, P in C. discriminate.
  - pose proof (quiescent_cons ho K s c Q) as C. unfold cons_step in C. rewrite G, P in C. discriminate.
Qed.

(* Repaired code: when everything internal has come to rest and messages are
   left, the permit is stored and nobody sleeps -- in EVERY reachable state. *)
Theorem C06_quiescent K s :
  1 <= K -> reachable true K s -> quiescent true K s -> deleted s = false -> 0 < backlog s ->
  permit s = true /\ waiters s = [] /\
  forall c cs, get s c = Some cs -> is_parked (cphase cs) = false.
Proof.
  intros HK R. apply quiescent_tokinv; auto. eapply reachable_tokinv; eauto.
Qed.

(* Old code: the same without the losing drops. *)
Theorem C06_quiescent_old ho K s :
  1 <= K -> reachableR ho K s -> quiescent ho K s -> deleted s = false -> 0 < backlog s ->
  permit s = true /\ waiters s = [] /\
  forall c cs, get s c = Some cs -> is_parked (cphase cs) = false.
Proof.
  intros HK R. apply quiescent_tokinv; auto.
  - eapply reachableR_reachable; eauto.
  - eapply reachableR_tokinv; eauto.
Qed.

(* ------------------------------------------------------------------ *)
(* Per-consumer invariants: a generic preservation lemma               *)

Definition allc (P : nat -> cons -> Prop) (s : state) : Prop :=
  forall c cs, get s c = Some cs -> P c cs.

Section AllC.
  Variable P : nat -> cons -> Prop.
  Variable l : label.
  Hypothesis H_live : forall c cs p,
    P c cs -> alive (cphase cs) = true -> alive p = true -> P c (with_phase p cs).
  Hypothesis H_got : forall c cs k, P c cs -> P c (add_got k cs).
  Hypothesis H_closed : forall c cs,
    P c cs -> alive (cphase cs) = true -> P c (with_phase (PDone (closed_outcome (ckind cs))) cs).
  Hypothesis H_msgs : forall c cs k,
    P c cs -> alive (cphase cs) = true -> ckind cs = Unary ->
    P c (with_phase (PDone (OMessages (S k))) cs).
  Hypothesis H_nf : forall c cs,
    P c cs -> alive (cphase cs) = true -> P c (with_phase (PDone ONotFound) cs).
  Hypothesis H_gone : forall c cs,
    P c cs -> alive (cphase cs) = true -> P c (with_phase PGone cs).
  Hypothesis H_timeout : forall c cs,
    l = LTimeout c -> P c cs -> alive (cphase cs) = true -> ckind cs = Unary ->
    P c (with_timed (with_phase (PDone OEmpty) cs)).
  Hypothesis H_new : forall c k m, P c (new_cons k m).

  Lemma allc_setc s c f :
    allc P s -> (forall cs, get s c = Some cs -> P c cs -> P c (f cs)) -> allc P (setc c f s).
  Proof.
    intros A Hf c' cs' G. apply get_setc_inv in G. destruct G as [(-> & x & Gx & ->)|(N & G)]; auto.
  Qed.

  Lemma allc_ext s s' : conss s' = conss s -> allc P s -> allc P s'.
  Proof. intros E A c cs G. apply A. unfold get in *. rewrite <- E. assumption. Qed.

  Lemma P_wake c cs n : P c cs -> P c (wake n cs).
  Proof.
    intros Hc. unfold wake. destruct (cphase cs) as [| | | |[]| |] eqn:E; auto.
    apply H_live; auto. rewrite E. reflexivity.
  Qed.

  Lemma P_deliver c cs r : P c cs -> P c (deliver_f r cs).
  Proof.
    intros Hc. unfold deliver_f. destruct (cphase cs) as [| |sn [|]| | | |] eqn:E; auto.
    apply H_live; auto. rewrite E. reflexivity.
  Qed.

  Lemma allc_notify_one s : allc P s -> allc P (notify_one s).
  Proof.
    intros A. unfold notify_one. destruct (waiters s) as [|w ws].
    - eapply allc_ext; [|eassumption]; reflexivity.
    - eapply allc_ext with (s := setc w (wake NOne) s); [reflexivity|].
      apply allc_setc; auto. intros cs _. apply P_wake.
  Qed.

  Lemma allc_notify_waiters s : allc P s -> allc P (notify_waiters s).
  Proof.
    intros A c cs G. rewrite get_notify_waiters in G.
    destruct (get s c) as [x|] eqn:Gx; [|discriminate]. cbn in G. injection G as <-.
    destruct (in_dec Nat.eq_dec c (waiters s)); auto. apply P_wake. auto.
  Qed.

  Lemma allc_finish old s c f :
    allc P s -> (forall cs, get s c = Some cs -> P c cs -> P c (f cs)) -> allc P (finish old c f s).
  Proof.
    intros A Hf. pose proof (allc_setc s c f A Hf) as A1. unfold finish.
    destruct old as [| | | |[]| |]; auto.
    apply allc_notify_one. assumption.
  Qed.

  Lemma allc_leave ho old s c f :
    allc P s -> (forall cs, get s c = Some cs -> P c cs -> P c (f cs)) -> allc P (leave ho old c f s).
  Proof.
    intros A Hf. pose proof (allc_finish old s c f A Hf) as A1. unfold leave.
    destruct old; auto. destruct ho; auto. apply allc_notify_one; auto.
  Qed.

  Lemma allc_deliver s c r : allc P s -> allc P (deliver c r s).
  Proof. intros A. apply allc_setc; auto. intros cs _. apply P_deliver. Qed.

  Lemma allc_close rs : forall s, allc P s -> allc P (fold_left close_req rs s).
  Proof.
    induction rs as [|r rs IH]; intros s A; cbn [fold_left]; auto. apply IH.
    destruct r; cbn [close_req]; auto. apply allc_deliver. assumption.
  Qed.

  Lemma allc_requeue j s : allc P s -> allc P (requeue j s).
  Proof.
    intros A. unfold requeue. destruct (Nat.ltb 0 _).
    - apply allc_notify_one. eapply allc_ext; [|eassumption]; reflexivity.
    - eapply allc_ext; [|eassumption]; reflexivity.
  Qed.

  Lemma allc_step ho K s s' : step ho K s l = Some s' -> allc P s -> allc P s'.
  Proof.
    intros H A. apply step_sspec in H.
    destruct H as [c m rest Ex Em Ed|r rest Ex Em Ed Ip|n rest Ex Em Ed|c m rest Ex Em Ed
                  |j rest Ex Em Ed|j rest Ex Em Ed|rest Ex Em Ed|Ed Ex
                  |c cs o G Ph|c cs snap o G Ph Ex|c cs snap o G Ph Ex L|c cs snap G Ph|c cs snap G Ph
                  |c cs snap k G Ph Ek|c cs snap k G Ph Ek|c cs snap G Ph Ep|c cs snap G Ph Ep Ec
                  |c cs snap G Ph Ep Ec|c cs n G Ph Hn|c cs Ed G Al Hk|r Ip Ex L|j Ex Ed|j Ex Ed|k m
                  |c cs G Al|c cs G Al Ek].
    - apply allc_deliver. eapply allc_ext; [|eassumption]; reflexivity.
    - eapply allc_ext; [|eassumption]; reflexivity.
    - apply allc_notify_one. eapply allc_ext; [|eassumption]; reflexivity.
    - cbv zeta.
      assert (allc P (deliver c (RMsgs (pull_count (backlog s) m))
         (set_leased (leased s + pull_count (backlog s) m)
            (set_backlog (backlog s - pull_count (backlog s) m) (set_mailbox rest s))))).
      { apply allc_deliver. eapply allc_ext; [|eassumption]; reflexivity. }
      destruct (Nat.ltb 0 _); auto. apply allc_notify_one; auto.
    - apply allc_requeue. eapply allc_ext; [|eassumption]; reflexivity.
    - eapply allc_ext; [|eassumption]; reflexivity.
    - apply allc_notify_waiters. eapply allc_ext; [|eassumption]; reflexivity.
    - eapply allc_ext with (s := fold_left close_req (mailbox s) s); [reflexivity|].
      apply allc_close. assumption.
    - apply allc_setc; auto. intros x Gx Px. rewrite G in Gx. injection Gx as <-.
      apply H_live; auto. rewrite Ph. reflexivity.
    - apply allc_leave; auto. intros x Gx Px. rewrite G in Gx. injection Gx as <-.
      apply H_closed; auto. rewrite Ph. reflexivity.
    - eapply allc_ext with (s := setc c (with_phase (PU2 snap None)) s); [reflexivity|].
      apply allc_setc; auto. intros x Gx Px. rewrite G in Gx. injection Gx as <-.
      apply H_live; auto. rewrite Ph. reflexivity.
    - apply allc_setc; auto. intros x Gx Px. rewrite G in Gx. injection Gx as <-.
      apply H_closed; auto. rewrite Ph. reflexivity.
    - apply allc_setc; auto. intros x Gx Px. rewrite G in Gx. injection Gx as <-.
      apply H_live; auto. rewrite Ph. reflexivity.
    - apply allc_setc; auto. intros x Gx Px. rewrite G in Gx. injection Gx as <-.
      apply H_got. apply H_msgs; auto. rewrite Ph. reflexivity.
    - apply allc_setc; auto. intros x Gx Px. rewrite G in Gx. injection Gx as <-.
      apply H_got. apply H_live; auto. rewrite Ph. reflexivity.
    - eapply allc_ext with (s := setc c (with_phase (PU0 true)) s); [reflexivity|].
      apply allc_setc; auto. intros x Gx Px. rewrite G in Gx. injection Gx as <-.
      apply H_live; auto. rewrite Ph. reflexivity.
    - apply allc_setc; auto. intros x Gx Px. rewrite G in Gx. injection Gx as <-.
      apply H_live; auto. rewrite Ph. reflexivity.
    - eapply allc_ext with (s := setc c (with_phase (PParked NNone)) s); [reflexivity|].
      apply allc_setc; auto. intros x Gx Px. rewrite G in Gx. injection Gx as <-.
      apply H_live; auto. rewrite Ph. reflexivity.
    - apply allc_setc; auto. intros x Gx Px. rewrite G in Gx. injection Gx as <-.
      apply H_live; auto. rewrite Ph. reflexivity.
    - apply suspended_alive in Al. apply allc_leave; auto.
      intros x Gx Px. rewrite G in Gx. injection Gx as <-. auto.
    - eapply allc_ext; [|eassumption]; reflexivity.
    - assumption.
    - apply allc_requeue. assumption.
    - intros c cs G. apply get_arrive_inv in G. destruct G as [G|(_ & -> & _)]; auto.
    - apply suspended_alive in Al. apply allc_leave; auto.
      intros x Gx Px. rewrite G in Gx. injection Gx as <-. auto.
    - apply suspended_alive in Al. apply allc_leave; auto.
      intros x Gx Px. rewrite G in Gx. injection Gx as <-. auto.
  Qed.
End AllC.

Lemma allc_init P : allc P init.
Proof. intros c cs G. unfold get in G. cbn in G. destruct c; discriminate. Qed.

(* ------------------------------------------------------------------ *)
(* E. Outcomes: the empty rule                                         *)

Definition cinv (c : nat) (cs : cons) : Prop :=
  match cphase cs with
  | PDone (OMessages k) => ckind cs = Unary /\ 0 < k
  | PDone OEmpty => ckind cs = Unary /\ ctimed cs = true
  | PDone OError => ckind cs = Unary
  | _ => True
  end /\ (ctimed cs = true -> cphase cs = PDone OEmpty).

Lemma cinv_step ho K s l s' : step ho K s l = Some s' -> allc cinv s -> allc cinv s'.
Proof.
  apply allc_step; unfold cinv.
  - intros c cs p [A B] Al Ap. cbn. split.
    + destruct p as [| | | | |[]|]; auto; discriminate.
    + intros T. rewrite (B T) in Al. discriminate.
  - intros c cs k H. exact H.
  - intros c cs [A B] Al. cbn. split.
    + destruct (ckind cs); cbn; auto.
    + intros T. rewrite (B T) in Al. discriminate.
  - intros c cs k [A B] Al Ek. cbn. split; [split; [auto|lia]|].
    intros T. rewrite (B T) in Al. discriminate.
  - intros c cs [A B] Al. cbn. split; auto. intros T. rewrite (B T) in Al. discriminate.
  - intros c cs [A B] Al. cbn. split; auto. intros T. rewrite (B T) in Al. discriminate.
  - intros c cs _ [A B] Al Ek. cbn. auto.
  - intros c k m. cbn. split; auto. discriminate.
Qed.

Theorem outcomes_wf ho K s : reachable ho K s -> allc cinv s.
Proof. induction 1; [apply allc_init|eapply cinv_step; eauto]. Qed.

Lemma run_snoc ho K ls : forall s l,
  run ho K s (ls ++ [l]) = match run ho K s ls with Some s1 => step ho K s1 l | None => None end.
Proof.
  induction ls as [|x ls IH]; intros s l; cbn.
  - destruct (step ho K s l); reflexivity.
  - destruct (step ho K s x); auto.
Qed.

Definition timed_hist (ls : list label) (c : nat) (cs : cons) : Prop :=
  ctimed cs = true -> In (LTimeout c) ls.

Lemma timed_hist_run ho K ls : forall s, run ho K init ls = Some s -> allc (timed_hist ls) s.
Proof.
  induction ls as [|l ls IH] using rev_ind; intros s H.
  - cbn in H. injection H as <-. apply allc_init.
  - rewrite run_snoc in H. destruct (run ho K init ls) as [s1|] eqn:E; [|discriminate].
    specialize (IH s1 eq_refl).
    assert (A : allc (timed_hist (ls ++ [l])) s1).
    { intros c cs G T. apply in_or_app. left. apply (IH c cs G T). }
    revert A. apply (allc_step (timed_hist (ls ++ [l])) l) with (ho := ho) (K := K); auto; unfold timed_hist; cbn; auto.
    + intros c cs -> _ _ _ _. apply in_or_app. right. left. reflexivity.
    + intros; discriminate.
Qed.

(* A blocking Pull answers "no messages" only because its 300 s timer fired. *)
Theorem C15_empty_rule ho K ls s c cs :
  run ho K init ls = Some s -> get s c = Some cs -> cphase cs = PDone OEmpty ->
  ckind cs = Unary /\ In (LTimeout c) ls.
Proof.
  intros H G Ph.
  assert (R : reachable ho K s) by (eapply run_reachable; eauto; constructor).
  destruct (outcomes_wf ho K s R c cs G) as [A B]. rewrite Ph in A. destruct A as [A1 A2].
  split; auto. apply (timed_hist_run ho K ls s H c cs G A2).
Qed.

(* Streams never produce an empty answer or an error other than NotFound, and
   a Messages answer is never empty. *)
Theorem C15_outcomes ho K s c cs o :
  reachable ho K s -> get s c = Some cs -> cphase cs = PDone o ->
  match o with
  | OMessages k => ckind cs = Unary /\ 0 < k
  | OEmpty => ckind cs = Unary /\ ctimed cs = true
  | OError => ckind cs = Unary
  | ONotFound => True
  end.
Proof.
  intros R G Ph. destruct (outcomes_wf ho K s R c cs G) as [A _]. rewrite Ph in A.
  destruct o; auto.
Qed.

(* An empty reply makes the consumer go on to poll its signal; it does not finish. *)
Theorem C15_empty_reply_continues ho K s c cs snap s' :
  get s c = Some cs -> cphase cs = PU2 snap (Some (RMsgs 0)) ->
  step ho K s (LCons c) = Some s' ->
  get s' c = Some (with_phase (PU3 snap) cs).
Proof.
  intros G Ph H. cbn in H. unfold cons_step in H. rewrite G, Ph in H. injection H as <-.
  apply get_setc_same. assumption.
Qed.

(* ------------------------------------------------------------------ *)
(* D. Release on deletion                                              *)

Definition released (cs : cons) : Prop :=
  cphase cs = PGone \/
  exists o, cphase cs = PDone o /\
    match ckind cs with
    | Stream => o = ONotFound
    | Unary => o = ONotFound \/ o = OError \/ (exists k, 0 < k /\ o = OMessages k) \/
               (o = OEmpty /\ ctimed cs = true)
    end.

Lemma step_deleted ho K s l s' : step ho K s l = Some s' -> deleted s = true -> deleted s' = true.
Proof.
  intros H D. apply step_sspec in H. destruct H; try (cbv zeta; destruct (Nat.ltb 0 _)); fr; auto; congruence.
Qed.

Theorem C12_release ho K s :
  reachable ho K s -> deleted s = true -> quiescent ho K s ->
  exited s = true /\ mailbox s = [] /\ waiters s = [] /\
  forall c cs, get s c = Some cs -> released cs.
Proof.
  intros R Hd Q. pose proof (notify_wf ho K s R) as W. pose proof (actor_wf ho K s R) as SW.
  pose proof (outcomes_wf ho K s R) as O.
  assert (Ex : exited s = true).
  { pose proof (quiescent_exit ho K s Q) as E. unfold actor_exit in E. rewrite Hd in E.
    destruct (exited s); [reflexivity|discriminate]. }
  destruct (sw_exit K s SW Ex) as [_ Em].
  assert (Rel : forall c cs, get s c = Some cs -> released cs).
  { intros c cs G. pose proof (quiescent_cons ho K s c Q) as C. pose proof (quiescent_delexit ho K s c Q) as D.
    unfold cons_step in C. unfold del_exit in D. rewrite G in C. rewrite Hd, G in D. cbn [negb] in D.
    destruct (cphase cs) as [o|sn o|sn [[[|k]|]|]|sn|n|o|] eqn:Ph; try discriminate.
    - rewrite Ex in C. discriminate.
    - destruct (ckind cs); discriminate.
    - exfalso. destruct (sw_u2 K s SW c) as (m & I); [exists cs, sn; auto|]. rewrite Em in I. destruct I.
    - destruct (poll_init (permit s) (calls s) sn); discriminate.
    - destruct n; try discriminate. destruct (ckind cs); discriminate.
    - right. exists o. split; auto. destruct (O c cs G) as [A B]. rewrite Ph in A.
      destruct (ckind cs) eqn:Ek.
      + destruct o as [k| | |]; auto.
        * right. right. left. exists k. destruct A. auto.
        * right. right. right. destruct A. auto.
      + destruct o as [k| | |]; auto; try (destruct A; discriminate); discriminate.
    - left. exact Ph. }
  repeat split; auto.
  destruct (waiters s) as [|w ws] eqn:Ew; auto. exfalso.
  destruct (proj1 (nw_wait s W w)) as (cs & G & Ph); [rewrite Ew; left; auto|].
  destruct (Rel w cs G) as [Q1|(o & Q1 & _)]; congruence.
Qed.

(* No hang: potential of consumer c in a deleted subscription *)

Fixpoint sumf (g : cons -> nat) (l : list cons) : nat :=
  match l with [] => 0 | x :: t => g x + sumf g t end.

Lemma sumf_upd g l : forall c f cs,
  nth_error l c = Some cs -> sumf g (upd l c f) + g cs = sumf g l + g (f cs).
Proof.
  induction l as [|x t IH]; intros [|c] f cs E; cbn in *; try discriminate.
  - injection E as ->. lia.
  - specialize (IH c f cs E). lia.
Qed.

Lemma sumf_upd_none g l : forall c f, nth_error l c = None -> sumf g (upd l c f) = sumf g l.
Proof.
  induction l as [|x t IH]; intros [|c] f E; cbn in *; try discriminate; auto.
Qed.

Lemma sumf_app g l1 l2 : sumf g (l1 ++ l2) = sumf g l1 + sumf g l2.
Proof. induction l1; cbn; lia. Qed.

Definition b2n (b : bool) : nat := if b then 1 else 0.

Definition rank (p : phase) : nat :=
  match p with
  | PU0 _ => 8 | PU1 _ _ => 7 | PU2 _ _ => 5 | PU3 _ => 4 | PParked _ => 3
  | PDone _ | PGone => 0
  end.

Definition stale (calls snap : nat) : nat := if Nat.eqb snap calls then 0 else 1.

(* pending wake-ups held by a consumer: woken and not yet run, or its Init
   signal is older than the last notify_waiters *)
Definition ctk (calls : nat) (p : phase) : nat :=
  match p with
  | PParked NOne | PParked NAll => 1
  | PU1 sn _ | PU2 sn _ | PU3 sn => stale calls sn
  | _ => 0
  end.

(* Weight of a consumer: the steps it can still take by itself, one round
   (6) per wake-up it holds.  The ranks satisfy U0 > U1 > 6 (a consumer dropped
   at U1 pays for the notify_one of its guard) and Parked + 6 > U0. *)
Definition cw (calls : nat) (cs : cons) : nat := rank (cphase cs) + 6 * ctk calls (cphase cs).

Definition isOne (cs : cons) : nat :=
  match cphase cs with PParked NOne => 1 | _ => 0 end.

(* Shared notifications (permit / woken waiter) a consumer may still RELEASE to
   the others.  Old code: only a consumer woken by notify_one that is dropped
   before it runs (forwarding).  Repaired code: in addition every consumer that
   can still reach U1 without consuming a shared notification, because it may
   be dropped there and its guard then calls notify_one. *)
Definition gen (ho : bool) (calls : nat) (cs : cons) : nat :=
  if ho then
    match cphase cs with
    | PU0 _ | PU1 _ _ => 1
    | PU2 sn _ | PU3 sn => stale calls sn
    | PParked NOne | PParked NAll => 1
    | _ => 0
    end
  else isOne cs.

(* What is left of the weight of consumer c once the part that is already
   counted in [gen] is taken out (the subtraction is exact: [own_gen]). *)
Definition own (ho : bool) (calls : nat) (cs : cons) : nat := cw calls cs - 6 * gen ho calls cs.

Lemma own_gen ho calls cs : own ho calls cs + 6 * gen ho calls cs = cw calls cs.
Proof.
  unfold own, gen, cw, isOne.
  destruct ho; destruct (cphase cs) as [| | | |[]| |]; cbn [rank ctk]; unfold stale;
    try destruct (Nat.eqb _ _); lia.
Qed.

Lemma gen_le1 ho calls cs : gen ho calls cs <= 1.
Proof.
  unfold gen, isOne, stale.
  destruct ho; destruct (cphase cs) as [| | | |[]| |]; try destruct (Nat.eqb _ _); lia.
Qed.

Definition ownc (ho : bool) (s : state) (c : nat) : nat :=
  match get s c with Some cs => own ho (calls s) cs | None => 8 end.

Definition ntk (ho : bool) (s : state) : nat := b2n (permit s) + sumf (gen ho (calls s)) (conss s).

(* The bound: own steps consumer c can still take once the subscription is
   deleted.  By [own_gen] this is
     cw(c) + 6 * (permit + sum over the OTHER consumers of gen). *)
Definition hang_bound (ho : bool) (s : state) (c : nat) : nat := ownc ho s c + 6 * ntk ho s.

Lemma ntk_setc ho s c f cs :
  get s c = Some cs ->
  ntk ho (setc c f s) + gen ho (calls s) cs = ntk ho s + gen ho (calls s) (f cs).
Proof.
  intros G. unfold ntk. cbn. pose proof (sumf_upd (gen ho (calls s)) (conss s) c f cs G). lia.
Qed.

Lemma gen_wake_le ho calls cs : gen ho calls (wake NOne cs) <= gen ho calls cs + 1.
Proof.
  unfold wake, gen, isOne.
  destruct ho; destruct (cphase cs) as [| | | |[]| |] eqn:E; cbn [cphase with_phase]; rewrite ?E; lia.
Qed.

Lemma ntk_notify_one ho s : ntk ho (notify_one s) <= ntk ho s + 1.
Proof.
  unfold notify_one. destruct (waiters s) as [|w ws].
  - unfold ntk. cbn. destruct (permit s); cbn; lia.
  - change (ntk ho (set_waiters ws (setc w (wake NOne) s))) with (ntk ho (setc w (wake NOne) s)).
    destruct (get s w) as [cs|] eqn:G.
    + pose proof (ntk_setc ho s w (wake NOne) cs G). pose proof (gen_wake_le ho (calls s) cs). lia.
    + unfold ntk. cbn. rewrite sumf_upd_none; auto. lia.
Qed.

Lemma own_wake ho calls cs : own ho calls (wake NOne cs) = own ho calls cs.
Proof.
  unfold wake, own, cw, gen, isOne.
  destruct ho; destruct (cphase cs) as [| | | |[]| |] eqn:E; cbn [cphase with_phase]; rewrite ?E; reflexivity.
Qed.

Lemma own_deliver ho calls r cs : own ho calls (deliver_f r cs) = own ho calls cs.
Proof.
  unfold deliver_f, own, cw, gen, isOne.
  destruct ho; destruct (cphase cs) as [| |sn [|]| | | |] eqn:E; cbn [cphase with_phase]; rewrite ?E; reflexivity.
Qed.

Lemma gen_deliver ho calls r cs : gen ho calls (deliver_f r cs) = gen ho calls cs.
Proof.
  unfold deliver_f, gen, isOne.
  destruct ho; destruct (cphase cs) as [| |sn [|]| | | |] eqn:E; cbn [cphase with_phase]; rewrite ?E; reflexivity.
Qed.

Lemma ownc_setc_other ho s c0 f c : c <> c0 -> ownc ho (setc c0 f s) c = ownc ho s c.
Proof. intros N. unfold ownc. rewrite get_setc_other; auto. Qed.

Lemma ownc_setc_same ho s c f cs :
  get s c = Some cs -> ownc ho (setc c f s) c = own ho (calls s) (f cs).
Proof. intros G. unfold ownc. rewrite (get_setc_same s c f cs G). reflexivity. Qed.

Lemma ownc_setc_inv ho s c0 f c :
  (forall x, own ho (calls s) (f x) = own ho (calls s) x) ->
  ownc ho (setc c0 f s) c = ownc ho s c.
Proof.
  intros Hf. destruct (Nat.eq_dec c c0) as [->|N]; [|apply ownc_setc_other; auto].
  unfold ownc. destruct (get s c0) as [cs|] eqn:G.
  - rewrite (get_setc_same s c0 f cs G). apply Hf.
  - unfold get, setc in *; cbn. rewrite nth_upd_same, G. reflexivity.
Qed.

Lemma ownc_ext ho s s' c : conss s' = conss s -> calls s' = calls s -> ownc ho s' c = ownc ho s c.
Proof. unfold ownc, get. intros -> ->. reflexivity. Qed.

Lemma ownc_notify_one ho s c : ownc ho (notify_one s) c = ownc ho s c.
Proof.
  unfold notify_one. destruct (waiters s) as [|w ws].
  - apply ownc_ext; reflexivity.
  - rewrite ownc_ext with (s := setc w (wake NOne) s); try reflexivity.
    apply ownc_setc_inv. intros x. apply own_wake.
Qed.

Lemma ownc_deliver ho s c0 r c : ownc ho (deliver c0 r s) c = ownc ho s c.
Proof. apply ownc_setc_inv. intros x. apply own_deliver. Qed.

Lemma ownc_close ho l : forall s c, ownc ho (fold_left close_req l s) c = ownc ho s c.
Proof.
  induction l as [|r l IH]; intros s c; cbn [fold_left]; auto. rewrite IH.
  destruct r; cbn [close_req]; auto. apply ownc_deliver.
Qed.

Lemma ntk_ext ho s s' :
  conss s' = conss s -> permit s' = permit s -> calls s' = calls s -> ntk ho s' = ntk ho s.
Proof. unfold ntk. intros -> -> ->. reflexivity. Qed.

Lemma ntk_setc_inv ho s c f :
  (forall x, gen ho (calls s) (f x) = gen ho (calls s) x) -> ntk ho (setc c f s) = ntk ho s.
Proof.
  intros Hf. destruct (get s c) as [cs|] eqn:G.
  - pose proof (ntk_setc ho s c f cs G) as E. rewrite Hf in E. lia.
  - unfold ntk. cbn. rewrite sumf_upd_none; auto.
Qed.

Lemma ntk_deliver ho s c r : ntk ho (deliver c r s) = ntk ho s.
Proof. apply ntk_setc_inv. intros x. apply gen_deliver. Qed.

Lemma ntk_close ho l : forall s, ntk ho (fold_left close_req l s) = ntk ho s.
Proof.
  induction l as [|r l IH]; intros s; cbn [fold_left]; auto. rewrite IH.
  destruct r; cbn [close_req]; auto. apply ntk_deliver.
Qed.

Definition own_step (l : label) (c : nat) : nat :=
  match l with
  | LCons c' | LDelExit c' | LCancel c' | LTimeout c' => if Nat.eqb c' c then 1 else 0
  | _ => 0
  end.

(* In the repaired code every consumer that arrives may be dropped at U1 and
   then releases one notification: an arrival is worth one more round. *)
Definition arr (ho : bool) (l : label) : nat :=
  match l with LArrive _ _ => if ho then 6 else 0 | _ => 0 end.

(* local move of consumer c0 that loses at least d of its weight and does not
   gain anything it could release *)
Lemma hang_local ho s c0 cs f c (d : nat) :
  get s c0 = Some cs ->
  gen ho (calls s) (f cs) <= gen ho (calls s) cs ->
  cw (calls s) (f cs) + d <= cw (calls s) cs ->
  hang_bound ho (setc c0 f s) c + (if Nat.eqb c0 c then d else 0) <= hang_bound ho s c.
Proof.
  intros G H1 Hd. unfold hang_bound. pose proof (ntk_setc ho s c0 f cs G) as N.
  pose proof (own_gen ho (calls s) cs) as O1. pose proof (own_gen ho (calls s) (f cs)) as O2.
  destruct (Nat.eqb_spec c0 c) as [->|Ne].
  - rewrite (ownc_setc_same ho s c f cs G). unfold ownc. rewrite G. lia.
  - rewrite ownc_setc_other; auto. lia.
Qed.

Lemma hang_bound_ext ho s s' c :
  conss s' = conss s -> calls s' = calls s -> permit s' = permit s ->
  hang_bound ho s' c = hang_bound ho s c.
Proof.
  intros E1 E2 E3. unfold hang_bound. rewrite (ownc_ext ho s s' c E1 E2), (ntk_ext ho s s' E1 E3 E2).
  reflexivity.
Qed.

Lemma rank_alive p : alive p = true -> 1 <= rank p.
Proof. destruct p; cbn; intros; try discriminate; lia. Qed.

Lemma hang_leave ho s c0 cs f c :
  get s c0 = Some cs -> alive (cphase cs) = true ->
  alive (cphase (f cs)) = false ->
  hang_bound ho (leave ho (cphase cs) c0 f s) c + (if Nat.eqb c0 c then 1 else 0) <= hang_bound ho s c.
Proof.
  intros G Al Hf.
  assert (C0 : cw (calls s) (f cs) = 0) by (unfold cw; destruct (cphase (f cs)); cbn in *; auto; discriminate).
  assert (G0 : gen ho (calls s) (f cs) = 0).
  { unfold gen, isOne. destruct ho; destruct (cphase (f cs)); cbn in *; auto; discriminate. }
  pose proof (rank_alive _ Al) as Rk.
  assert (L : hang_bound ho (setc c0 f s) c + (if Nat.eqb c0 c then 1 else 0) <= hang_bound ho s c).
  { apply hang_local with (cs := cs); auto; [lia|]. rewrite C0. unfold cw. lia. }
  (* the cases with a notify_one: it is paid by what the consumer could release *)
  assert (NO : gen ho (calls s) cs = 1 ->
               hang_bound ho (notify_one (setc c0 f s)) c + (if Nat.eqb c0 c then 1 else 0)
               <= hang_bound ho s c).
  { intros G1. unfold hang_bound. rewrite ownc_notify_one.
    pose proof (ntk_notify_one ho (setc c0 f s)) as N1. pose proof (ntk_setc ho s c0 f cs G) as N2.
    pose proof (own_gen ho (calls s) cs) as O1. pose proof (own_gen ho (calls s) (f cs)) as O2.
    unfold cw in O1 at 1. rewrite C0 in O2. rewrite G0 in N2. rewrite G1 in *.
    destruct (Nat.eqb_spec c0 c) as [->|Ne].
    - rewrite (ownc_setc_same ho s c f cs G). unfold ownc. rewrite G.
      destruct (cphase cs) as [| | | |[]| |]; cbn [rank ctk] in *; lia.
    - rewrite ownc_setc_other; auto. lia. }
  unfold leave, finish. destruct (cphase cs) as [|sn o| | |[]| |] eqn:Ph; auto.
  - destruct ho; auto. apply NO. unfold gen. rewrite Ph. reflexivity.
  - apply NO. unfold gen, isOne. rewrite Ph. destruct ho; reflexivity.
Qed.

Ltac eqb_cases :=
  repeat match goal with |- context [Nat.eqb ?a ?b] => destruct (Nat.eqb_spec a b) end;
  try contradiction; try congruence; try lia.

Ltac hloc G Ph :=
  eapply Nat.le_trans; [|eapply hang_local with (d := 1); [exact G| |]];
  [cbn [own_step]; apply Nat.le_refl
  |unfold gen, isOne; cbn [cphase with_phase add_got]; rewrite ?Ph; unfold stale;
   match goal with |- context [if ?b then _ else _] => is_var b; destruct b end; eqb_cases
  |unfold cw; cbn [cphase with_phase add_got]; rewrite ?Ph; cbn [rank ctk]; unfold stale; eqb_cases].

(* Once the subscription is deleted no step other than an arrival raises the
   potential of consumer c, and every step of c itself lowers it. *)
Lemma hang_step ho K s l s' c :
  deleted s = true -> step ho K s l = Some s' ->
  hang_bound ho s' c + own_step l c <= hang_bound ho s c + arr ho l.
Proof.
  intros Hd H. apply step_sspec in H.
  destruct H as [c0 m rest Ex Em Ed|r rest Ex Em Ed Ip|n rest Ex Em Ed|c0 m rest Ex Em Ed
                |j rest Ex Em Ed|j rest Ex Em Ed|rest Ex Em Ed|Ed Ex
                |c0 cs o G Ph|c0 cs snap o G Ph Ex|c0 cs snap o G Ph Ex L|c0 cs snap G Ph|c0 cs snap G Ph
                |c0 cs snap k G Ph Ek|c0 cs snap k G Ph Ek|c0 cs snap G Ph Ep|c0 cs snap G Ph Ep Ec
                |c0 cs snap G Ph Ep Ec|c0 cs n G Ph Hn|c0 cs Ed G Al Hk|r Ip Ex L|j Ex Ed|j Ex Ed|k m
                |c0 cs G Al|c0 cs G Al Ek]; try congruence; cbn [own_step arr]; rewrite ?Nat.add_0_r.
  - unfold hang_bound. rewrite ownc_deliver, ntk_deliver.
    change (ownc ho s c + 6 * ntk ho s <= ownc ho s c + 6 * ntk ho s). lia.
  - rewrite (hang_bound_ext ho s); auto.
  - rewrite (hang_bound_ext ho (fold_left close_req (mailbox s) s)); try reflexivity.
    unfold hang_bound. rewrite ownc_close, ntk_close. lia.
  - hloc G Ph.
  - apply hang_leave; auto; rewrite Ph; reflexivity.
  - rewrite (hang_bound_ext ho (setc c0 (with_phase (PU2 snap None)) s)); try reflexivity. hloc G Ph.
  - hloc G Ph.
  - hloc G Ph.
  - hloc G Ph.
  - hloc G Ph.
  - (* poll takes the permit *)
    unfold hang_bound. pose proof (ntk_setc ho s c0 (with_phase (PU0 true)) cs G) as N.
    pose proof (own_gen ho (calls s) cs) as O1.
    pose proof (own_gen ho (calls s) (with_phase (PU0 true) cs)) as O2.
    pose proof (gen_le1 ho (calls s) (with_phase (PU0 true) cs)) as G1.
    unfold cw in O1, O2. cbn [cphase with_phase] in O2. rewrite Ph in O1. cbn [rank ctk] in O1, O2.
    assert (E : ntk ho (set_permit false (setc c0 (with_phase (PU0 true)) s)) + 1
                = ntk ho (setc c0 (with_phase (PU0 true)) s)).
    { unfold ntk. cbn. rewrite Ep. cbn. lia. }
    rewrite ownc_ext with (s := setc c0 (with_phase (PU0 true)) s); try reflexivity.
    destruct (Nat.eqb_spec c0 c) as [->|Ne].
    + rewrite (ownc_setc_same ho s c _ cs G). unfold ownc. rewrite G. lia.
    + rewrite ownc_setc_other; auto. lia.
  - hloc G Ph.
  - rewrite (hang_bound_ext ho (setc c0 (with_phase (PParked NNone)) s)); try reflexivity. hloc G Ph.
  - hloc G Ph; destruct n; try contradiction; try lia.
  - apply hang_leave; auto. apply suspended_alive; auto.
  - rewrite (hang_bound_ext ho s); auto.
  - lia.
  - unfold hang_bound, ntk, ownc. cbn [permit calls conss set_conss]. rewrite sumf_app. cbn [sumf].
    assert (E : match get (set_conss (conss s ++ [new_cons k m]) s) c with
                | Some cs => own ho (calls s) cs | None => 8 end
                <= match get s c with Some cs => own ho (calls s) cs | None => 8 end).
    { destruct (get (set_conss (conss s ++ [new_cons k m]) s) c) as [x|] eqn:G.
      - apply get_arrive_inv in G. destruct G as [G|(_ & -> & G)]; rewrite G; [lia|].
        pose proof (own_gen ho (calls s) (new_cons k m)) as O. unfold cw in O.
        cbn [cphase new_cons rank ctk] in O. lia.
      - destruct (get s c) as [y|] eqn:Gy; [|lia].
        rewrite (get_arrive s _ c y Gy) in G. discriminate. }
    assert (E2 : gen ho (calls s) (new_cons k m) = if ho then 1 else 0)
      by (unfold gen, isOne; destruct ho; reflexivity).
    rewrite E2. destruct ho; lia.
  - apply hang_leave; auto. apply suspended_alive; auto.
  - apply hang_leave; auto. apply suspended_alive; auto.
Qed.

Fixpoint count_own (c : nat) (ls : list label) : nat :=
  match ls with [] => 0 | l :: t => own_step l c + count_own c t end.

Fixpoint count_arr (ho : bool) (ls : list label) : nat :=
  match ls with [] => 0 | l :: t => arr ho l + count_arr ho t end.

(* Along ANY run (environment steps included, whatever select! picks) from a
   state of a deleted subscription, consumer c takes at most [hang_bound s c]
   steps of its own -- plus, in the repaired code, one round (6 steps) for
   every consumer that ARRIVES during the run: such a consumer can be dropped
   while it waits for room in the mailbox and its guard then wakes somebody.
   (This is not an artefact: arrive, U0, U1, deleted branch, and the permit is
   set again; a consumer whose select! keeps picking the messages branch can
   be fed for ever by newcomers.  Without arrivals the old bound holds.) *)
Theorem C12_no_hang ho K ls : forall s s' c,
  deleted s = true -> run ho K s ls = Some s' ->
  hang_bound ho s' c + count_own c ls <= hang_bound ho s c + count_arr ho ls.
Proof.
  induction ls as [|l ls IH]; intros s s' c Hd H; cbn in H.
  - injection H as <-. cbn. lia.
  - destruct (step ho K s l) as [s1|] eqn:E; [|discriminate].
    pose proof (hang_step ho K s l s1 c Hd E). pose proof (step_deleted ho K s l s1 E Hd) as Hd1.
    specialize (IH s1 s' c Hd1 H). cbn [count_own count_arr]. lia.
Qed.

Lemma count_arr_false ls : count_arr false ls = 0.
Proof. induction ls as [|l ls IH]; cbn [count_arr]; auto. rewrite IH. destruct l; reflexivity. Qed.

Lemma count_arr_none ho ls : (forall k m, ~ In (LArrive k m) ls) -> count_arr ho ls = 0.
Proof.
  induction ls as [|l ls IH]; intros Hn; cbn [count_arr]; auto. rewrite IH.
  - destruct l; cbn [arr]; auto. exfalso. eapply Hn. left. reflexivity.
  - intros k m I. eapply Hn. right. exact I.
Qed.

(* the old code: the bound as it was *)
Corollary C12_no_hang_old K ls s s' c :
  deleted s = true -> run false K s ls = Some s' ->
  hang_bound false s' c + count_own c ls <= hang_bound false s c.
Proof.
  intros Hd H. pose proof (C12_no_hang false K ls s s' c Hd H) as B.
  rewrite count_arr_false in B. lia.
Qed.

(* both versions: nobody arrives any more *)
Corollary C12_no_hang_closed ho K ls s s' c :
  deleted s = true -> run ho K s ls = Some s' -> (forall k m, ~ In (LArrive k m) ls) ->
  hang_bound ho s' c + count_own c ls <= hang_bound ho s c.
Proof.
  intros Hd H Hn. pose proof (C12_no_hang ho K ls s s' c Hd H) as B.
  rewrite (count_arr_none ho ls Hn) in B. lia.
Qed.

Lemma sumf_le g n l : (forall x, g x <= n) -> sumf g l <= n * length l.
Proof. intros Hg. induction l as [|x t IH]; cbn; [lia|]. specialize (Hg x). lia. Qed.

(* ... and the bound is small: 13 for c itself plus 6 per notification that is
   pending or can still be released (the permit and one per consumer). *)
Lemma hang_bound_le ho s c : hang_bound ho s c <= 13 + 6 * (1 + length (conss s)).
Proof.
  unfold hang_bound, ntk, ownc.
  assert (A : sumf (gen ho (calls s)) (conss s) <= 1 * length (conss s)).
  { apply sumf_le. intros x. apply gen_le1. }
  assert (B : match get s c with Some cs => own ho (calls s) cs | None => 8 end <= 13).
  { destruct (get s c) as [cs|]; [|lia]. pose proof (own_gen ho (calls s) cs) as O. unfold cw in O.
    destruct (cphase cs) as [| | | |[]| |]; cbn [rank ctk] in O; unfold stale in O;
      try destruct (Nat.eqb _ _); lia. }
  destruct (permit s); cbn [b2n]; lia.
Qed.

(* Progress: a consumer of a deleted subscription that has not finished can
   take a step of its own, unless it waits for the actor, and then the actor
   can take its last step (exit), which fails every pending and later Pull. *)
Theorem C12_progress ho K s c cs :
  reachable ho K s -> deleted s = true -> get s c = Some cs -> alive (cphase cs) = true ->
  (exists s', step ho K s (LCons c) = Some s') \/
  (exists s', step ho K s (LDelExit c) = Some s') \/
  (exited s = false /\ exists s', step ho K s LExit = Some s').
Proof.
  intros R Hd G Al. pose proof (actor_wf ho K s R) as SW.
  destruct (exited s) eqn:Ex.
  - destruct (sw_exit K s SW Ex) as [_ Em]. cbn [step]. unfold cons_step, del_exit. rewrite G, Hd. cbn [negb].
    destruct (cphase cs) as [o|sn o|sn [[[|k]|]|]|sn|n|o|] eqn:Ph; try discriminate; eauto.
    + rewrite Ex. eauto.
    + destruct (ckind cs); eauto.
    + exfalso. destruct (sw_u2 K s SW c) as (m & I); [exists cs, sn; auto|]. rewrite Em in I. destruct I.
    + destruct (poll_init (permit s) (calls s) sn); eauto.
    + destruct (ckind cs); eauto.
  - right. right. split; auto. cbn [step]. unfold actor_exit. rewrite Hd, Ex. cbn. eauto.
Qed.

(* ------------------------------------------------------------------ *)
(* F. Termination of internal activity                                 *)

(* [ctk] and [cw] are defined above, with the no-hang bound. *)

Definition rw (r : req) : nat :=
  match r with
  | RPost n => 6 * n + 7
  | RPull _ _ => 1
  | RNack j => 6 * j + 7
  | RAck _ => 1
  | RDelete => 1
  end.

Fixpoint mw (l : list req) : nat := match l with [] => 0 | r :: t => rw r + mw t end.

Lemma mw_app l1 l2 : mw (l1 ++ l2) = mw l1 + mw l2.
Proof. induction l1; cbn [mw app]; lia. Qed.

(* Every pending notification (permit, woken consumer, queued notifying
   request, message in the backlog) pays for one more round of a consumer. *)
Definition Phi (s : state) : nat :=
  sumf (cw (calls s)) (conss s) + 6 * b2n (permit s) + mw (mailbox s) + 6 * backlog s +
  (if exited s then 0 else 1).

Ltac ph := unfold Phi;
  cbn [permit waiters calls backlog leased deleted exited mailbox conss
       set_permit set_waiters set_calls set_backlog set_leased set_deleted
       set_exited set_mailbox set_conss setc].

Lemma Phi_setc s c f cs :
  get s c = Some cs -> Phi (setc c f s) + cw (calls s) cs = Phi s + cw (calls s) (f cs).
Proof. intros G. ph. pose proof (sumf_upd (cw (calls s)) (conss s) c f cs G). lia. Qed.

Lemma Phi_setc_inv s c f : (forall x, cw (calls s) (f x) = cw (calls s) x) -> Phi (setc c f s) = Phi s.
Proof.
  intros Hf. destruct (get s c) as [cs|] eqn:G.
  - pose proof (Phi_setc s c f cs G). rewrite Hf in H. lia.
  - ph. rewrite sumf_upd_none; auto.
Qed.

Lemma cw_wake_one calls cs : cw calls (wake NOne cs) <= cw calls cs + 6.
Proof.
  unfold wake, cw. destruct (cphase cs) as [| | | |[]| |] eqn:E; cbn [cphase with_phase]; rewrite ?E; cbn [rank ctk]; lia.
Qed.

Lemma cw_deliver calls r cs : cw calls (deliver_f r cs) = cw calls cs.
Proof.
  unfold deliver_f, cw. destruct (cphase cs) as [| |sn [|]| | | |] eqn:E; cbn [cphase with_phase]; rewrite ?E; reflexivity.
Qed.

Lemma Phi_notify_one s : Phi (notify_one s) <= Phi s + 6.
Proof.
  unfold notify_one. destruct (waiters s) as [|w ws].
  - ph. destruct (permit s); cbn [b2n]; lia.
  - change (Phi (set_waiters ws (setc w (wake NOne) s))) with (Phi (setc w (wake NOne) s)).
    destruct (get s w) as [cs|] eqn:G.
    + pose proof (Phi_setc s w (wake NOne) cs G). pose proof (cw_wake_one (calls s) cs). lia.
    + ph. rewrite sumf_upd_none; auto. lia.
Qed.

Lemma Phi_deliver s c r : Phi (deliver c r s) = Phi s.
Proof. apply Phi_setc_inv. intros x. apply cw_deliver. Qed.

Lemma Phi_close l : forall s, Phi (fold_left close_req l s) = Phi s.
Proof.
  induction l as [|r l IH]; intros s; cbn [fold_left]; auto. rewrite IH.
  destruct r; cbn [close_req]; auto. apply Phi_deliver.
Qed.

Lemma Phi_leave ho s c cs f :
  get s c = Some cs -> alive (cphase cs) = true -> alive (cphase (f cs)) = false ->
  Phi (leave ho (cphase cs) c f s) < Phi s.
Proof.
  intros G Al Hf. pose proof (Phi_setc s c f cs G) as E. pose proof (rank_alive _ Al) as Rk.
  assert (Z : cw (calls s) (f cs) = 0) by (unfold cw; destruct (cphase (f cs)); cbn in *; auto; discriminate).
  rewrite Z in E. unfold cw in E. unfold leave, finish.
  destruct (cphase cs) as [|sn o| | |[]| |] eqn:Ph; cbv zeta;
    try (change (Phi (setc c f s) < Phi s); cbn [rank ctk] in *; lia).
  - (* U1: the guard notifies in the repaired code; rank U1 = 7 pays for it *)
    destruct ho.
    + pose proof (Phi_notify_one (setc c f s)). cbn [rank ctk] in *. lia.
    + change (Phi (setc c f s) < Phi s). cbn [rank ctk] in *. lia.
  - (* Waiting(one): forwarded *)
    pose proof (Phi_notify_one (setc c f s)). cbn [rank ctk] in *. lia.
Qed.

Ltac phloc G Ph :=
  let E := fresh "E" in
  match goal with |- Phi (setc ?c ?f ?s) < Phi ?s =>
    pose proof (Phi_setc s c f _ G) as E; unfold cw in E; cbn [cphase with_phase add_got] in E;
    rewrite Ph in E; cbn [rank ctk] in E; unfold stale in *; rewrite ?Nat.eqb_refl in E; try lia
  end.

(* Every internal step other than the (single) Delete turn lowers Phi. *)
Lemma Phi_step ho K s l s' :
  step ho K s l = Some s' -> internal l = true ->
  (deleted s = false /\ deleted s' = true) \/ (deleted s' = deleted s /\ Phi s' < Phi s).
Proof.
  intros H Hi. apply step_sspec in H.
  destruct H as [c0 m rest Ex Em Ed|r rest Ex Em Ed Ip|n rest Ex Em Ed|c0 m rest Ex Em Ed
                |j rest Ex Em Ed|j rest Ex Em Ed|rest Ex Em Ed|Ed Ex
                |c0 cs o G Ph|c0 cs snap o G Ph Ex|c0 cs snap o G Ph Ex L|c0 cs snap G Ph|c0 cs snap G Ph
                |c0 cs snap k G Ph Ek|c0 cs snap k G Ph Ek|c0 cs snap G Ph Ep|c0 cs snap G Ph Ep Ec
                |c0 cs snap G Ph Ep Ec|c0 cs n G Ph Hn|c0 cs Ed G Al Hk|r Ip Ex L|j Ex Ed|j Ex Ed|k m
                |c0 cs G Al|c0 cs G Al Ek]; try discriminate.
  - right. split; [reflexivity|]. rewrite Phi_deliver. ph. rewrite Em. cbn [mw rw]. lia.
  - right. split; [reflexivity|]. ph. rewrite Em. cbn [mw]. destruct r; cbn [rw]; lia.
  - right. split; [fr; reflexivity|].
    eapply Nat.le_lt_trans; [apply Phi_notify_one|]. ph. rewrite Em. cbn [mw rw]. lia.
  - right. cbv zeta. split; [destruct (Nat.ltb 0 _); fr; reflexivity|].
    assert (E : Phi (deliver c0 (RMsgs (pull_count (backlog s) m))
         (set_leased (leased s + pull_count (backlog s) m)
            (set_backlog (backlog s - pull_count (backlog s) m) (set_mailbox rest s))))
         + 1 + 6 * backlog s = Phi s + 6 * (backlog s - pull_count (backlog s) m)).
    { rewrite Phi_deliver. ph. rewrite Em. cbn [mw rw]. lia. }
    destruct (Nat.ltb_spec 0 (backlog s - pull_count (backlog s) m)) as [Lt|Ge].
    + eapply Nat.le_lt_trans; [apply Phi_notify_one|].
      assert (1 <= pull_count (backlog s) m) by (unfold pull_count; lia). lia.
    + lia.
  - right. split; [fr; reflexivity|]. unfold requeue.
    cbn [leased backlog set_mailbox].
    assert (E : Phi (set_leased (leased s - Nat.min j (leased s))
                 (set_backlog (backlog s + Nat.min j (leased s)) (set_mailbox rest s)))
                + 7 + 6 * j = Phi s + 6 * Nat.min j (leased s)).
    { ph. rewrite Em. cbn [mw rw]. lia. }
    destruct (Nat.ltb 0 _).
    + eapply Nat.le_lt_trans; [apply Phi_notify_one|]. lia.
    + lia.
  - right. split; [reflexivity|]. ph. rewrite Em. cbn [mw rw]. lia.
  - left. split; [assumption|reflexivity].
  - right. split; [fr; reflexivity|].
    assert (E : Phi (set_mailbox [] (set_exited true (fold_left close_req (mailbox s) s))) + 1 + mw (mailbox s)
                = Phi (fold_left close_req (mailbox s) s)).
    { ph. rewrite mailbox_close, exited_close, Ex. cbn [mw]. lia. }
    rewrite Phi_close in E. lia.
  - right. split; [reflexivity|]. phloc G Ph.
  - right. split; [fr; reflexivity|]. apply Phi_leave; auto. rewrite Ph. reflexivity.
  - right. split; [reflexivity|].
    assert (E0 : Phi (set_mailbox (mailbox s ++ [RPull c0 (cmax cs)]) (setc c0 (with_phase (PU2 snap None)) s))
                 = Phi (setc c0 (with_phase (PU2 snap None)) s) + 1).
    { ph. rewrite mw_app. cbn [mw rw]. lia. }
    rewrite E0. pose proof (Phi_setc s c0 (with_phase (PU2 snap None)) cs G) as E.
    unfold cw in E. cbn [cphase with_phase] in E. rewrite Ph in E. cbn [rank ctk] in E. lia.
  - right. split; [reflexivity|]. phloc G Ph.
  - right. split; [reflexivity|]. phloc G Ph.
  - right. split; [reflexivity|]. phloc G Ph.
  - right. split; [reflexivity|]. phloc G Ph.
  - right. split; [reflexivity|].
    assert (E0 : Phi (set_permit false (setc c0 (with_phase (PU0 true)) s)) + 6
                 = Phi (setc c0 (with_phase (PU0 true)) s)).
    { ph. rewrite Ep. cbn [b2n]. lia. }
    pose proof (Phi_setc s c0 (with_phase (PU0 true)) cs G) as E.
    unfold cw in E. cbn [cphase with_phase] in E. rewrite Ph in E. cbn [rank ctk] in E. lia.
  - right. split; [reflexivity|]. phloc G Ph. destruct (Nat.eqb_spec snap (calls s)); [contradiction|lia].
  - right. split; [reflexivity|].
    change (Phi (setc c0 (with_phase (PParked NNone)) s) < Phi s). phloc G Ph.
  - right. split; [reflexivity|]. phloc G Ph. destruct n; try contradiction; lia.
  - right. split; [fr; reflexivity|]. apply Phi_leave; auto. apply suspended_alive; auto.
Qed.

Definition isucc (ho : bool) (K : nat) (s' s : state) : Prop :=
  exists l, internal l = true /\ step ho K s l = Some s'.

Definition dflag (s : state) : nat := if deleted s then 0 else 1.

(* There is no infinite sequence of internal steps: quiescence is reached
   whenever the environment stops. *)
Theorem internal_terminates ho K s : Acc (isucc ho K) s.
Proof.
  remember (dflag s) as n eqn:En. remember (Phi s) as m eqn:Em. revert m s En Em.
  induction n as [n IHn] using lt_wf_ind. induction m as [m IHm] using lt_wf_ind.
  intros s En Em. constructor. intros s' (l & Hi & Hs).
  destruct (Phi_step ho K s l s' Hs Hi) as [[D1 D2]|[D P]].
  - apply (IHn (dflag s')) with (m := Phi s'); auto. unfold dflag in *. rewrite D1 in En. rewrite D2. lia.
  - apply (IHm (Phi s')); [lia| |reflexivity]. unfold dflag in *. rewrite D. assumption.
Qed.

(* While the deletion flag does not change, the number of internal steps is at most Phi. *)
Theorem internal_run_bound ho K ls : forall s s',
  forallb internal ls = true -> run ho K s ls = Some s' -> deleted s' = deleted s ->
  Phi s' + length ls <= Phi s.
Proof.
  induction ls as [|l ls IH]; intros s s' Hi H Hd; cbn in *.
  - injection H as <-. lia.
  - apply andb_true_iff in Hi. destruct Hi as [Hl Hls].
    destruct (step ho K s l) as [s1|] eqn:E; [|discriminate].
    assert (D1 : deleted s1 = deleted s).
    { destruct (deleted s) eqn:Ds.
      - eapply step_deleted; eauto.
      - destruct (deleted s1) eqn:Ds1; auto.
        assert (deleted s' = true); [|congruence].
        clear - H Ds1. revert s1 s' H Ds1. induction ls as [|x ls IHl]; intros s1 s' H D; cbn in H.
        + injection H as <-. assumption.
        + destruct (step ho K s1 x) as [s2|] eqn:E2; [|discriminate].
          eapply IHl; eauto. eapply step_deleted; eauto. }
    destruct (Phi_step ho K s l s1 E Hl) as [[A B]|[A B]]; [congruence|].
    assert (deleted s' = deleted s1) by congruence.
    specialize (IH s1 s' Hls H H0). lia.
Qed.

(* Spurious rounds.  A consumer starts a new round (goes back to U0) only by
   consuming a pending notification, and actor turns of notifying requests
   create pending notifications, at most one per turn.  (The other sources are
   the forwarding drop of a woken consumer and, in the repaired code, the drop
   of a consumer at U1.)  In [restart_consumes], "rank <= 4" says: the consumer
   is at U3 or parked. *)
Definition pend (s : state) : nat :=
  b2n (permit s) + sumf (fun cs => ctk (calls s) (cphase cs)) (conss s).

Lemma pend_setc s c f cs :
  get s c = Some cs ->
  pend (setc c f s) + ctk (calls s) (cphase cs) = pend s + ctk (calls s) (cphase (f cs)).
Proof.
  intros G. unfold pend. cbn [permit calls conss setc set_conss].
  pose proof (sumf_upd (fun cs => ctk (calls s) (cphase cs)) (conss s) c f cs G). cbn beta in H. lia.
Qed.

Lemma pend_setc_inv s c f :
  (forall x, ctk (calls s) (cphase (f x)) = ctk (calls s) (cphase x)) -> pend (setc c f s) = pend s.
Proof.
  intros Hf. destruct (get s c) as [cs|] eqn:G.
  - pose proof (pend_setc s c f cs G). rewrite Hf in H. lia.
  - unfold pend. cbn [permit calls conss setc set_conss]. rewrite sumf_upd_none; auto.
Qed.

Lemma pend_notify_one s : pend (notify_one s) <= pend s + 1.
Proof.
  unfold notify_one. destruct (waiters s) as [|w ws].
  - unfold pend. cbn [permit calls conss set_permit]. destruct (permit s); cbn [b2n]; lia.
  - change (pend (set_waiters ws (setc w (wake NOne) s))) with (pend (setc w (wake NOne) s)).
    destruct (get s w) as [cs|] eqn:G.
    + pose proof (pend_setc s w (wake NOne) cs G).
      assert (ctk (calls s) (cphase (wake NOne cs)) <= ctk (calls s) (cphase cs) + 1); [|lia].
      unfold wake. destruct (cphase cs) as [| | | |[]| |] eqn:E; cbn [cphase with_phase]; rewrite ?E; cbn [ctk]; lia.
    + unfold pend. cbn [permit calls conss setc set_conss]. rewrite sumf_upd_none; auto. lia.
Qed.

Lemma pend_deliver s c r : pend (deliver c r s) = pend s.
Proof.
  apply pend_setc_inv. intros x. unfold deliver_f.
  destruct (cphase x) as [| |sn [|]| | | |] eqn:E; cbn [cphase with_phase]; rewrite ?E; reflexivity.
Qed.

Theorem restart_consumes ho K s c cs s' cs' o :
  step ho K s (LCons c) = Some s' -> get s c = Some cs -> rank (cphase cs) <= 4 ->
  get s' c = Some cs' -> cphase cs' = PU0 o ->
  o = true /\ pend s' + 1 <= pend s.
Proof.
  intros H G Rk G' Ph'. cbn [step] in H. unfold cons_step in H. rewrite G in H.
  destruct (cphase cs) as [o1|sn o1|sn r|sn|n| |] eqn:Ph; cbn [rank] in Rk; try lia; try discriminate.
  - unfold poll_init in H. destruct (permit s) eqn:Ep; [|destruct (Nat.eqb_spec sn (calls s)) as [Ec|Ec]];
      injection H as <-.
    + change (get (setc c (with_phase (PU0 true)) s) c = Some cs') in G'.
      rewrite (get_setc_same s c _ cs G) in G'. injection G' as <-. cbn in Ph'. injection Ph' as <-.
      split; auto. pose proof (pend_setc s c (with_phase (PU0 true)) cs G) as E.
      cbn [cphase with_phase ctk] in E.
      assert (pend (set_permit false (setc c (with_phase (PU0 true)) s)) + 1
              = pend (setc c (with_phase (PU0 true)) s)); [|lia].
      unfold pend. cbn [permit calls conss setc set_conss set_permit]. rewrite Ep. cbn [b2n]. lia.
    + change (get (setc c (with_phase (PParked NNone)) s) c = Some cs') in G'.
      rewrite (get_setc_same s c _ cs G) in G'. injection G' as <-. discriminate.
    + rewrite (get_setc_same s c _ cs G) in G'. injection G' as <-. cbn in Ph'. injection Ph' as <-.
      split; auto. pose proof (pend_setc s c (with_phase (PU0 true)) cs G) as E.
      cbn [cphase with_phase ctk] in E. rewrite Ph in E. cbn [ctk] in E. unfold stale in E.
      destruct (Nat.eqb_spec sn (calls s)); [contradiction|lia].
  - destruct n; try discriminate; injection H as <-;
      rewrite (get_setc_same s c _ cs G) in G'; injection G' as <-; cbn in Ph'; injection Ph' as <-;
      (split; auto); pose proof (pend_setc s c (with_phase (PU0 true)) cs G) as E;
      cbn [cphase with_phase ctk] in E; rewrite Ph in E; cbn [ctk] in E; lia.
Qed.

Theorem pend_turn ho K s s' r rest :
  step ho K s LTurn = Some s' -> mailbox s = r :: rest -> deleted s' = deleted s ->
  pend s' <= pend s + (if notifying r && negb (deleted s) then 1 else 0).
Proof.
  intros H Em Hd. cbn [step] in H. unfold turn in H. destruct (exited s); [discriminate|].
  rewrite Em in H. injection H as <-. cbv zeta in *. destruct (deleted s) eqn:Ed.
  - rewrite andb_false_r. destruct r; try (unfold pend; cbn; lia). rewrite pend_deliver. unfold pend. cbn. lia.
  - rewrite andb_true_r. destruct r as [n|c m|j|j|]; cbn [notifying].
    + eapply Nat.le_trans; [apply pend_notify_one|]. unfold pend. cbn. lia.
    + destruct (Nat.ltb 0 _).
      * eapply Nat.le_trans; [apply pend_notify_one|]. rewrite pend_deliver. unfold pend. cbn. lia.
      * rewrite pend_deliver. unfold pend. cbn. lia.
    + unfold requeue. destruct (Nat.ltb 0 _).
      * eapply Nat.le_trans; [apply pend_notify_one|]. unfold pend. cbn. lia.
      * unfold pend. cbn. lia.
    + unfold pend. cbn. lia.
    + cbn in Hd. discriminate.
Qed.

(* ------------------------------------------------------------------ *)
(* Executable quiescence check                                         *)

Lemma quiescent_of_b ho K s : quiescentb ho K s = true -> quiescent ho K s.
Proof.
  unfold quiescentb. destruct (turn s) eqn:T; [discriminate|]. destruct (actor_exit s) eqn:X; [discriminate|].
  intros Hb l Hi. rewrite forallb_forall in Hb.
  assert (Hc : forall c, cons_step ho K s c = None /\ del_exit ho s c = None).
  { intros c. destruct (Nat.lt_ge_cases c (length (conss s))) as [L|L].
    - specialize (Hb c). rewrite in_seq in Hb. specialize (Hb ltac:(lia)).
      destruct (cons_step ho K s c); [discriminate|]. destruct (del_exit ho s c); [discriminate|]. auto.
    - assert (G : get s c = None) by (apply nth_error_None; assumption).
      unfold cons_step, del_exit. rewrite G. destruct (negb (deleted s)); auto. }
  destruct l; try discriminate; cbn [step]; auto; apply Hc.
Qed.

(* ------------------------------------------------------------------ *)
(* B (continued). The OLD code (ho = false) DOES lose a wake-up         *)

(* a consumer pulls from an empty subscription and goes to sleep *)
Definition park_seq (c : nat) : list label := [LCons c; LCons c; LTurn; LCons c; LCons c].

(* K = 1.  Consumers 0 and 1 sleep.  Post 1 wakes consumer 0 (the oldest).  It
   runs: its poll returns Ready, it creates a fresh signal and wants to send its
   Pull, but the mailbox is full (an Ack is queued): it waits at U1. *)
Definition lost_prefix : list label :=
  [LArrive Unary 1; LArrive Unary 1] ++ park_seq 0 ++ park_seq 1 ++
  [LEnq (RPost 1); LTurn; LCons 0; LCons 0; LEnq (RAck 0)].

Definition lost_before : state :=
  mkSt false [1] 0 1 0 false false [RAck 0]
       [mkCons Unary 1 (PU1 0 true) false 0; mkCons Unary 1 (PParked NNone) false 0].

(* ... there it is cancelled; the actor handles the Ack. *)
Definition lost_after : state :=
  mkSt false [1] 0 1 0 false false []
       [mkCons Unary 1 PGone false 0; mkCons Unary 1 (PParked NNone) false 0].

Theorem C06_refuted_cancel_owing :
  run false 1 init lost_prefix = Some lost_before /\
  length (mailbox lost_before) = 1 /\                 (* the mailbox is full *)
  bad_drop lost_before (LCancel 0) = true /\          (* exactly the excluded step *)
  run false 1 lost_before [LCancel 0; LTurn] = Some lost_after /\
  reachable false 1 lost_after /\
  lost_wakeup lost_after /\                           (* a message, a sleeper, nothing pending *)
  quiescent false 1 lost_after /\                     (* and nothing will ever happen *)
  get lost_after 1 = Some (mkCons Unary 1 (PParked NNone) false 0).
Proof.
  assert (R1 : run false 1 init lost_prefix = Some lost_before) by (vm_compute; reflexivity).
  assert (R2 : run false 1 lost_before [LCancel 0; LTurn] = Some lost_after) by (vm_compute; reflexivity).
  split; [exact R1|]. split; [reflexivity|]. split; [reflexivity|]. split; [exact R2|].
  split; [eapply run_reachable; [|exact R2]; eapply run_reachable; [constructor|exact R1]|].
  split; [|split; [apply quiescent_of_b; vm_compute; reflexivity|reflexivity]].
  split; [reflexivity|]. split; [cbn; lia|]. split; [reflexivity|].
  split; [exists 1, (mkCons Unary 1 (PParked NNone) false 0); split; reflexivity|].
  split; [|intros r []].
  intros [|[|c]] cs G; cbn in G; try (injection G as <-; cbn; auto; fail).
  destruct c; discriminate.
Qed.

(* The same loss through the 300 s timer instead of a cancellation. *)
Theorem C06_refuted_timeout_owing :
  exists s, run false 1 lost_before [LTimeout 0; LTurn] = Some s /\
            bad_drop lost_before (LTimeout 0) = true /\
            lost_wakeup s /\ quiescent false 1 s.
Proof.
  exists (mkSt false [1] 0 1 0 false false []
            [mkCons Unary 1 (PDone OEmpty) true 0; mkCons Unary 1 (PParked NNone) false 0]).
  split; [vm_compute; reflexivity|]. split; [vm_compute; reflexivity|].
  split; [|apply quiescent_of_b; vm_compute; reflexivity].
  split; [reflexivity|]. split; [cbn; lia|]. split; [reflexivity|].
  split; [exists 1, (mkCons Unary 1 (PParked NNone) false 0); split; reflexivity|].
  split; [|intros r []].
  intros [|[|c]] cs G; cbn in G; try (injection G as <-; cbn; auto; fail).
  destruct c; discriminate.
Qed.

(* ------------------------------------------------------------------ *)
(* B (continued). The REPAIRED code (ho = true) on the same schedules   *)

(* a woken consumer runs: U0, U1, sends its Pull, the actor answers, the
   consumer sees the reply *)
Definition serve_seq (c : nat) : list label := [LCons c; LCons c; LCons c; LTurn; LCons c].

Definition fixed_after : state :=
  mkSt false [] 0 1 0 false false []
       [mkCons Unary 1 PGone false 0; mkCons Unary 1 (PParked NOne) false 0].

Definition fixed_after_timeout : state :=
  mkSt false [] 0 1 0 false false []
       [mkCons Unary 1 (PDone OEmpty) true 0; mkCons Unary 1 (PParked NOne) false 0].

(* The same prefix leads to the same state; the same cancellation now makes
   the guard of consumer 0 call notify_one, which wakes consumer 1 (the oldest
   waiter); consumer 1 runs and gets the message. *)
Theorem C06_fixed_cancel_owing :
  run true 1 init lost_prefix = Some lost_before /\
  (exists s1, run true 1 lost_before [LCancel 0; LTurn] = Some s1 /\
              phases s1 = [PGone; PParked NOne] /\ waiters s1 = [] /\ backlog s1 = 1 /\
              ~ lost_wakeup s1) /\
  exists s, run true 1 init (lost_prefix ++ [LCancel 0; LTurn] ++ serve_seq 1) = Some s /\
            get s 1 = Some (mkCons Unary 1 (PDone (OMessages 1)) false 1) /\
            backlog s = 0 /\ quiescent true 1 s.
Proof.
  assert (R1 : run true 1 init lost_prefix = Some lost_before) by (vm_compute; reflexivity).
  split; [exact R1|]. split.
  - assert (R2 : run true 1 lost_before [LCancel 0; LTurn] = Some fixed_after) by (vm_compute; reflexivity).
    exists fixed_after. split; [exact R2|]. repeat split.
    apply (C06_lost_wakeup_unreachable 1).
    apply (run_reachable true 1 [LCancel 0; LTurn] lost_before); [|exact R2].
    apply (run_reachable true 1 lost_prefix init); [constructor|exact R1].
  - eexists. split; [vm_compute; reflexivity|]. repeat split.
    apply quiescent_of_b. vm_compute. reflexivity.
Qed.

(* Likewise when the 300 s timer of consumer 0 fires instead. *)
Theorem C06_fixed_timeout_owing :
  (exists s1, run true 1 lost_before [LTimeout 0; LTurn] = Some s1 /\
              phases s1 = [PDone OEmpty; PParked NOne] /\ waiters s1 = [] /\ backlog s1 = 1 /\
              ~ lost_wakeup s1) /\
  exists s, run true 1 init (lost_prefix ++ [LTimeout 0; LTurn] ++ serve_seq 1) = Some s /\
            get s 1 = Some (mkCons Unary 1 (PDone (OMessages 1)) false 1) /\
            backlog s = 0 /\ quiescent true 1 s.
Proof.
  assert (R1 : run true 1 init lost_prefix = Some lost_before) by (vm_compute; reflexivity).
  split.
  - assert (R2 : run true 1 lost_before [LTimeout 0; LTurn] = Some fixed_after_timeout)
      by (vm_compute; reflexivity).
    exists fixed_after_timeout. split; [exact R2|]. repeat split.
    apply (C06_lost_wakeup_unreachable 1).
    apply (run_reachable true 1 [LTimeout 0; LTurn] lost_before); [|exact R2].
    apply (run_reachable true 1 lost_prefix init); [constructor|exact R1].
  - eexists. split; [vm_compute; reflexivity|]. repeat split.
    apply quiescent_of_b. vm_compute. reflexivity.
Qed.

(* Had consumer 0 been cancelled one step earlier (woken, not yet run), the
   notification would have been forwarded to consumer 1 (both versions). *)
Example cancel_woken_is_forwarded ho :
  option_map (fun s => (phases s, waiters s))
    (run ho 1 init ([LArrive Unary 1; LArrive Unary 1] ++ park_seq 0 ++ park_seq 1 ++
                    [LEnq (RPost 1); LTurn; LCancel 0]))
  = Some ([PGone; PParked NOne], []).
Proof. destruct ho; vm_compute; reflexivity. Qed.

(* One step later (U0 right after the Ready poll) the future cannot be dropped:
   the code runs synchronously into the send. *)
Example no_drop_at_U0_owing ho :
  run ho 1 init ([LArrive Unary 1; LArrive Unary 1] ++ park_seq 0 ++ park_seq 1 ++
                 [LEnq (RPost 1); LTurn; LCons 0; LCancel 0]) = None /\
  run ho 1 init ([LArrive Unary 1; LArrive Unary 1] ++ park_seq 0 ++ park_seq 1 ++
                 [LEnq (RPost 1); LTurn; LCons 0; LTimeout 0]) = None.
Proof. destruct ho; split; vm_compute; reflexivity. Qed.

(* The guard fires unconditionally: a consumer that never consumed anything
   and is cancelled while it waits for room leaves a surplus permit (repaired
   code only); it costs the next consumer one empty pull. *)
Example surplus_wakeup :
  option_map (fun s => (permit s, phases s))
    (run true 1 init [LArrive Unary 1; LEnq (RAck 0); LCons 0; LCancel 0])
  = Some (true, [PGone]) /\
  option_map (fun s => (permit s, phases s))
    (run false 1 init [LArrive Unary 1; LEnq (RAck 0); LCons 0; LCancel 0])
  = Some (false, [PGone]).
Proof. split; vm_compute; reflexivity. Qed.

(* ------------------------------------------------------------------ *)
(* Concrete runs (the same in both versions)                           *)

Definition obs (ho : bool) (K : nat) (o : option state) :=
  option_map (fun s => (permit s, waiters s, backlog s, phases s, quiescentb ho K s)) o.

Definition two_parked : list label := [LArrive Unary 1; LArrive Unary 1] ++ park_seq 0 ++ park_seq 1.

(* two parked consumers and a Post 1: only the oldest is woken ... *)
Example post1_wakes_oldest ho :
  obs ho 4 (run ho 4 init (two_parked ++ [LEnq (RPost 1); LTurn]))
  = Some (false, [1], 1, [PParked NOne; PParked NNone], false).
Proof. destruct ho; vm_compute; reflexivity. Qed.

(* ... and served; the other one keeps sleeping, nothing is left. *)
Example post1_serves_oldest ho :
  obs ho 4 (run ho 4 init (two_parked ++ [LEnq (RPost 1); LTurn; LCons 0; LCons 0; LCons 0; LTurn; LCons 0]))
  = Some (false, [1], 0, [PDone (OMessages 1); PParked NNone], true).
Proof. destruct ho; vm_compute; reflexivity. Qed.

(* Post 3, both pull with limit 1: the Pull turn of consumer 0 leaves a
   non-empty backlog and notifies again, which wakes consumer 1; its Pull
   leaves one message and sets the permit for whoever comes next. *)
Example post3_chain ho :
  obs ho 4 (run ho 4 init (two_parked ++
     [LEnq (RPost 3); LTurn; LCons 0; LCons 0; LCons 0; LTurn; LCons 0;
      LCons 1; LCons 1; LCons 1; LTurn; LCons 1]))
  = Some (true, [], 1, [PDone (OMessages 1); PDone (OMessages 1)], true).
Proof. destruct ho; vm_compute; reflexivity. Qed.

(* check-then-park race: the Post lands between the consumer's empty reply and
   its poll; notify_one finds no waiter and stores the permit ... *)
Example race_permit_set ho :
  obs ho 4 (run ho 4 init [LArrive Unary 1; LCons 0; LCons 0; LTurn; LCons 0; LEnq (RPost 1); LTurn])
  = Some (true, [], 1, [PU3 0], false).
Proof. destruct ho; vm_compute; reflexivity. Qed.

(* ... the poll returns Ready, the consumer pulls again and is served. *)
Example race_poll_ready ho :
  obs ho 4 (run ho 4 init [LArrive Unary 1; LCons 0; LCons 0; LTurn; LCons 0; LEnq (RPost 1); LTurn;
                           LCons 0; LCons 0; LCons 0; LTurn; LCons 0])
  = Some (false, [], 0, [PDone (OMessages 1)], true).
Proof. destruct ho; vm_compute; reflexivity. Qed.

(* Delete with a parked stream and a parked unary Pull: both are woken. *)
Definition two_parked_su : list label := [LArrive Stream 1; LArrive Unary 1] ++ park_seq 0 ++ park_seq 1.

Example delete_wakes_all ho :
  obs ho 4 (run ho 4 init (two_parked_su ++ [LEnq RDelete; LTurn]))
  = Some (false, [], 0, [PParked NAll; PParked NAll], false).
Proof. destruct ho; vm_compute; reflexivity. Qed.

(* select! picks the deleted branch for both *)
Example delete_notfound ho :
  obs ho 4 (run ho 4 init (two_parked_su ++ [LEnq RDelete; LTurn; LDelExit 0; LDelExit 1; LExit]))
  = Some (false, [], 0, [PDone ONotFound; PDone ONotFound], true).
Proof. destruct ho; vm_compute; reflexivity. Qed.

(* select! picks the messages branch for both: they pull again, the actor is
   gone, the stream ends with NotFound and the unary Pull with an error.  In
   the repaired code the failed send returns through the armed guard, which
   leaves a (useless) permit behind. *)
Example delete_closed :
  obs false 4 (run false 4 init (two_parked_su ++
     [LEnq RDelete; LTurn; LCons 0; LCons 0; LCons 0; LCons 1; LCons 1; LExit; LCons 0; LCons 1]))
  = Some (false, [], 0, [PDone ONotFound; PDone OError], true) /\
  obs true 4 (run true 4 init (two_parked_su ++
     [LEnq RDelete; LTurn; LCons 0; LCons 0; LCons 0; LCons 1; LCons 1; LExit; LCons 0; LCons 1]))
  = Some (true, [], 0, [PDone ONotFound; PDone OError], true).
Proof. split; vm_compute; reflexivity. Qed.

(* Why C12_no_hang counts arrivals in the repaired code.  The subscription is
   deleted (actor still there), stream consumer 0 is at U3 with a fresh signal.
   A unary Pull arrives, waits at U1 and leaves through the deleted branch: its
   guard sets the permit.  Consumer 0 (whose select! picks the messages branch)
   consumes it and goes round once more: 4 own steps, same state, same
   potential.  In the old code the newcomer leaves nothing behind and
   consumer 0 parks. *)
Definition fed_start : list label :=
  [LArrive Stream 1; LCons 0; LCons 0; LTurn; LCons 0; LEnq RDelete; LTurn;
   LCons 0; LCons 0; LCons 0; LTurn; LCons 0].
Definition fed_round : list label :=
  [LArrive Unary 1; LCons 1; LDelExit 1; LCons 0; LCons 0; LCons 0; LTurn; LCons 0].

Example arrivals_feed_deleted :
  exists s s', run true 4 init fed_start = Some s /\ deleted s = true /\ exited s = false /\
               run true 4 s fed_round = Some s' /\
               phases s = [PU3 1] /\ phases s' = [PU3 1; PDone ONotFound] /\
               hang_bound true s 0 = 4 /\ hang_bound true s' 0 = 4 /\
               count_own 0 fed_round = 4 /\ count_arr true fed_round = 6.
Proof.
  eexists. eexists. split; [vm_compute; reflexivity|]. split; [reflexivity|]. split; [reflexivity|].
  split; [vm_compute; reflexivity|]. repeat split.
Qed.

Example arrivals_do_not_feed_old :
  option_map phases (run false 4 init (fed_start ++ [LArrive Unary 1; LCons 1; LDelExit 1; LCons 0]))
  = Some [PParked NNone; PDone ONotFound].
Proof. vm_compute. reflexivity. Qed.

(* ------------------------------------------------------------------ *)

Print Assumptions notify_wf.
Print Assumptions actor_wf.
Print Assumptions notify_wf_sig.
Print Assumptions C06_no_lost_wakeup_exact.
Print Assumptions C06_no_lost_wakeup.
Print Assumptions C06_lost_wakeup_unreachable.
Print Assumptions C06_quiescent.
Print Assumptions C06_no_lost_wakeup_exact_old.
Print Assumptions C06_no_lost_wakeup_old.
Print Assumptions C06_lost_wakeup_unreachable_old.
Print Assumptions C06_quiescent_old.
Print Assumptions C06_refuted_cancel_owing.
Print Assumptions C06_refuted_timeout_owing.
Print Assumptions C06_fixed_cancel_owing.
Print Assumptions C06_fixed_timeout_owing.
Print Assumptions C06_cancel_parked_ok.
Print Assumptions C06_cancel_woken_forwarded.
Print Assumptions C12_release.
Print Assumptions C12_no_hang.
Print Assumptions C12_no_hang_old.
Print Assumptions C12_no_hang_closed.
Print Assumptions hang_bound_le.
Print Assumptions C12_progress.
Print Assumptions C15_empty_rule.
Print Assumptions C15_outcomes.
Print Assumptions C15_empty_reply_continues.
Print Assumptions internal_terminates.
Print Assumptions internal_run_bound.
Print Assumptions restart_consumes.
Print Assumptions pend_turn.
